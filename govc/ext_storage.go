package main

// Additions made for the storage properties (C03 C08 C06 C05/C01); everything here is additive:
//   - frame_only is honoured only by the check that owns the frame clause (frameOnlyApplies)
//   - loop-carried ghost variables ("loop N modifies g"): havocLoopGhosts
//   - spec builtins over SMT arrays: store(a, i, v), constArray(v) (a[i] already works on array-sorted ghosts)

import (
	"fmt"
	"os"
	"strings"
)

// frameOnlyApplies: a contract marked frame_only is not executed as a root, only its static frame clause is
// checked. That is what the property owning the never_writes/iface_calls_only/direct_calls_only tag wants; another
// property that puts functional clauses on the same function (in its own zz_verif_contracts_<cid>.go) needs the
// root executed. So the flag applies when the check running is the owner of one of the frame tags, or when there
// is no functional clause at all. `govc debug` (no property id) executes fully only with GOVC_FULL=1.
func (e *Engine) frameOnlyApplies(c *FuncContract) bool {
	if c == nil || c.Flags["frame_only"] == "" {
		return false
	}
	if len(c.Ensures) == 0 && len(c.Ats) == 0 && len(c.Loops) == 0 && len(c.Requires) == 0 {
		return true
	}
	if e.propID == "" {
		return os.Getenv("GOVC_FULL") == ""
	}
	for _, k := range []string{"never_writes", "iface_calls_only", "direct_calls_only"} {
		spec := strings.TrimSpace(c.Flags[k])
		if strings.HasPrefix(spec, "["+e.propID+".") {
			return true
		}
	}
	return false
}

// havocLoopGhosts gives the ghost variables declared loop-carried for this loop an arbitrary value at the
// head of the arbitrary iteration (they are then constrained by the loop invariant only, like the cells the
// loop writes). Ghosts that are not declared loop-carried keep the value they had before the loop, which is
// only right for ghosts the loop body does not set.
func (e *Engine) havocDeclaredLoopGhosts(s *State, fr *Frame, li *LoopInfo) {
	c := fr.contract
	if c == nil || c.LoopGhosts == nil {
		return
	}
	for _, g := range c.LoopGhosts[li.Ordinal] {
		var decl *GhostDecl
		for i := range c.Ghosts {
			if c.Ghosts[i].Name == g {
				decl = &c.Ghosts[i]
			}
		}
		if decl == nil {
			e.bail("loop %d modifies %s: no such ghost in %s", li.Ordinal, g, shortKey(c.Key))
		}
		env := e.mkEnv(s, fr, nil, nil)
		ty, sort, err := e.resolveType(env, decl.Type)
		if err != nil {
			e.bail("ghost %s: %v", g, err)
		}
		if ty != nil {
			fr.ghosts[g] = s.fresh(fmt.Sprintf("loop%d.ghost.%s", li.Ordinal, g), ty)
		} else {
			fr.ghosts[g] = e.u.Fresh(fmt.Sprintf("loop%d.ghost.%s", li.Ordinal, g), sort)
		}
	}
}

// arraySpec: spec builtins over SMT arrays (ghost sequences): store(a, i, v) and constArray(v).
func (e *Engine) arraySpec(env *Env, fun string, args []Expr) (TV, bool, error) {
	switch fun {
	case "store":
		if len(args) != 3 {
			return TV{}, true, fmt.Errorf("store(a, i, v)")
		}
		a, err := e.evalTerm(env, args[0])
		if err != nil {
			return TV{}, true, err
		}
		if !strings.HasPrefix(a.Sort, "(Array") {
			return TV{}, true, fmt.Errorf("store: first argument is not an array (%s)", a.Sort)
		}
		i, err := e.evalTerm(env, args[1])
		if err != nil {
			return TV{}, true, err
		}
		v, err := e.evalTerm(env, args[2])
		if err != nil {
			return TV{}, true, err
		}
		return TV{Store(a, i, v), nil}, true, nil
	case "constArray":
		if len(args) != 1 {
			return TV{}, true, fmt.Errorf("constArray(v)")
		}
		v, err := e.evalTerm(env, args[0])
		if err != nil {
			return TV{}, true, err
		}
		so := ArraySort(SInt, v.Sort)
		return TV{Term{fmt.Sprintf("((as const %s) %s)", so, v.S), so}, nil}, true, nil
	}
	return TV{}, false, nil
}

// nameGhostArray: an array-sorted ghost value (a ghost sequence updated with store(...)) is bound to a fresh
// constant equal to it, so that quantifier patterns mentioning the ghost are plain (select g i) terms
// (a pattern may not contain store/ite, and define-fun names are expanded by the solver before matching).
func (e *Engine) nameGhostArray(s *State, name string, v Value) Value {
	t, ok := v.(Term)
	if !ok || !strings.HasPrefix(t.Sort, "(Array") || !strings.HasPrefix(t.S, "(") {
		return v
	}
	c := e.u.Fresh("ghost."+name, t.Sort)
	s.assume(Eq(c, t))
	return c
}

// leanInvariants: a contract flagged "lean_invariants" proves every loop-invariant obligation (init and step) on
// its own, from the state reached, without adding the invariants already proved at the same point as assumptions.
// Fewer quantified facts per query; each invariant must then be inductive by itself (given all invariants at the head).
func (e *Engine) leanInvariants(fr *Frame) bool {
	return fr.contract != nil && fr.contract.Flags["lean_invariants"] != ""
}

// freezeHeapsForPatterns: before a quantifier with explicit patterns is rendered, every heap array that is currently a
// compound term (a chain of stores, possibly behind define-fun names, which the solvers expand) is bound to a fresh constant
// equal to it. A pattern may not contain ite/and/store sub-terms, and after a few in-place writes the heap term does.
func (e *Engine) freezeHeapsForPatterns(env *Env) {
	s := env.s
	plain := func(t Term) bool {
		if strings.HasPrefix(t.S, "(") {
			return false
		}
		e.u.mu.Lock()
		d, ok := e.u.syms[t.S]
		e.u.mu.Unlock()
		return !ok || d.body == ""
	}
	freeze := func(h map[string]Term) {
		for _, k := range sortedKeys(h) {
			t := h[k]
			if !strings.HasPrefix(t.Sort, "(Array") || plain(t) {
				continue
			}
			c := e.u.Fresh("frz."+k, t.Sort)
			s.assume(Eq(c, t))
			h[k] = c
		}
	}
	freeze(s.heap)
	if env.old != nil && env.old.heap != nil {
		freeze(env.old.heap)
	}
}

// swapPlusInPatterns returns the pattern terms with the two arguments of every binary (+ a b) that has a
// quantified variable (q_*) as one argument swapped, or nil when nothing changes.
func swapPlusInPatterns(ts []string) []string {
	changed := false
	var out []string
	var walk func(n *sexp)
	walk = func(n *sexp) {
		if n == nil || !n.list {
			return
		}
		for _, k := range n.kids {
			walk(k)
		}
		if len(n.kids) == 3 && !n.kids[0].list && n.kids[0].atom == "+" {
			a, b := n.kids[1], n.kids[2]
			isVar := func(x *sexp) bool { return !x.list && strings.HasPrefix(x.atom, "q_") }
			if isVar(a) != isVar(b) {
				n.kids[1], n.kids[2] = b, a
				changed = true
			}
		}
	}
	for _, t := range ts {
		sx := sexpParse(t)
		if sx == nil {
			return nil
		}
		walk(sx)
		out = append(out, sx.String())
	}
	if !changed {
		return nil
	}
	return out
}
