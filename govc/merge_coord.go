package main

// Path merging (opt-in: the ROOT function's contract says `merge_branches`).
//
// The base engine enumerates paths: every `if`, every `append` (in place / reallocate) doubles the number of
// states, and every state that reaches a clause produces its own obligation. Functions such as JoinGroup
// (a dozen independent branches) are out of reach that way. With the flag:
//
//   * at an `if` whose block has an immediate post-dominator J (in the same function, not a loop header), the
//     two sides are executed separately until they reach J (obligations inside the region keep their own path
//     conditions) and the states that arrive are merged into one;
//   * the two outcomes of an `append` are merged right after the call.
//
// Merging n states that share a common ancestor: fresh Booleans p_1..p_n ("path i was taken"), exactly one of
// them true; every assumption a that path i added since the ancestor becomes (p_i => a); every value that
// differs (register, local cell, heap array, ghost) becomes a fresh v with (p_i => v = v_i). This is the
// usual path-selector encoding: a model of the merged state fixes one i and satisfies exactly path i's
// assumptions with path i's values, so every obligation proved after the merge is proved for every path.
// When something cannot be merged (different defer stacks, different locks held, function-valued locals that
// differ) the states are simply kept separate, which is the base behaviour.

import (
	"fmt"
	"go/types"

	"golang.org/x/tools/go/ssa"
)

func (e *Engine) mergeOn() bool {
	return e.rootContract != nil && e.rootContract.Flags["merge_branches"] != ""
}

// ---------------------------------------------------------------------------
// immediate post-dominators

type pdomInfo struct {
	ipdom map[*ssa.BasicBlock]*ssa.BasicBlock
}

var pdomCache = map[*ssa.Function]*pdomInfo{}

func postDominators(fn *ssa.Function) *pdomInfo {
	if pi, ok := pdomCache[fn]; ok {
		return pi
	}
	n := len(fn.Blocks)
	exit := n // virtual exit
	// pdom sets as bool slices over n+1 nodes
	full := func() []bool {
		b := make([]bool, n+1)
		for i := range b {
			b[i] = true
		}
		return b
	}
	pd := make([][]bool, n+1)
	for i := 0; i <= n; i++ {
		pd[i] = full()
	}
	pd[exit] = make([]bool, n+1)
	pd[exit][exit] = true
	succs := func(i int) []int {
		b := fn.Blocks[i]
		if len(b.Succs) == 0 {
			return []int{exit}
		}
		var out []int
		for _, s := range b.Succs {
			out = append(out, s.Index)
		}
		return out
	}
	changed := true
	for changed {
		changed = false
		for i := n - 1; i >= 0; i-- {
			nw := full()
			for _, sidx := range succs(i) {
				for k := range nw {
					nw[k] = nw[k] && pd[sidx][k]
				}
			}
			nw[i] = true
			for k := range nw {
				if nw[k] != pd[i][k] {
					changed = true
				}
			}
			pd[i] = nw
		}
	}
	pi := &pdomInfo{ipdom: map[*ssa.BasicBlock]*ssa.BasicBlock{}}
	for i := 0; i < n; i++ {
		// strict post-dominators of i; the immediate one is post-dominated by all the others
		var cands []int
		for k := 0; k < n; k++ {
			if k != i && pd[i][k] {
				cands = append(cands, k)
			}
		}
		for _, c := range cands {
			ok := true
			for _, d := range cands {
				if d != c && !pd[c][d] {
					ok = false
					break
				}
			}
			if ok {
				pi.ipdom[fn.Blocks[i]] = fn.Blocks[c]
				break
			}
		}
	}
	pdomCache[fn] = pi
	return pi
}

func firstNonPhi(b *ssa.BasicBlock) int {
	i := 0
	for i < len(b.Instrs) {
		if _, ok := b.Instrs[i].(*ssa.Phi); !ok {
			break
		}
		i++
	}
	return i
}

// mergeTarget returns the join block for an `if` in block b, or nil when merging is not attempted.
func (e *Engine) mergeTarget(fn *ssa.Function, b *ssa.BasicBlock) *ssa.BasicBlock {
	j := postDominators(fn).ipdom[b]
	if j == nil {
		return nil
	}
	fl := e.loopsOf(fn)
	if _, isHeader := fl.ByHeader[j]; isHeader {
		return nil
	}
	// b and j must sit in the same loops (a join outside the loop of b is reached by leaving the loop)
	for _, li := range fl.Loops {
		if li.Blocks[b] != li.Blocks[j] {
			return nil
		}
	}
	return j
}

// ---------------------------------------------------------------------------
// region exploration

// runToJoin executes the given states until each one reaches block j of the frame at the given depth (before its
// first non-phi instruction), terminates, or dies; nested branches are merged recursively by step().
func (e *Engine) runToJoin(work []*State, depth int, fn *ssa.Function, j *ssa.BasicBlock) []*State {
	return e.runToPoint(work, depth, fn, j, firstNonPhi(j))
}

// runToPoint: as runToJoin with an explicit instruction index inside block j (used for "after this call").
func (e *Engine) runToPoint(work []*State, depth int, fn *ssa.Function, j *ssa.BasicBlock, at int) []*State {
	var arrived []*State
	for len(work) > 0 {
		s := work[len(work)-1]
		work = work[:len(work)-1]
		e.statesRun++
		if e.statesRun > e.maxStates {
			e.bail("path explosion (> %d states) in %s", e.maxStates, e.rootKey)
		}
		for {
			if s.dead || len(s.frames) == 0 {
				break
			}
			fr := s.top()
			if len(s.frames) == depth && fr.fn == fn && fr.block == j && fr.idx == at {
				arrived = append(arrived, s)
				break
			}
			if fr.idx >= len(fr.block.Instrs) {
				e.bail("fell off block %d of %s", fr.block.Index, fr.fn.Name())
			}
			in := fr.block.Instrs[fr.idx]
			fr.idx++
			succ, done := e.step(s, fr, in)
			if done {
				work = append(work, succ...)
				break
			}
		}
	}
	return arrived
}

// ---------------------------------------------------------------------------
// merging

func sameValue(a, b Value) bool {
	switch x := a.(type) {
	case nil:
		return b == nil
	case Term:
		y, ok := b.(Term)
		return ok && x.S == y.S && x.Sort == y.Sort
	case *Ptr:
		y, ok := b.(*Ptr)
		if !ok {
			return false
		}
		if x == y {
			return true
		}
		if x.Kind != y.Kind {
			return false
		}
		switch x.Kind {
		case pkObj:
			return x.Ref.S == y.Ref.S
		case pkCell:
			return x.Cell == y.Cell
		case pkGlobal:
			return x.Glob == y.Glob
		case pkField:
			return x.Field == y.Field && sameValue(x.Base, y.Base)
		case pkElem:
			return x.Ref.S == y.Ref.S && x.Idx.S == y.Idx.S
		case pkArrElem:
			return x.Idx.S == y.Idx.S && sameValue(x.Base, y.Base)
		}
		return false
	case *Tuple:
		y, ok := b.(*Tuple)
		if !ok || len(x.Vs) != len(y.Vs) {
			return false
		}
		for i := range x.Vs {
			if !sameValue(x.Vs[i], y.Vs[i]) {
				return false
			}
		}
		return true
	case *FuncRef:
		y, ok := b.(*FuncRef)
		return ok && x.Fn == y.Fn
	case *Builtin:
		y, ok := b.(*Builtin)
		return ok && x.Name == y.Name
	}
	return a == b // closures, iterators: identity
}

// joinTerm names the merged value: a fresh constant v with (p_i => v = t_i) for every path. No ite term is
// built, so merged heap arrays stay plain symbols (usable in quantifier patterns).
func (e *Engine) joinTerm(m *State, guards []Term, ts []Term, hint string) Term {
	v := e.u.Fresh("m."+hint, ts[0].Sort)
	for i, t := range ts {
		m.assume(Implies(guards[i], Eq(v, t)))
	}
	return v
}

// mergeValues merges one value per state; ok=false when the shapes cannot be merged.
func (e *Engine) mergeValues(m *State, guards []Term, vs []Value, hint string) (Value, bool) {
	all := true
	for _, v := range vs[1:] {
		if !sameValue(vs[0], v) {
			all = false
			break
		}
	}
	if all {
		return vs[0], true
	}
	switch x := vs[0].(type) {
	case Term:
		ts := make([]Term, len(vs))
		for i, v := range vs {
			t, ok := v.(Term)
			if !ok || t.Sort != x.Sort {
				return nil, false
			}
			ts[i] = t
		}
		return e.joinTerm(m, guards, ts, hint), true
	case *Ptr:
		if x.Kind != pkObj {
			return nil, false
		}
		ts := make([]Term, len(vs))
		for i, v := range vs {
			p, ok := v.(*Ptr)
			if !ok || p.Kind != pkObj || !types.Identical(p.Elem, x.Elem) {
				return nil, false
			}
			ts[i] = p.Ref
		}
		return &Ptr{Kind: pkObj, Ref: e.joinTerm(m, guards, ts, hint), Elem: x.Elem}, true
	case *Tuple:
		out := &Tuple{}
		for k := range x.Vs {
			col := make([]Value, len(vs))
			for i, v := range vs {
				t, ok := v.(*Tuple)
				if !ok || len(t.Vs) != len(x.Vs) {
					return nil, false
				}
				col[i] = t.Vs[k]
			}
			mv, ok := e.mergeValues(m, guards, col, hint)
			if !ok {
				return nil, false
			}
			out.Vs = append(out.Vs, mv)
		}
		return out, true
	}
	return nil, false
}

// mergeStates merges states that descend from a common ancestor whose assumption list had n0 entries and that
// stand at the same program point with the same frame stack. Returns nil when they cannot be merged.
func (e *Engine) mergeStates(n0 int, sts []*State) *State {
	if len(sts) == 0 {
		return nil
	}
	if len(sts) == 1 {
		return sts[0]
	}
	first := sts[0]
	for _, s := range sts[1:] {
		if len(s.frames) != len(first.frames) {
			return nil
		}
		if len(s.locks) != len(first.locks) {
			return nil
		}
		for k := range first.locks {
			if !s.locks[k] {
				return nil
			}
		}
		for fi, f := range s.frames {
			g := first.frames[fi]
			if f.fn != g.fn || f.block != g.block || f.idx != g.idx || len(f.defers) != len(g.defers) || len(f.loops) != len(g.loops) {
				return nil
			}
			for di := range f.defers {
				if f.defers[di].site != g.defers[di].site {
					return nil
				}
			}
			for li := range f.loops {
				if f.loops[li].loop != g.loops[li].loop {
					return nil
				}
			}
		}
	}
	// common prefix of assumptions must really be common
	base := first.assumes
	for base != nil && base.n > n0 {
		base = base.prev
	}
	for _, s := range sts[1:] {
		b := s.assumes
		for b != nil && b.n > n0 {
			b = b.prev
		}
		if b != base {
			return nil
		}
	}
	guards := make([]Term, len(sts))
	for i := range sts {
		guards[i] = e.u.Fresh("path", SBool)
	}
	m := first.fork()
	m.assumes = base
	m.assume(Or(guards...))
	for i := range guards {
		for k := i + 1; k < len(guards); k++ {
			m.assume(Not(And(guards[i], guards[k])))
		}
	}
	for i, s := range sts {
		all := s.assumes.slice()
		for _, a := range all[min(n0, len(all)):] {
			m.assume(Implies(guards[i], a))
		}
	}
	// cells
	keys := map[int]bool{}
	for _, s := range sts {
		for k := range s.cells {
			keys[k] = true
		}
	}
	for k := range keys {
		vs := make([]Value, 0, len(sts))
		var gs []Term
		for i, s := range sts {
			if v, ok := s.cells[k]; ok {
				vs = append(vs, v)
				gs = append(gs, guards[i])
			}
		}
		if len(vs) < len(sts) {
			// allocated on some paths only: unreachable from the others, keep the first value
			m.cells[k] = vs[0]
			if len(vs) > 1 {
				if mv, ok := e.mergeValues(m, gs, vs, "cell"); ok {
					m.cells[k] = mv
				} else {
					return nil
				}
			}
			continue
		}
		mv, ok := e.mergeValues(m, guards, vs, "cell")
		if !ok {
			return nil
		}
		m.cells[k] = mv
	}
	// heap
	hkeys := map[string]bool{}
	for _, s := range sts {
		for k := range s.heap {
			hkeys[k] = true
		}
	}
	for _, k := range sortedKeys(hkeys) {
		ts := make([]Term, len(sts))
		for i, s := range sts {
			if t, ok := s.heap[k]; ok {
				ts[i] = t
			} else if so, ok := e.heapSorts[k]; ok {
				ts[i] = e.heapLazy(m, k, so, lazySeq(k, s.pending, s.allSeq, s.allPrev, s.allExcept))
			} else {
				return nil
			}
		}
		same := true
		for _, t := range ts[1:] {
			if t.S != ts[0].S {
				same = false
			}
		}
		if same {
			m.heap[k] = ts[0]
			continue
		}
		for _, t := range ts[1:] {
			if t.Sort != ts[0].Sort {
				return nil
			}
		}
		m.heap[k] = e.joinTerm(m, guards, ts, k)
	}
	// havocs of arrays not materialized yet (State.pending): where the merged paths disagree, the array is treated as
	// havocked at the join (over-approximation)
	{
		maxSeq := 0
		for _, s := range sts {
			if s.havocSeq > maxSeq {
				maxSeq = s.havocSeq
			}
		}
		m.havocSeq = maxSeq + 1
		pk := map[string]bool{}
		for _, s := range sts {
			for k := range s.pending {
				pk[k] = true
			}
		}
		m.pending = map[string]int{}
		for k := range pk {
			if _, done := m.heap[k]; done {
				continue
			}
			v, same := sts[0].pending[k], true
			for _, s := range sts[1:] {
				if s.pending[k] != v {
					same = false
				}
			}
			if same {
				m.pending[k] = v
			} else {
				m.pending[k] = m.havocSeq
			}
		}
		for _, s := range sts[1:] {
			if s.allSeq != sts[0].allSeq || s.allPrev != sts[0].allPrev || len(s.allExcept) != len(sts[0].allExcept) {
				m.allSeq, m.allPrev, m.allExcept = m.havocSeq, 0, nil
			}
		}
	}
	// frames: registers and ghosts
	for fi, mf := range m.frames {
		for r := range mf.regs {
			vs := make([]Value, 0, len(sts))
			for _, s := range sts {
				if v, ok := s.frames[fi].regs[r]; ok {
					vs = append(vs, v)
				}
			}
			if len(vs) < len(sts) {
				delete(mf.regs, r) // defined on some paths only: cannot be used after the join (SSA dominance)
				continue
			}
			mv, ok := e.mergeValues(m, guards, vs, "reg")
			if !ok {
				delete(mf.regs, r) // differing function values / iterators created inside the region: dead after the join
				continue
			}
			mf.regs[r] = mv
		}
		for g := range mf.ghosts {
			vs := make([]Value, 0, len(sts))
			for _, s := range sts {
				if v, ok := s.frames[fi].ghosts[g]; ok {
					vs = append(vs, v)
				}
			}
			if len(vs) < len(sts) {
				return nil
			}
			mv, ok := e.mergeValues(m, guards, vs, "ghost")
			if !ok {
				return nil
			}
			mf.ghosts[g] = mv
		}
	}
	m.trace = append(append([]string(nil), first.trace...), fmt.Sprintf("merged(%d)", len(sts)))
	return m
}

// execIfMerged is called by step() for an `if` after the two successor states have been produced.
func (e *Engine) execIfMerged(n0, depth int, fn *ssa.Function, j *ssa.BasicBlock, out []*State) []*State {
	arrived := e.runToJoin(out, depth, fn, j)
	if len(arrived) <= 1 {
		return arrived
	}
	if m := e.mergeStates(n0, arrived); m != nil {
		return []*State{m}
	}
	e.abstract("merge_branches: a join could not be merged (states kept separate)")
	return arrived
}

// inlineMerged runs an inlined callee (its frame has just been pushed on s) to its return into the caller and
// merges the states that come back: a callee with several return statements yields one state, not one per return.
func (e *Engine) inlineMerged(s *State, callerDepth int, caller *Frame) ([]*State, bool) {
	n0 := 0
	if s.assumes != nil {
		n0 = s.assumes.n
	}
	arrived := e.runToPoint([]*State{s}, callerDepth, caller.fn, caller.block, caller.idx)
	if len(arrived) <= 1 {
		return arrived, true
	}
	if m := e.mergeStates(n0, arrived); m != nil {
		return []*State{m}, true
	}
	e.abstract("merge_branches: the returns of an inlined call could not be merged (states kept separate)")
	return arrived, true
}
