package main

import (
	"regexp"
	"bytes"
	"crypto/sha256"
	"encoding/json"
	"fmt"
	"os"
	"os/exec"
	"path/filepath"
	"sort"
	"strings"
	"sync"
	"time"
)

// verifDir / repoDir: the registered checks always run against /verif and /repo; GOVC_VERIF / GOVC_REPO redirect
// them to scratch worktrees during development only (never used by a MANIFEST command).
var verifDir = envOr("GOVC_VERIF", "/verif")
var repoDir = envOr("GOVC_REPO", "/repo")

func envOr(k, d string) string {
	if v := os.Getenv(k); v != "" {
		return v
	}
	return d
}

func parallelism() int {
	n := 16
	if v := os.Getenv("GOVC_PAR"); v != "" {
		fmt.Sscanf(v, "%d", &n)
	}
	if n < 1 {
		n = 1
	}
	return n
}

type Unit struct {
	Module   string   `json:"module"`
	Packages []string `json:"packages"`
	Roots    []string `json:"roots"`
	// Sweep: every function of these packages matching the prefix list is a root (safety only)
	SweepFuncs []string `json:"sweep_funcs,omitempty"`
	// Scope for this unit only: "tagged" (same meaning as the property-level scope) or "clauses" (tagged, and the
	// implicit non-nil-argument obligations at modular call sites are dropped too: they are nil-dereference safety
	// of the callee, not a written clause)
	Scope string `json:"scope,omitempty"`
	// RootsByTag: of the listed roots, run only those whose contract carries a clause tagged for this property, plus
	// roots without any property tag (shared helpers). Used where several properties share one list of roots: each
	// contract is then discharged by the check(s) whose clauses it carries, and used modularly by the others.
	RootsByTag bool `json:"roots_by_tag,omitempty"`
	// Lockset: run the static lock-discipline analysis (type contracts protected_by / immutable / ...) over every
	// function of the unit's packages
	Lockset bool `json:"lockset,omitempty"`
	// TaggedRoots: roots of this unit for which only contract clauses count (as the property-level scope "tagged",
	// per root): their zero-annotation safety sweep belongs to another property or is out of reach (unknown
	// externals, package-level metrics objects)
	TaggedRoots []string `json:"tagged_roots,omitempty"`
}

type PropConfig struct {
	ID        string   `json:"id"`
	Level     string   `json:"level"` // proof | other
	Technique string   `json:"technique"`
	Units     []Unit   `json:"units"`
	Tags      []string `json:"required_tags"`
	// which obligation kinds belong to this property: "tagged" (only obligations whose tag starts with the id, plus what they rest on), "all"
	Scope       string   `json:"scope"`
	Explanation string   `json:"explanation"`
	Assumptions []string `json:"assumptions"`
	Undecided   []string `json:"undecided"`
	Replays     []string `json:"replays,omitempty"`
	Lean        []string `json:"lean,omitempty"`
	AllocBound  bool     `json:"alloc_bound,omitempty"`
	// EnsuresCover: vacuity covers for the antecedents of root postconditions (ensurescover.go)
	EnsuresCover bool `json:"ensures_cover,omitempty"`
	Extra       []string `json:"extra_cmds,omitempty"`
}

type KnownFinding struct {
	Property    string `json:"property"`
	Obligation  string `json:"obligation"`
	Description string `json:"description"`
	Witness     string `json:"witness,omitempty"` // replay test file under /verif/witness
	WitnessPkg  string `json:"witness_pkg,omitempty"`
	WitnessMod  string `json:"witness_module,omitempty"`
	WitnessRun  string `json:"witness_run,omitempty"`
}

type KnownFile struct {
	Findings []KnownFinding `json:"findings"`
	Fixed    []string       `json:"fixed"`
}

func loadKnown() *KnownFile {
	kf := &KnownFile{}
	data, err := os.ReadFile(filepath.Join(verifDir, "known_findings.json"))
	if err != nil {
		return kf
	}
	if err := json.Unmarshal(data, kf); err != nil {
		fmt.Fprintf(os.Stderr, "known_findings.json: %v\n", err)
		os.Exit(2)
	}
	return kf
}

func quickCheck(q string) string {
	cmd := exec.Command("z3-new", "-in", "-T:2")
	cmd.Stdin = strings.NewReader(q)
	out, _ := cmd.Output()
	first := strings.TrimSpace(strings.SplitN(string(out), "\n", 2)[0])
	return first
}

type group struct {
	Name   string
	Kind   string
	Tag    string
	Obls   []*Obligation
	Status string // discharged | failed | undecided
	Worst  *Obligation
	Secs   float64
	Solver map[string]int
}

type checkResult struct {
	groups       []*group
	funcs        []string
	abstractions []string
	trusted      []string
	engineErrors []string
	obligations  int
	discharged   int
	covers       int
	coverOK      int
	solverSecs   float64
	backends     map[string]int
	files        []string
	// tagOwner: clause tag -> short key of the function whose contract carries it (for the roots of the check)
	tagOwner map[string]string
	// contractErrs: roots whose contract could not be evaluated on the current code (a clause mentions a local or a
	// loop / anchor that no longer exists there): the code under contract changed shape
	contractErrs map[string]string
}

func runUnit(u Unit, cfg *PropConfig, tier string, workdir string, res *checkResult) {
	currentPropID = cfg.ID
	e := NewEngine()
	e.allocBound = cfg.AllocBound
	ensuresCoverOn = cfg.EnsuresCover
	e.propID = cfg.ID
	dir := filepath.Join(repoDir, u.Module)
	t0 := time.Now()
	if err := e.Load(dir, u.Packages); err != nil {
		res.engineErrors = append(res.engineErrors, "load "+u.Module+": "+err.Error())
		return
	}
	if err := e.LoadContracts(filepath.Join(verifDir, "spec")); err != nil {
		res.engineErrors = append(res.engineErrors, "contracts: "+err.Error())
		return
	}
	res.files = append(res.files, e.cs.Files...)
	if os.Getenv("GOVC_VERBOSE") != "" {
		fmt.Fprintf(os.Stderr, "loaded %s in %.1fs\n", u.Module, time.Since(t0).Seconds())
	}
	roots := append([]string(nil), u.Roots...)
	for _, pref := range u.SweepFuncs {
		var ks []string
		for k, f := range e.funcsByKey {
			if f.Blocks != nil && strings.HasPrefix(shortKey(k), pref) && f.Parent() == nil {
				ks = append(ks, shortKey(k))
			}
		}
		sort.Strings(ks)
		roots = append(roots, ks...)
	}
	seen := map[string]bool{}
	for _, r := range roots {
		if seen[r] {
			continue
		}
		seen[r] = true
		if strings.HasPrefix(r, "lemma:") {
			if err := e.RunLemma(strings.TrimPrefix(r, "lemma:")); err != nil {
				res.engineErrors = append(res.engineErrors, err.Error())
			}
			continue
		}
		f := e.findFunc(r)
		if f != nil && u.RootsByTag {
			if tags := contractTags(e.contractFor(f)); len(tags) > 0 {
				mine := false
				for t := range tags {
					if strings.HasPrefix(t, cfg.ID+".") {
						mine = true
					}
				}
				if !mine {
					continue
				}
			}
		}
		if f == nil {
			res.engineErrors = append(res.engineErrors, "root function not found: "+r)
			continue
		}
		e.statesRun = 0
		tr := time.Now()
		if res.tagOwner == nil {
			res.tagOwner, res.contractErrs = map[string]string{}, map[string]string{}
		}
		for t := range contractTags(e.contractFor(f)) {
			res.tagOwner[t] = shortKey(funcKey(f))
		}
		if err := e.RunRoot(f); err != nil {
			msg := err.Error()
			if strings.Contains(msg, "unresolved identifier") || strings.Contains(msg, "cannot resolve") || strings.Contains(msg, "unknown field") {
				res.contractErrs[shortKey(funcKey(f))] = msg
			}
			res.engineErrors = append(res.engineErrors, msg)
		}
		if os.Getenv("GOVC_VERBOSE") != "" {
			fmt.Fprintf(os.Stderr, "root %s: explored in %.1fs, %d states, %d obligations so far\n", r, time.Since(tr).Seconds(), e.statesRun, len(e.obligations))
		}
	}
	if u.Lockset {
		pp := map[string]bool{}
		for _, p := range e.pkgs {
			pp[p.PkgPath] = true
		}
		func() {
			defer func() {
				if r := recover(); r != nil {
					if a, ok := r.(execAbort); ok {
						res.engineErrors = append(res.engineErrors, "lockset: "+a.msg)
						return
					}
					panic(r)
				}
			}()
			e.RunLockset(pp, cfg.ID)
		}()
	}
	res.engineErrors = append(res.engineErrors, e.errors...)
	for k := range e.funcsTouched {
		res.funcs = append(res.funcs, shortKey(k))
	}
	for a := range e.abstractions {
		res.abstractions = append(res.abstractions, a)
	}
	res.trusted = append(res.trusted, e.cs.Trusted...)
	// discharge
	timeout := 10
	if tier == "thorough" {
		timeout = 60
	}
	if v := os.Getenv("GOVC_TIMEOUT"); v != "" {
		fmt.Sscanf(v, "%d", &timeout)
	}
	if cfg.Scope == "tagged" || u.Scope == "tagged" || u.Scope == "clauses" || len(u.TaggedRoots) > 0 {
		// this property's check counts contract clauses (and the invariants / preconditions they rest on);
		// the zero-annotation safety sweep of code reached after them belongs to other properties
		taggedRoot := map[string]bool{}
		for _, r := range u.TaggedRoots {
			taggedRoot[r] = true
		}
		var keep []*Obligation
		for _, o := range e.obligations {
			if (o.Kind == "safety" || o.Kind == "alloc") && (cfg.Scope == "tagged" || u.Scope == "tagged" || u.Scope == "clauses" || taggedRoot[o.Root]) {
				continue
			}
			if u.Scope == "clauses" && o.Kind == "requires" && strings.Contains(o.Name, ":nonnil.") {
				continue
			}
			keep = append(keep, o)
		}
		e.obligations = keep
	}
	tExec := time.Now()
	e.discharge(workdir, timeout)
	e.incClose()
	if os.Getenv("GOVC_VERBOSE") != "" {
		fmt.Fprintf(os.Stderr, "unit %s: load+exec %.1fs, solve %.1fs, %d obligations\n", u.Module, tExec.Sub(t0).Seconds(), time.Since(tExec).Seconds(), len(e.obligations))
		type slow struct {
			n string
			s float64
		}
		var sl []slow
		for _, o := range e.obligations {
			if o.Result != nil && o.Result.Secs > 2 {
				sl = append(sl, slow{o.Name + " [" + o.Result.Solver + " " + o.Result.Status + "]", o.Result.Secs})
			}
		}
		sort.Slice(sl, func(i, j int) bool { return sl[i].s > sl[j].s })
		for _, x := range sl {
			fmt.Fprintf(os.Stderr, "  slow %.1fs %s\n", x.s, x.n)
		}
	}
	// group
	byName := map[string]*group{}
	// vacuity covers: a cover name is vacuous only when every instance (path) of it is unsatisfiable
	coverAlive := map[string]bool{}
	coverDesc := map[string]string{}
	for _, o := range e.obligations {
		if o.ExpectSat {
			if _, ok := coverAlive[o.Name]; !ok {
				coverAlive[o.Name] = false
				coverDesc[o.Name] = o.Desc
			}
			if o.Result.Status != "unsat" {
				coverAlive[o.Name] = true
			}
		}
	}
	for _, name := range sortedKeys(coverAlive) {
		res.covers++
		if coverAlive[name] {
			res.coverOK++
		} else {
			res.engineErrors = append(res.engineErrors, "vacuous: "+name+" ("+coverDesc[name]+") is unsatisfiable on every path")
		}
	}
	for _, o := range e.obligations {
		if o.ExpectSat {
			continue
		}
		g := byName[o.Name]
		if g == nil {
			g = &group{Name: o.Name, Kind: o.Kind, Tag: o.Tag, Solver: map[string]int{}}
			byName[o.Name] = g
			res.groups = append(res.groups, g)
		}
		g.Obls = append(g.Obls, o)
		g.Secs += o.Result.Secs
		g.Solver[o.Result.Solver]++
		res.backends[o.Result.Solver]++
		res.solverSecs += o.Result.Secs
	}
	for _, g := range res.groups {
		if g.Status != "" {
			continue
		}
		g.Status = "discharged"
		for _, o := range g.Obls {
			switch o.Result.Status {
			case "unsat":
			case "sat":
				g.Status = "failed"
				if g.Worst == nil || g.Worst.Result.Status != "sat" {
					g.Worst = o
				}
			default:
				if g.Status == "discharged" {
					g.Status = "failed"
				}
				if g.Worst == nil {
					g.Worst = o
				}
			}
		}
	}
}

func modelTerms(in modelInput) []Term {
	var out []Term
	switch in.Term.Sort {
	case SInt, SBool, SString:
		out = append(out, in.Term)
	}
	for _, k := range sortedKeys(in.Aux) {
		out = append(out, in.Aux[k])
	}
	return out
}

func (e *Engine) findFunc(short string) *ssaFunc {
	for k, f := range e.funcsByKey {
		if shortKey(k) == short {
			return f
		}
	}
	return nil
}

// Check runs one property check and returns the process exit code.
func Check(id, tier string) int {
	start := time.Now()
	activeProperty = id
	data, err := os.ReadFile(filepath.Join(verifDir, "props", id+".json"))
	if err != nil {
		fmt.Fprintf(os.Stderr, "no property config for %s: %v\n", id, err)
		return 2
	}
	var cfg PropConfig
	if err := json.Unmarshal(data, &cfg); err != nil {
		fmt.Fprintf(os.Stderr, "props/%s.json: %v\n", id, err)
		return 2
	}
	workdir := filepath.Join(verifDir, "work", fmt.Sprintf("%s-%d", id, os.Getpid()))
	os.MkdirAll(workdir, 0o755)
	defer func() {
		if os.Getenv("GOVC_KEEP") == "" {
			os.RemoveAll(workdir)
		}
	}()
	res := &checkResult{backends: map[string]int{}}
	for _, u := range cfg.Units {
		runUnit(u, &cfg, tier, workdir, res)
	}
	known := loadKnown()
	// required tags must have produced obligations
	tagSeen := map[string]bool{}
	for _, g := range res.groups {
		if g.Tag != "" {
			tagSeen[g.Tag] = true
		}
	}
	// A required clause that generated no obligation: if every root was explored without an engine error, the clause's
	// anchor (a call, a map update, a loop) is no longer reached in its function - the code the clause was written
	// about has changed - and the clause is reported as violated (no failing input); if the engine itself gave up
	// somewhere (budget, unsupported construct, unknown function) it stays an engine error (undecided).
	var violations []string
	cleanRun := len(res.engineErrors) == 0
	for _, t := range cfg.Tags {
		if tagSeen[t] {
			continue
		}
		reason := "the contract clause tagged " + t + " generated no obligation although every root was explored without an engine error: the program point it is attached to (call / map update / loop / function exit) is no longer reached in the function under contract"
		if !cleanRun {
			// the clause's own function could not be run because its contract no longer fits the code (a clause names a
			// local variable / loop that is gone): the code under contract changed shape - reported like a vanished anchor
			owner := res.tagOwner[t]
			cerr, shaped := res.contractErrs[owner]
			if owner == "" || !shaped {
				res.engineErrors = append(res.engineErrors, "required clause "+t+" generated no obligation (function renamed, removed, or contract missing)")
				continue
			}
			reason = "the contract of " + owner + " (which carries the clause " + t + ") can no longer be evaluated on the current code: " + cerr
		}
		replayDir := filepath.Join(verifDir, "replays", id)
		if d := os.Getenv("GOVC_REPLAY_DIR"); d != "" {
			replayDir = filepath.Join(d, id)
		}
		os.MkdirAll(replayDir, 0o755)
		rp := filepath.Join(replayDir, sanitize("clause_"+t)+".json")
		rec := map[string]interface{}{"property": id, "obligation": "clause:" + t, "kind": "missing-clause", "solver_status": "not generated",
			"solver_output": reason, "replay_confirms": false}
		b, _ := json.MarshalIndent(rec, "", " ")
		os.WriteFile(rp, b, 0o644)
		violations = append(violations, fmt.Sprintf("VIOLATION property=%s replay=%s obligation=clause:%s no-failing-input-found", id, rp, t))
		res.obligations++
	}
	// classify
	var knownHit []string
	knownRefuted := 0
	replayDir := filepath.Join(verifDir, "replays", id)
	if d := os.Getenv("GOVC_REPLAY_DIR"); d != "" {
		replayDir = filepath.Join(d, id)
	}
	var samples []interface{}
	for _, g := range res.groups {
		res.obligations++
		if g.Status == "discharged" {
			res.discharged++
			if len(samples) < 6 && g.Obls[0].Result.Solver != "trivial" {
				samples = append(samples, map[string]interface{}{"obligation": g.Name, "kind": g.Kind, "paths": len(g.Obls), "reads": g.Obls[0].Desc, "pos": g.Obls[0].Pos, "backend": g.Obls[0].Result.Solver, "secs": round3(g.Secs)})
			}
			continue
		}
		// known finding?
		kfMatch := (*KnownFinding)(nil)
		for i := range known.Findings {
			k := &known.Findings[i]
			if k.Property == id && k.Obligation == g.Name {
				kfMatch = k
			}
		}
		if kfMatch != nil {
			// a refuted obligation recorded as a known finding is not part of the proof claim: it is reported
			// separately (obligations_refuted_known_finding) and never counted as an obligation to discharge
			res.obligations--
			knownRefuted++
			knownHit = append(knownHit, fmt.Sprintf("KNOWN-FINDING: property=%s %s: %s", id, g.Name, kfMatch.Description))
			continue
		}
		// violation
		os.MkdirAll(replayDir, 0o755)
		rp := filepath.Join(replayDir, sanitize(g.Name)+".json")
		found := writeReplay(rp, id, g, &cfg)
		line := fmt.Sprintf("VIOLATION property=%s replay=%s obligation=%s", id, rp, g.Name)
		if !found {
			line += " no-failing-input-found"
		}
		violations = append(violations, line)
	}
	// lean lemmas
	leanOK := true
	var leanNotes []string
	for _, lf := range cfg.Lean {
		t0 := time.Now()
		cmd := exec.Command("lean", filepath.Join(verifDir, "lean", lf))
		out, err := cmd.CombinedOutput()
		res.obligations++
		if err != nil || bytes.Contains(out, []byte("error")) || bytes.Contains(out, []byte("sorry")) {
			leanOK = false
			res.engineErrors = append(res.engineErrors, "lean lemma file "+lf+" failed: "+firstLines(string(out), 3))
		} else {
			res.discharged++
			res.backends["lean-4.33.0"]++
			leanNotes = append(leanNotes, fmt.Sprintf("%s checked by lean in %.1fs", lf, time.Since(t0).Seconds()))
		}
	}
	_ = leanOK
	// extra commands (bounded or auxiliary checks), each prints its own VIOLATION lines
	for _, xc := range cfg.Extra {
		cmd := exec.Command("bash", "-c", xc)
		cmd.Dir = verifDir
		out, err := cmd.CombinedOutput()
		for _, l := range strings.Split(string(out), "\n") {
			if strings.HasPrefix(l, "VIOLATION ") {
				violations = append(violations, l)
			} else if strings.HasPrefix(l, "KNOWN-FINDING:") {
				knownHit = append(knownHit, l)
			} else if strings.HasPrefix(l, "EXTRA-OK ") {
				var n int
				fmt.Sscanf(strings.TrimPrefix(l, "EXTRA-OK "), "%d", &n)
				res.obligations += n
				res.discharged += n
			}
		}
		if err != nil && !bytes.Contains(out, []byte("VIOLATION ")) {
			res.engineErrors = append(res.engineErrors, "extra command failed: "+xc+": "+firstLines(string(out), 5))
		}
	}

	// thorough tier: the must-fail corpus of this property (deliberately property-breaking patches applied to a
	// scratch worktree; each must make this very check report a VIOLATION) and a re-run of every recorded
	// known-finding witness on the real code (it must still fail, otherwise the finding is stale)
	var thoroughNotes []string
	if tier == "thorough" && os.Getenv("GOVC_REPO") == "" {
		if ms, _ := filepath.Glob(filepath.Join(verifDir, "selftest", id, "*.patch")); len(ms) > 0 {
			cmd := exec.Command(filepath.Join(verifDir, "selftest.sh"), id)
			cmd.Dir = verifDir
			out, _ := cmd.CombinedOutput()
			caught, missed := 0, 0
			for _, l := range strings.Split(string(out), "\n") {
				if strings.HasPrefix(l, "SELFTEST ") {
					if strings.Contains(l, ": caught") {
						caught++
					} else {
						missed++
						res.engineErrors = append(res.engineErrors, "must-fail corpus: "+l)
					}
				}
			}
			thoroughNotes = append(thoroughNotes, fmt.Sprintf("must-fail corpus selftest/%s: %d mutations, %d caught, %d missed", id, caught+missed, caught, missed))
		}
		for i := range known.Findings {
			k := &known.Findings[i]
			if k.Property != id || k.Witness == "" || k.WitnessPkg == "" {
				continue
			}
			st := runWitness(k)
			thoroughNotes = append(thoroughNotes, fmt.Sprintf("known finding witness %s: %s", k.Witness, st))
		}
	}

	sort.Strings(res.funcs)
	res.funcs = uniq(res.funcs)
	sort.Strings(res.abstractions)
	trusted := uniq(res.trusted)
	assumptions := append([]string(nil), cfg.Assumptions...)
	assumptions = append(assumptions, res.abstractions...)
	assumptions = append(assumptions, "pointer parameters of functions under contract are non-nil unless declared nullable (checked at call sites inside analysed code)")
	assumptions = append(assumptions, "integers are mathematical Ints with exact two's-complement wrap-around on every arithmetic result and conversion (machine arithmetic modelled, not assumed away)")
	for _, u := range cfg.Undecided {
		assumptions = append(assumptions, "undecided by this technique: "+u)
	}
	level := cfg.Level
	if level == "" {
		level = "proof"
	}
	cov := map[string]interface{}{
		"obligations":                       res.obligations,
		"discharged":                        res.discharged,
		"obligations_generated":             res.obligations + knownRefuted,
		"obligations_refuted_known_finding": knownRefuted,
		"checker_cmd":                       fmt.Sprintf("/verif/bin/govc check %s --tier %s", id, tier),
		"trusted_base":                      trusted,
		"samples":                           samples,
		"functions_under_contract":          res.funcs,
		"backends":                          res.backends,
		"solver_time_s":                     round3(res.solverSecs),
		"cover_obligations":                 res.covers,
		"cover_satisfiable":                 res.coverOK,
		"known_findings_matched":            knownHit,
		"contract_files":                    uniq(res.files),
		"explanation":                       cfg.Explanation,
		"undecided_clauses":                 cfg.Undecided,
		"lean":                              leanNotes,
		"engine_errors":                     res.engineErrors,
		"technique":                         cfg.Technique,
		"thorough_tier":                     thoroughNotes,
	}
	if len(samples) == 0 {
		// every obligation was decided without an SMT query (static effect analysis / syntactically true): show those
		for _, g := range res.groups {
			if g.Status == "discharged" && len(samples) < 6 {
				samples = append(samples, map[string]interface{}{"obligation": g.Name, "kind": g.Kind, "paths": len(g.Obls), "reads": g.Obls[0].Desc, "pos": g.Obls[0].Pos, "backend": g.Obls[0].Result.Solver, "secs": round3(g.Secs)})
			}
		}
		cov["samples"] = samples
		if len(samples) == 0 {
			cov["samples"] = []interface{}{"(no discharged obligation)"}
		}
	}
	ev := map[string]interface{}{
		"property_id": id, "tier": tier, "seed": seedFromEnv(), "level": level,
		"coverage": cov, "assumptions": assumptions, "wall_s": round3(time.Since(start).Seconds()), "violations": len(violations),
	}
	// GOVC_EVIDENCE_DIR redirects the evidence file (used by seedtest.sh so that runs against a deliberately
	// broken tree never overwrite the evidence of the unchanged tree)
	evDir := filepath.Join(verifDir, "evidence")
	if d := os.Getenv("GOVC_EVIDENCE_DIR"); d != "" {
		evDir = d
	}
	os.MkdirAll(evDir, 0o755)
	evb, _ := json.MarshalIndent(ev, "", " ")
	if err := os.WriteFile(filepath.Join(evDir, id+".json"), evb, 0o644); err != nil {
		fmt.Fprintf(os.Stderr, "cannot write evidence: %v\n", err)
		return 2
	}

	for _, l := range knownHit {
		fmt.Println(l)
	}
	for _, l := range violations {
		fmt.Println(l)
	}
	fmt.Printf("%s: %d obligations, %d discharged, %d refuted and recorded as known findings (not counted as obligations), %d violations, %d engine errors, %.1fs\n",
		id, res.obligations, res.discharged, len(knownHit), len(violations), len(res.engineErrors), time.Since(start).Seconds())
	for _, er := range res.engineErrors {
		fmt.Println("ENGINE-ERROR:", er)
	}
	if len(violations) > 0 {
		return 1
	}
	if len(res.engineErrors) > 0 {
		return 2
	}
	return 0
}

func seedFromEnv() int {
	var n int
	fmt.Sscanf(os.Getenv("VERIF_SEED"), "%d", &n)
	return n
}

func round3(f float64) float64 { return float64(int(f*1000)) / 1000 }

func uniq(xs []string) []string {
	sort.Strings(xs)
	var out []string
	for i, x := range xs {
		if i == 0 || x != xs[i-1] {
			out = append(out, x)
		}
	}
	return out
}

// writeReplay writes the replay file for a failed obligation group; returns whether a failing input was confirmed on the real code.
func writeReplay(path, id string, g *group, cfg *PropConfig) bool {
	o := g.Worst
	if o == nil {
		o = g.Obls[0]
	}
	confirmed := false
	var attempts []map[string]interface{}
	// try the sat instances of this obligation (different roots / paths) until one reproduces on the real code
	tried := 0
	for _, cand := range g.Obls {
		if cand.Result == nil || cand.Result.Status != "sat" || tried >= 6 {
			continue
		}
		src, ok := buildReplayTest(cand)
		if !ok {
			continue
		}
		tried++
		out, failed := runReplayTest(src)
		attempts = append(attempts, map[string]interface{}{"root": cand.Root, "path": cand.Trace, "replay_test": src.Source, "replay_output": out, "replay_confirms": failed})
		if failed {
			confirmed = true
			o = cand
			break
		}
	}
	rec := map[string]interface{}{
		"property": id, "obligation": g.Name, "kind": g.Kind, "clause": o.Desc, "pos": o.Pos, "root": o.Root,
		"solver_status": o.Result.Status, "solver": o.Result.Solver, "solver_output": firstLines(o.Result.Output, 40),
		"path": o.Trace, "replay_attempts": attempts, "replay_confirms": confirmed,
	}
	if o.Result.Status == "sat" {
		rec["model"] = o.Result.Values
	}
	h := sha256.Sum256([]byte(o.Goal.S))
	rec["goal_sha256"] = fmt.Sprintf("%x", h[:8])
	b, _ := json.MarshalIndent(rec, "", " ")
	os.WriteFile(path, b, 0o644)
	return confirmed
}

// discharge solves all pending obligations of the engine in parallel.
func (e *Engine) discharge(workdir string, timeout int) {
	var wg sync.WaitGroup
	sem := make(chan struct{}, parallelism())
	// a vacuity cover is alive as soon as one of its instances (paths) is satisfiable: the others need no solver run
	var coverMu sync.Mutex
	coverSat := map[string]bool{}
	for i, o := range e.obligations {
		if o.Result != nil {
			continue
		}
		wg.Add(1)
		go func(i int, o *Obligation) {
			defer wg.Done()
			sem <- struct{}{}
			defer func() { <-sem }()
			var gv []Term
			for _, in := range o.InputVals {
				gv = append(gv, modelTerms(in)...)
			}
			q := o.U.Query(o.Assumes, o.Goal, gv)
			to := timeout
			if b := rootBudgets[o.Root]; b > to {
				to = b // root flag solver_budget (bmain.go): quantified obligations known to need more than the default
			}
			if o.ExpectSat {
				to = 3 // vacuity covers: only an "unsat" answer matters
				coverMu.Lock()
				done := coverSat[o.Name]
				coverMu.Unlock()
				if done {
					o.Result = &SolverResult{Status: "sat", Solver: "cover-alive-on-another-path"}
					return
				}
			}
			var use []string
			if o.Kind == "lemma" || strings.Contains(o.Goal.S, "str.contains") {
				// string lemmas: cvc5 is the solver that decides them; skip the z3-only first stage (scheduling only)
				use = []string{"z3-new", "z3-4", "cvc5"}
			}
			r := Solve(workdir, fmt.Sprintf("%s.%d", o.Name, i), q, to, use)
			if o.ExpectSat && r.Status == "sat" {
				coverMu.Lock()
				coverSat[o.Name] = true
				coverMu.Unlock()
			}
			if r.Status == "sat" && o.Hint != nil && !o.ExpectSat {
				// look for a more realistic counterexample (replay hint); the verdict is already fixed
				q2 := o.U.Query(append(append([]Term(nil), o.Assumes...), *o.Hint), o.Goal, gv)
				r2 := Solve(workdir, fmt.Sprintf("%s.%d.hint", o.Name, i), q2, 5, nil)
				if r2.Status == "sat" {
					r.Values = r2.Values
					r.Output = r2.Output
				}
			}
			o.Result = &r
		}(i, o)
	}
	wg.Wait()
	// second chance for undecided obligations, few at a time with a doubled budget:
	// a loaded machine must not turn a 1 s proof into a reported failure
	sem2 := make(chan struct{}, 3)
	for i, o := range e.obligations {
		if o.ExpectSat || o.Result == nil || o.Result.Status == "unsat" || o.Result.Status == "sat" {
			continue
		}
		wg.Add(1)
		go func(i int, o *Obligation) {
			defer wg.Done()
			sem2 <- struct{}{}
			defer func() { <-sem2 }()
			var gv []Term
			for _, in := range o.InputVals {
				gv = append(gv, modelTerms(in)...)
			}
			q := o.U.Query(o.Assumes, o.Goal, gv)
			to2 := 2 * timeout
			if b := rootBudgets[o.Root]; 2*b > to2 {
				to2 = 2 * b
			}
			r := solveRace(workdir, fmt.Sprintf("%s.%d.retry", o.Name, i), q, to2, nil)
			if r.Status == "unsat" || r.Status == "sat" {
				r.Secs += o.Result.Secs
				o.Result = &r
			} else if rs := solveSeeds(workdir, fmt.Sprintf("%s.%d", o.Name, i), q, 2*timeout); rs.Status == "unsat" {
				rs.Secs += o.Result.Secs + r.Secs
				o.Result = &rs
			}
		}(i, o)
	}
	wg.Wait()
}

// runWitness copies a recorded witness test next to its package in a scratch worktree of /repo HEAD, runs it and
// reports whether it still fails (the defect is still present) - never touches /repo itself.
func runWitness(k *KnownFinding) string {
	wt := fmt.Sprintf("/tmp/wt/witness-%d", os.Getpid())
	if out, err := exec.Command("git", "-C", repoDir, "worktree", "add", "-q", "--detach", wt, "HEAD").CombinedOutput(); err != nil {
		return "could not create scratch worktree: " + firstLines(string(out), 2)
	}
	defer exec.Command("git", "-C", repoDir, "worktree", "remove", "--force", wt).Run()
	src, err := os.ReadFile(filepath.Join(verifDir, k.Witness))
	if err != nil {
		return "witness file missing"
	}
	mod := filepath.Join(wt, k.WitnessMod)
	dst := filepath.Join(wt, k.WitnessMod, k.WitnessPkg, "zz_verif_witness_test.go")
	if strings.HasPrefix(k.WitnessPkg, k.WitnessMod) && k.WitnessMod != "." {
		dst = filepath.Join(wt, k.WitnessPkg, "zz_verif_witness_test.go")
	}
	if err := os.WriteFile(dst, src, 0o644); err != nil {
		return "cannot place witness: " + err.Error()
	}
	rel := "./" + strings.TrimPrefix(strings.TrimPrefix(filepath.Dir(dst), mod), "/")
	cmd := exec.Command("go", "test", "-vet=off", "-count=1", "-timeout", "600s", "-run", k.WitnessRun, rel)
	cmd.Dir = mod
	out, err := cmd.CombinedOutput()
	switch {
	case err != nil && bytes.Contains(out, []byte("--- FAIL")):
		return "still fails on the real code (finding confirmed)"
	case err == nil && bytes.Contains(out, []byte("--- SKIP")):
		return "skipped (the window did not occur in this run)"
	case err == nil:
		return "passes now: the recorded finding is stale"
	}
	return "could not run: " + firstLines(string(out), 3)
}

var tagRe = regexp.MustCompile(`\[(C[0-9][0-9]\.[A-Za-z0-9_.]+)\]`)

// contractTags: every property tag mentioned by the clauses and tagged flags of a function contract.
func contractTags(c *FuncContract) map[string]bool {
	out := map[string]bool{}
	if c == nil {
		return out
	}
	add := func(cl Clause) {
		if cl.Tag != "" {
			out[cl.Tag] = true
		}
	}
	for _, cl := range c.Requires {
		add(cl)
	}
	for _, cl := range c.Ensures {
		add(cl)
	}
	for _, lc := range c.Loops {
		for _, cl := range lc.Invariants {
			add(cl)
		}
	}
	for _, at := range c.Ats {
		add(at.Clause)
	}
	for _, v := range c.Flags {
		for _, m := range tagRe.FindAllStringSubmatch(v, -1) {
			out[m[1]] = true
		}
	}
	return out
}
