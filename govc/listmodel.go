package main

// Model of container/list (trusted): per list ref a ghost length and the dynamic
// type shared by all element values (the lists in this repository are homogeneous;
// pushing a value of another type is reported as an obligation). Element values live
// in the real Element.Value field, so code reading elem.Value sees what was pushed.

import (
	"fmt"
	"go/types"

	"golang.org/x/tools/go/ssa"
)

const (
	gListLen = "G|list.len"
	gListTid = "G|list.tid"
)

func (e *Engine) listKeys() {
	if _, ok := e.heapSorts[gListLen]; ok {
		return
	}
	e.heapSorts[gListLen] = ArraySort(SInt, SInt)
	e.heapSorts[gListTid] = ArraySort(SInt, SInt)
	e.heapValKind[gListLen], e.heapValKind[gListTid] = "", ""
}

func (e *Engine) listGet(s *State, key string, ref Term) Term {
	e.listKeys()
	return Select(s.heapGet(key, e.heapSorts[key]), ref)
}

func (e *Engine) listSet(s *State, key string, ref, v Term) {
	e.listKeys()
	s.heapSet(key, Store(s.heapGet(key, e.heapSorts[key]), ref, v))
}

func elementValuePtr(elemPtr *Ptr) (*Ptr, bool) {
	st, ok := elemPtr.Elem.Underlying().(*types.Struct)
	if !ok {
		return nil, false
	}
	for i := 0; i < st.NumFields(); i++ {
		if st.Field(i).Name() == "Value" {
			return &Ptr{Kind: pkField, Base: elemPtr, Field: i, Elem: st.Field(i).Type()}, true
		}
	}
	return nil, false
}

func (e *Engine) modelList(s *State, fr *Frame, dst *ssa.Call, key string, f *ssa.Function, args []Value, site ssa.Instruction) (Value, bool) {
	refOf := func(v Value) (Term, bool) {
		if p, ok := v.(*Ptr); ok && p.Kind == pkObj {
			return p.Ref, true
		}
		return Term{}, false
	}
	const trust = "container/list as a ghost (length, element type) over the real Element.Value field"
	switch key {
	case "container/list.New":
		e.trustModel(trust)
		ref := e.newRef()
		e.listSet(s, gListLen, ref, IntLit(0))
		rt := f.Signature.Results().At(0).Type().(*types.Pointer)
		return &Ptr{Kind: pkObj, Ref: ref, Elem: rt.Elem()}, true
	case "container/list.List.Len":
		e.trustModel(trust)
		l, ok := refOf(args[0])
		if !ok {
			return nil, false
		}
		n := e.listGet(s, gListLen, l)
		s.assume(Ge(n, IntLit(0)))
		return n, true
	case "container/list.List.PushFront", "container/list.List.PushBack":
		e.trustModel(trust)
		l, ok := refOf(args[0])
		if !ok {
			return nil, false
		}
		v, err := s.toTerm(args[1])
		if err != nil {
			e.bail("list push: %v", err)
		}
		n := e.listGet(s, gListLen, l)
		s.assume(Ge(n, IntLit(0)))
		name := fmt.Sprintf("%s#model:%s", shortKey(funcKey(fr.fn)), e.siteName(site, "call"))
		s.addObligation("safety", name, "", site.Pos(), And(Not(Eq(App("i-val", SInt, v), IntLit(0))), Or(Eq(n, IntLit(0)), Eq(App("i-type", SInt, v), e.listGet(s, gListTid, l)))), "list model: elements are non-nil and all elements of one list have the same dynamic type")
		rt := f.Signature.Results().At(0).Type().(*types.Pointer)
		er := e.newRef()
		ep := &Ptr{Kind: pkObj, Ref: er, Elem: rt.Elem()}
		if err := s.store(ep, s.zeroValue(rt.Elem())); err != nil {
			e.bail("list push: %v", err)
		}
		if vp, ok := elementValuePtr(ep); ok {
			if err := s.store(vp, v); err != nil {
				e.bail("list push: %v", err)
			}
		}
		e.listSet(s, gListTid, l, App("i-type", SInt, v))
		e.listSet(s, gListLen, l, Add(n, IntLit(1)))
		return ep, true
	case "container/list.List.Back", "container/list.List.Front":
		e.trustModel(trust)
		l, ok := refOf(args[0])
		if !ok {
			return nil, false
		}
		n := e.listGet(s, gListLen, l)
		s.assume(Ge(n, IntLit(0)))
		rt := f.Signature.Results().At(0).Type().(*types.Pointer)
		ev := s.fresh("listelem", rt).(*Ptr)
		s.assume(Eq(Eq(ev.Ref, IntLit(0)), Eq(n, IntLit(0))))
		if vp, ok := elementValuePtr(ev); ok {
			if val, err := s.load(vp); err == nil {
				if vt, ok := val.(Term); ok {
					s.assume(Implies(Not(Eq(ev.Ref, IntLit(0))), And(Eq(App("i-type", SInt, vt), e.listGet(s, gListTid, l)), Not(Eq(App("i-val", SInt, vt), IntLit(0))))))
				}
			}
		}
		return ev, true
	case "container/list.List.MoveToFront", "container/list.List.MoveToBack":
		e.trustModel(trust)
		return nil, true
	case "container/list.List.Remove":
		e.trustModel(trust + "; Remove(e) is applied to an element of the list")
		l, ok := refOf(args[0])
		if !ok {
			return nil, false
		}
		n := e.listGet(s, gListLen, l)
		s.assume(Ge(n, IntLit(0)))
		e.listSet(s, gListLen, l, Ite(Gt(n, IntLit(0)), Sub(n, IntLit(1)), IntLit(0)))
		var rv Value = NilIface
		if ep, ok := args[1].(*Ptr); ok {
			if vp, ok := elementValuePtr(ep); ok {
				if val, err := s.load(vp); err == nil {
					rv = val
				}
			}
		}
		return rv, true
	}
	return nil, false
}

// listSpec: spec builtins listLen(l) and listHolds(l, T).
func (e *Engine) listSpec(env *Env, fun string, args []Expr) (TV, bool, error) {
	switch fun {
	case "listLen", "listHolds":
	default:
		return TV{}, false, nil
	}
	e.listKeys()
	v, err := e.eval(env, args[0])
	if err != nil {
		return TV{}, true, err
	}
	p, ok := v.V.(*Ptr)
	if !ok || p.Kind != pkObj {
		return TV{}, true, fmt.Errorf("%s: argument is not a *list.List", fun)
	}
	if fun == "listLen" {
		n := Select(e.heapIn(env, gListLen, e.heapSorts[gListLen]), p.Ref)
		env.s.assume(Ge(n, IntLit(0)))
		return TV{n, types.Typ[types.Int]}, true, nil
	}
	ts, ok := args[1].(*EStr)
	if !ok {
		return TV{}, true, fmt.Errorf("listHolds(l, \"T\"): second argument must be a type string")
	}
	ty, _, err := e.resolveType(env, ts.Val)
	if err != nil {
		return TV{}, true, err
	}
	tid := Select(e.heapIn(env, gListTid, e.heapSorts[gListTid]), p.Ref)
	return TV{Eq(tid, IntLit(int64(e.tm.TypeID(ty)))), types.Typ[types.Bool]}, true, nil
}
