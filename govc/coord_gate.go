package main

import "os"

// coordModelsOn: the always-on models written for the consumer-group coordinator checks (sort.* permutation model,
// time.Time instant model, remainder lemma) apply only while one of those properties is checked (or GOVC_PROP names
// one in a debug run).
func coordModelsOn() bool {
	id := currentPropID
	if id == "" {
		id = os.Getenv("GOVC_PROP")
	}
	switch id {
	case "C12", "C13", "C14", "C15", "C16", "C43":
		return true
	}
	return false
}
