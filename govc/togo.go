package main

// Translation of quantifier-free contract clauses to Go source, used only by
// the replay harness: the violated clause is evaluated natively on the real
// function's result for the solver's counterexample input.

import (
	"fmt"
	"go/types"
	"strings"

	"golang.org/x/tools/go/ssa"
)

type goGen struct {
	fn      *ssa.Function
	names   map[string]string     // contract identifier -> Go expression
	tys     map[string]types.Type // contract identifier -> type
	pkg     *types.Package
	imports map[string]bool
	ok      bool
	why     string
}

func newGoGen(fn *ssa.Function) *goGen {
	g := &goGen{fn: fn, names: map[string]string{}, tys: map[string]types.Type{}, imports: map[string]bool{}, ok: true}
	if fn.Pkg != nil {
		g.pkg = fn.Pkg.Pkg
	}
	for _, p := range fn.Params {
		g.names[p.Name()] = "in_" + p.Name()
		g.tys[p.Name()] = p.Type()
	}
	res := fn.Signature.Results()
	errT := types.Universe.Lookup("error").Type()
	for i := 0; i < res.Len(); i++ {
		v := res.At(i)
		r := fmt.Sprintf("r%d", i)
		g.names[fmt.Sprintf("result%d", i)] = r
		g.tys[fmt.Sprintf("result%d", i)] = v.Type()
		if i == 0 {
			g.names["result"] = r
			g.tys["result"] = v.Type()
		}
		if v.Name() != "" && v.Name() != "_" {
			g.names[v.Name()] = r
			g.tys[v.Name()] = v.Type()
		}
		if types.Identical(v.Type(), errT) {
			if _, ok := g.names["err"]; !ok {
				g.names["err"] = r
				g.tys["err"] = v.Type()
			}
		}
	}
	return g
}

func (g *goGen) fail(why string) string {
	if g.ok {
		g.ok = false
		g.why = why
	}
	return "false"
}

func isIntT(t types.Type) bool {
	if t == nil {
		return false
	}
	b, ok := t.Underlying().(*types.Basic)
	return ok && b.Info()&types.IsInteger != 0 && b.Info()&types.IsUntyped == 0
}

func (g *goGen) typeOf(x Expr) types.Type {
	switch n := x.(type) {
	case *EIdent:
		if t, ok := g.tys[n.Name]; ok {
			return t
		}
		if g.pkg != nil {
			if obj := g.pkg.Scope().Lookup(n.Name); obj != nil {
				return obj.Type()
			}
		}
	case *EInt:
		return types.Typ[types.UntypedInt]
	case *EStr:
		return types.Typ[types.String]
	case *EBool:
		return types.Typ[types.Bool]
	case *ESel:
		t := g.typeOf(n.X)
		if t == nil {
			return nil
		}
		if p, ok := t.Underlying().(*types.Pointer); ok {
			t = p.Elem()
		}
		if st, ok := t.Underlying().(*types.Struct); ok {
			for i := 0; i < st.NumFields(); i++ {
				if st.Field(i).Name() == n.Name {
					return st.Field(i).Type()
				}
			}
		}
	case *EIndex:
		t := g.typeOf(n.X)
		if t == nil {
			return nil
		}
		switch u := t.Underlying().(type) {
		case *types.Slice:
			return u.Elem()
		case *types.Array:
			return u.Elem()
		case *types.Basic:
			return types.Typ[types.Uint8]
		case *types.Map:
			return u.Elem()
		}
	case *ESlice:
		return g.typeOf(n.X)
	case *EUnary:
		if n.Op == "*" {
			if t := g.typeOf(n.X); t != nil {
				if p, ok := t.Underlying().(*types.Pointer); ok {
					return p.Elem()
				}
			}
			return nil
		}
		if n.Op == "!" {
			return types.Typ[types.Bool]
		}
		return g.typeOf(n.X)
	case *EBinary:
		switch n.Op {
		case "&&", "||", "==>", "==", "!=", "<", "<=", ">", ">=":
			return types.Typ[types.Bool]
		}
		lt := g.typeOf(n.X)
		if lt != nil && lt.Underlying() == types.Typ[types.String] {
			return lt
		}
		return types.Typ[types.Int64]
	case *ECall:
		switch n.Fun {
		case "len", "cap":
			return types.Typ[types.Int]
		case "be16", "be32", "be64":
			return types.Typ[types.Uint64]
		case "string":
			return types.Typ[types.String]
		case "ite":
			if len(n.Args) == 3 {
				if t := g.typeOf(n.Args[1]); t != nil && !isUntyped(t) {
					return t
				}
				return g.typeOf(n.Args[2])
			}
		}
		if t, ok := basicTypeNames[n.Fun]; ok {
			return t
		}
	}
	return nil
}

// num renders an integer-valued expression as int64.
func (g *goGen) num(x Expr) string {
	if lit, ok := x.(*EInt); ok {
		return "int64(" + lit.Val.String() + ")"
	}
	t := g.typeOf(x)
	s := g.expr(x)
	if isIntT(t) {
		if b, ok := t.Underlying().(*types.Basic); ok && b.Kind() == types.Int64 {
			return s
		}
		return "int64(" + s + ")"
	}
	return s
}

func (g *goGen) expr(x Expr) string {
	switch n := x.(type) {
	case *EInt:
		return n.Val.String()
	case *EStr:
		return fmt.Sprintf("%q", n.Val)
	case *EBool:
		if n.Val {
			return "true"
		}
		return "false"
	case *ENil:
		return "nil"
	case *EIdent:
		if s, ok := g.names[n.Name]; ok {
			return s
		}
		if g.pkg != nil && g.pkg.Scope().Lookup(n.Name) != nil {
			return n.Name
		}
		return g.fail("identifier " + n.Name)
	case *EUnary:
		switch n.Op {
		case "!":
			return "!(" + g.expr(n.X) + ")"
		case "-":
			return "-(" + g.num(n.X) + ")"
		case "*":
			return "(*" + g.expr(n.X) + ")"
		}
	case *ESel:
		return g.expr(n.X) + "." + n.Name
	case *EIndex:
		return g.expr(n.X) + "[" + g.num(n.I) + "]"
	case *ESlice:
		lo, hi := "", ""
		if n.Lo != nil {
			lo = g.num(n.Lo)
		}
		if n.Hi != nil {
			hi = g.num(n.Hi)
		}
		return g.expr(n.X) + "[" + lo + ":" + hi + "]"
	case *EBinary:
		switch n.Op {
		case "&&", "||":
			return "(" + g.expr(n.X) + " " + n.Op + " " + g.expr(n.Y) + ")"
		case "==>":
			return "(!(" + g.expr(n.X) + ") || (" + g.expr(n.Y) + "))"
		case "==", "!=":
			lt, rt := g.typeOf(n.X), g.typeOf(n.Y)
			_, lnil := n.X.(*ENil)
			_, rnil := n.Y.(*ENil)
			if lnil || rnil {
				return "(" + g.expr(n.X) + " " + n.Op + " " + g.expr(n.Y) + ")"
			}
			isSlice := func(t types.Type) bool {
				if t == nil {
					return false
				}
				_, ok := t.Underlying().(*types.Slice)
				return ok
			}
			if isSlice(lt) || isSlice(rt) {
				g.imports["bytes"] = true
				s := "bytes.Equal(" + g.expr(n.X) + ", " + g.expr(n.Y) + ")"
				if n.Op == "!=" {
					return "!" + s
				}
				return s
			}
			if isIntT(lt) || isIntT(rt) || (lt != nil && isUntyped(lt) && lt.Underlying() != types.Typ[types.Bool]) {
				return "(" + g.num(n.X) + " " + n.Op + " " + g.num(n.Y) + ")"
			}
			return "(" + g.expr(n.X) + " " + n.Op + " " + g.expr(n.Y) + ")"
		case "<", "<=", ">", ">=":
			lt := g.typeOf(n.X)
			if lt != nil && lt.Underlying() == types.Typ[types.String] {
				return "(" + g.expr(n.X) + " " + n.Op + " " + g.expr(n.Y) + ")"
			}
			return "(" + g.num(n.X) + " " + n.Op + " " + g.num(n.Y) + ")"
		case "+":
			lt := g.typeOf(n.X)
			if lt != nil && lt.Underlying() == types.Typ[types.String] {
				return "(" + g.expr(n.X) + " + " + g.expr(n.Y) + ")"
			}
			return "(" + g.num(n.X) + " + " + g.num(n.Y) + ")"
		case "-", "*", "/", "%", "&", "|", "<<", ">>":
			return "(" + g.num(n.X) + " " + n.Op + " " + g.num(n.Y) + ")"
		}
	case *ECall:
		switch n.Fun {
		case "len", "cap":
			return n.Fun + "(" + g.expr(n.Args[0]) + ")"
		case "be16", "be32", "be64":
			g.imports["encoding/binary"] = true
			bits := strings.TrimPrefix(n.Fun, "be")
			return fmt.Sprintf("binary.BigEndian.Uint%s(%s[%s:])", bits, g.expr(n.Args[0]), g.num(n.Args[1]))
		case "string":
			return "string(" + g.expr(n.Args[0]) + ")"
		case "ite":
			return fmt.Sprintf("func() int64 { if %s { return %s }; return %s }()", g.expr(n.Args[0]), g.num(n.Args[1]), g.num(n.Args[2]))
		case "old":
			// parameters are passed by value to the replayed function: old(param) is the input
			if id, ok := n.Args[0].(*EIdent); ok {
				if _, isParam := g.names[id.Name]; isParam {
					return g.expr(id)
				}
			}
			return g.fail("old()")
		}
		if _, ok := basicTypeNames[n.Fun]; ok && len(n.Args) == 1 {
			name := n.Fun
			return name + "(" + g.num(n.Args[0]) + ")"
		}
		return g.fail("call " + n.Fun)
	case *EQuant:
		return g.fail("quantifier")
	case *ELet:
		return g.fail("let")
	}
	return g.fail(fmt.Sprintf("%T", x))
}

// clauseToGo returns a Go boolean expression for the clause, or ok=false.
func clauseToGo(fn *ssa.Function, x Expr) (string, map[string]bool, bool, string) {
	g := newGoGen(fn)
	s := g.expr(x)
	return s, g.imports, g.ok, g.why
}
