package main

// Named ghost fields for contracts of code outside the repository (added for C30/C32: hash.Hash, os.File).
//
//   ghostStr(x, "name")   spec builtin: the string-valued ghost field `name` of object x
//                          (x: a pointer, or an interface value - keyed by the pointer it holds)
//   ghostInt(x, "name")   the same with an integer value
//   assigns Ghost(name)    frame item: the call may change the ghost field `name` (of any object)
//
// A ghost field is one heap array "G|str.<name>" / "G|int.<name>" (object ref -> value). It is written only
// through the `ensures` of extern contracts that list it under `assigns`, is havocked by loops and calls whose
// write set contains it, and is forgotten by unknown calls like every other heap array. The extern contracts
// that use it are trusted and listed in the evidence like every extern contract.

import (
	"fmt"
	"go/types"
	"strings"

	"golang.org/x/tools/go/ssa"
)

func (e *Engine) ghostFieldKey(kind, name string) (key, sort string) {
	key = "G|" + kind + "." + name
	sort = ArraySort(SInt, SString)
	if kind == "int" {
		sort = ArraySort(SInt, SInt)
	}
	if _, ok := e.heapSorts[key]; !ok {
		e.heapSorts[key] = sort
		e.heapValKind[key] = ""
	}
	return
}

// ghostAssignKey maps an assigns item "Ghost(name)" to its heap keys (both value kinds).
func (e *Engine) ghostAssignKeys(item string) ([]string, bool) {
	item = strings.TrimSpace(item)
	if !strings.HasPrefix(item, "Ghost(") || !strings.HasSuffix(item, ")") {
		return nil, false
	}
	name := strings.TrimSpace(item[len("Ghost(") : len(item)-1])
	k1, _ := e.ghostFieldKey("str", name)
	k2, _ := e.ghostFieldKey("int", name)
	return []string{k1, k2}, true
}

// staticAssignKeys resolves the assigns items that denote fixed heap keys without a typing context
// (used by the static write-set computation for loops and callers): Mem(elem) and Ghost(name).
func (e *Engine) staticAssignKeys(item string) ([]string, bool) {
	item = strings.TrimSpace(item)
	if ks, ok := e.ghostAssignKeys(item); ok {
		return ks, true
	}
	if strings.HasPrefix(item, "Mem(") && strings.HasSuffix(item, ")") {
		el := strings.TrimSpace(item[len("Mem(") : len(item)-1])
		if t, ok := basicTypeNames[el]; ok {
			k, _ := e.memKey(t)
			return []string{k}, true
		}
		return []string{"Mem|" + el}, true
	}
	return nil, false
}

// ghostSpec: spec builtins ghostStr(x, "name") and ghostInt(x, "name").
func (e *Engine) ghostSpec(env *Env, fun string, args []Expr) (TV, bool, error) {
	kind := ""
	switch fun {
	case "ghostStr":
		kind = "str"
	case "ghostInt":
		kind = "int"
	default:
		return TV{}, false, nil
	}
	if len(args) != 2 {
		return TV{}, true, fmt.Errorf("%s(x, \"name\")", fun)
	}
	ns, ok := args[1].(*EStr)
	if !ok {
		return TV{}, true, fmt.Errorf("%s(x, \"name\"): second argument must be a string literal", fun)
	}
	v, err := e.eval(env, args[0])
	if err != nil {
		return TV{}, true, err
	}
	var ref Term
	switch x := v.V.(type) {
	case *Ptr:
		if x.Kind != pkObj {
			return TV{}, true, fmt.Errorf("%s: argument is not an object pointer", fun)
		}
		ref = x.Ref
	default:
		t, err := env.s.toTerm(v.V)
		if err != nil {
			return TV{}, true, err
		}
		switch t.Sort {
		case SIface:
			ref = App("i-val", SInt, t)
		case SInt:
			ref = t
		default:
			return TV{}, true, fmt.Errorf("%s: argument of sort %s is neither a pointer nor an interface value", fun, t.Sort)
		}
	}
	key, sort := e.ghostFieldKey(kind, ns.Val)
	val := Select(e.heapIn(env, key, sort), ref)
	if kind == "int" {
		return TV{val, nil}, true, nil
	}
	return TV{val, types.Typ[types.String]}, true, nil
}

// ghostDeclType: the Go type of a contract ghost variable when it is declared with a struct or pointer-to-struct
// type (so that its fields can be read in clauses); nil (untyped, as before) for every other ghost.
func (e *Engine) ghostDeclType(env *Env, name string) types.Type {
	if env.fr == nil || env.fr.contract == nil {
		return nil
	}
	for _, g := range env.fr.contract.Ghosts {
		if g.Name != name {
			continue
		}
		tenv := env
		if tenv.pkg == nil && env.fr.fn != nil && env.fr.fn.Pkg != nil {
			c := *env
			c.pkg = env.fr.fn.Pkg.Pkg
			tenv = &c
		}
		ty, _, err := e.resolveType(tenv, g.Type)
		if err != nil || ty == nil {
			return nil
		}
		u := ty.Underlying()
		if p, ok := u.(*types.Pointer); ok {
			u = p.Elem().Underlying()
		}
		if _, ok := u.(*types.Struct); ok {
			return ty
		}
		return nil
	}
	return nil
}

// pointeeAssign: assigns item "Pointee(p)" - the call may write the object that parameter p points to (p a pointer,
// or an interface value holding a pointer, e.g. the `v any` of json.Unmarshal). Resolved per call site from the
// dynamic type of the argument to the heap arrays of the pointee's type; when the type cannot be determined the
// whole heap is havocked. (The static write-set computation for loops / callers cannot resolve it and treats the
// callee as writing everything, unless the argument is the address of a local, which it accounts for itself.)
func (e *Engine) pointeeAssign(s *State, env *Env, item string, w *WriteSet) bool {
	item = strings.TrimSpace(item)
	if strings.HasPrefix(item, "MapOf(") && strings.HasSuffix(item, ")") {
		// MapOf(p): the call may write maps of the type of parameter p (e.g. the receiver of http.Header.Set)
		name := strings.TrimSpace(item[len("MapOf(") : len(item)-1])
		if env != nil {
			if ty, ok := env.vtypes[name]; ok && ty != nil {
				if mt, ok := ty.Underlying().(*types.Map); ok {
					for _, k := range e.mapKeys(mt) {
						w.Heap[k] = true
					}
					return true
				}
			}
		}
		w.setAll("MapOf(" + name + "): not a map-typed parameter at this call")
		return true
	}
	if !strings.HasPrefix(item, "Pointee(") || !strings.HasSuffix(item, ")") {
		return false
	}
	name := strings.TrimSpace(item[len("Pointee(") : len(item)-1])
	if env == nil {
		w.setAll("Pointee(" + name + ") without a call site")
		return true
	}
	v, ok := env.vars[name]
	if !ok {
		e.bail("assigns Pointee(%s): no such parameter", name)
	}
	switch x := v.(type) {
	case *Ptr:
		if x.Elem != nil {
			_, isStruct := x.Elem.Underlying().(*types.Struct)
			_, isArray := x.Elem.Underlying().(*types.Array)
			if x.Kind == pkObj && (isStruct || isArray) {
				// every object of the pointee's type (type-based, covers what the callee reaches through it one level deep)
				e.addPtrTargetKeys(types.NewPointer(x.Elem), w)
				return true
			}
			// a variable, field or element: exactly that location receives an arbitrary value
			if err := s.store(x, s.fresh("pointee."+name, x.Elem)); err != nil {
				w.setAll("Pointee(" + name + "): " + err.Error())
			}
			return true
		}
	case Term:
		if x.Sort == SIface {
			if dyn, _, ok := e.ifaceDynType(x); ok {
				if _, isPtr := dyn.Underlying().(*types.Pointer); isPtr {
					e.addPtrTargetKeys(dyn, w)
					return true
				}
			}
		}
	}
	w.setAll("Pointee(" + name + "): pointee type unknown at this call")
	return true
}

// contractCallWrites: static write set of a direct call to a function whose contract has an `assigns` clause made
// only of Mem(..) / Ghost(..) / Pointee(p) items. Pointee(p) is resolved from the static type of the argument
// (address of a local: already accounted for by the caller of this function; pointer-typed value: the heap arrays
// of its element type). Returns false when the contract has another shape (the general rule applies).
func (e *Engine) contractCallWrites(f *ssa.Function, cc *ssa.CallCommon, w *WriteSet, fn *ssa.Function) bool {
	c := e.contractFor(f)
	if c == nil || c.Flags["assigns"] == "" {
		return false
	}
	hasPointee := false
	for _, a := range c.Assigns {
		if strings.HasPrefix(strings.TrimSpace(a), "Pointee(") || strings.HasPrefix(strings.TrimSpace(a), "MapOf(") {
			hasPointee = true
		}
	}
	if !hasPointee {
		return false
	}
	for _, a := range c.Assigns {
		a = strings.TrimSpace(a)
		if a == "" || a == "nothing" {
			continue
		}
		if ks, ok := e.staticAssignKeys(a); ok {
			for _, k := range ks {
				w.Heap[k] = true
			}
			continue
		}
		isMap := strings.HasPrefix(a, "MapOf(")
		if !strings.HasPrefix(a, "Pointee(") && !isMap {
			return false
		}
		name := strings.TrimSpace(a[strings.Index(a, "(")+1 : len(a)-1])
		idx := -1
		for i, p := range c.Params {
			if p.Name == name {
				idx = i
			}
		}
		if idx >= 0 && f.Signature.Recv() != nil {
			idx++
		}
		if name == "recv" && f.Signature.Recv() != nil {
			idx = 0
		}
		if isMap {
			if idx >= 0 && idx < len(cc.Args) {
				if mt, ok := cc.Args[idx].Type().Underlying().(*types.Map); ok {
					for _, k := range e.mapKeys(mt) {
						w.Heap[k] = true
					}
					continue
				}
			}
			w.setAll("assigns " + a + ": argument is not a map")
			return true
		}
		if idx < 0 || idx >= len(cc.Args) {
			w.setAll("assigns " + a + ": parameter not found")
			return true
		}
		arg := cc.Args[idx]
		if mi, ok := arg.(*ssa.MakeInterface); ok {
			arg = mi.X
		}
		if _, ok := arg.Type().Underlying().(*types.Pointer); ok {
			// the same classification as for a store through this address
			e.classifyAddr(arg, w, fn)
			continue
		}
		w.setAll("assigns " + a + ": argument is not a pointer")
		return true
	}
	return true
}

// nthLocal resolves "name_N" to the N-th local variable (ssa.Alloc) named `name` in block/instruction order,
// provided it is live on the current path.
func (e *Engine) nthLocal(fr *Frame, name string) *ssa.Alloc {
	k := strings.LastIndex(name, "_")
	if k <= 0 || k == len(name)-1 {
		return nil
	}
	n := 0
	for _, c := range name[k+1:] {
		if c < '0' || c > '9' {
			return nil
		}
		n = n*10 + int(c-'0')
	}
	base := name[:k]
	cnt := 0
	for _, b := range fr.fn.Blocks {
		for _, in := range b.Instrs {
			if al, ok := in.(*ssa.Alloc); ok && al.Comment == base {
				cnt++
				if cnt == n {
					if _, live := fr.regs[al]; live {
						return al
					}
					return nil
				}
			}
		}
	}
	return nil
}

// freshenPointerResults: `fresh_result` flag of a (trusted, extern) constructor contract - pointer results denote
// newly allocated objects: concrete new refs, so they alias no object that existed before the call. Their fields are
// whatever the heap arrays hold at the new ref (arbitrary) until the contract's ensures constrain them.
func (e *Engine) freshenPointerResults(rv Value) Value {
	fix := func(v Value) Value {
		if p, ok := v.(*Ptr); ok && p.Kind == pkObj {
			return &Ptr{Kind: pkObj, Ref: e.newRef(), Elem: p.Elem}
		}
		return v
	}
	if tv, ok := rv.(*Tuple); ok {
		out := &Tuple{}
		for _, v := range tv.Vs {
			out.Vs = append(out.Vs, fix(v))
		}
		return out
	}
	if rv == nil {
		return nil
	}
	return fix(rv)
}

// deepClosednessAxiom: the closedness axiom for heap arrays whose cells hold struct values (e.g. the element array of
// a []kmsg.MetadataResponseTopic): every pointer, slice base and interface payload nested in a stored struct is at
// most `bound`, i.e. is not a ref allocated later. Same fact as closednessAxiom states for scalar cells; generated only
// for roots whose contract carries the flag `deep_closedness` (so the queries of other roots are unchanged).
func (e *Engine) deepClosednessAxiom(h Term, key string, bound Term) (Term, bool) {
	if e.rootContract == nil || e.rootContract.Flags["deep_closedness"] == "" {
		return Term{}, false
	}
	gt := e.heapGoType[key]
	if gt == nil || strings.HasPrefix(key, "Glob|") || strings.HasPrefix(key, "Map") || strings.HasPrefix(key, "G|") {
		return Term{}, false
	}
	if _, ok := gt.Underlying().(*types.Struct); !ok {
		return Term{}, false
	}
	var val Term
	var vars string
	if strings.HasPrefix(key, "Mem|") {
		vars = "((r Int) (i Int))"
		val = Select(Select(h, Term{"r", SInt}), Term{"i", SInt})
	} else {
		vars = "((r Int))"
		val = Select(h, Term{"r", SInt})
	}
	var facts []Term
	var walk func(v Term, ty types.Type, depth int)
	walk = func(v Term, ty types.Type, depth int) {
		if depth > 4 {
			return
		}
		switch u := ty.Underlying().(type) {
		case *types.Pointer, *types.Map, *types.Chan:
			facts = append(facts, Le(v, bound))
		case *types.Slice:
			facts = append(facts, Le(App("s-base", SInt, v), bound))
		case *types.Interface:
			facts = append(facts, Le(App("i-val", SInt, v), bound))
		case *types.Struct:
			for i := 0; i < u.NumFields(); i++ {
				walk(e.tm.FieldOf(ty, v, i), u.Field(i).Type(), depth+1)
			}
		}
	}
	walk(val, gt, 0)
	if len(facts) == 0 {
		return Term{}, false
	}
	return Term{fmt.Sprintf("(forall %s (! %s :pattern (%s)))", vars, And(facts...).S, val.S), SBool}, true
}
