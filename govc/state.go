package main

import (
	"os"
	"fmt"
	"go/token"
	"go/types"
	"sort"
	"strings"

	"golang.org/x/tools/go/ssa"
)

type Value interface{}

type PtrKind int

const (
	pkCell PtrKind = iota
	pkObj
	pkField
	pkElem
	pkArrElem
	pkGlobal
)

type Ptr struct {
	Kind  PtrKind
	Cell  int
	Ref   Term       // pkObj: object ref; pkElem: slice base
	Elem  types.Type // type pointed to
	Base  *Ptr
	Field int
	Idx   Term
	Glob  *ssa.Global
}

type Tuple struct{ Vs []Value }

type Closure struct {
	Fn       *ssa.Function
	Bindings []Value
}

type FuncRef struct{ Fn *ssa.Function }

type Builtin struct{ Name string }

// assumption list (persistent)
type alist struct {
	prev *alist
	t    Term
	n    int
}

func (a *alist) push(t Term) *alist {
	n := 1
	if a != nil {
		n = a.n + 1
	}
	return &alist{prev: a, t: t, n: n}
}

func (a *alist) slice() []Term {
	if a == nil {
		return nil
	}
	out := make([]Term, a.n)
	for p := a; p != nil; p = p.prev {
		out[p.n-1] = p.t
	}
	return out
}

type Snapshot struct {
	heap   map[string]Term
	params map[string]Value
	// lazily materialized havocs at the time of the snapshot (see State.pending)
	pending   map[string]int
	allSeq    int
	allPrev   int
	allExcept map[string]bool
}

type loopCtx struct {
	loop   *LoopInfo
	decr0  *Term
	frame  int
	inv    *LoopContract
	fnKey  string
	snapAt *Snapshot
}

type deferred struct {
	call *ssa.CallCommon
	args []Value
	fn   Value
	site ssa.Instruction
}

type Frame struct {
	fn       *ssa.Function
	regs     map[ssa.Value]Value
	block    *ssa.BasicBlock
	idx      int
	prev     *ssa.BasicBlock
	defers   []deferred
	loops    []*loopCtx
	callSite *ssa.Call // in caller frame
	entry    *Snapshot
	contract *FuncContract
	params   map[string]Value // entry values of parameters by name
	ghosts   map[string]Value
	callCnt  map[string]int
	isRoot   bool
	retCnt   int
	deferRun bool
	curRecv  Value // receiver of the interface call being executed (for at-anchors)
}

type State struct {
	eng     *Engine
	assumes *alist
	cells   map[int]Value
	heap    map[string]Term
	frames  []*Frame
	id      int
	trace   []string // branch decisions for diagnostics
	dead    bool
	locks   map[string]bool
	quant   int // >0 while evaluating under a quantifier: no side assumptions may mention bound variables
	// Havoc of heap arrays that this path has not touched yet. A heap array is materialized (gets an SMT symbol)
	// the first time a path reads or writes it; before that its value is the initial heap H0.<key>. A havoc of a
	// not-yet-materialized array (modular call, loop cut, lock acquisition) must not be lost: it is recorded here
	// (pending: per key, allSeq: whole-heap havoc) as the sequence number of the havoc event on this path, and the
	// first later access materializes the array as a fresh symbol H~<seq>.<key> instead of H0.<key>.
	pending  map[string]int
	allSeq   int
	havocSeq int
	// a whole-heap havoc with a `preserves` exception: the excepted arrays keep the value they had before it
	// (allPrev: the whole-heap havoc in force before that one)
	allPrev   int
	allExcept map[string]bool
}

// lazySeq: the havoc event that determines the value of a not-yet-materialized heap array (0: the initial heap).
func lazySeq(key string, pending map[string]int, allSeq, allPrev int, allExcept map[string]bool) int {
	all := allSeq
	if allExcept != nil && allExcept[key] {
		all = allPrev
	}
	if p := pending[key]; p > all {
		return p
	}
	return all
}

// noteHavocAll records a whole-heap havoc for the arrays that are not materialized yet.
func (s *State) noteHavocAll(except map[string]bool) {
	s.havocSeq++
	if except == nil {
		s.allSeq, s.allPrev, s.allExcept = s.havocSeq, 0, nil
		return
	}
	if s.allExcept != nil {
		// two excepted havocs in a row: preserved across both only what both preserve
		both := map[string]bool{}
		for k := range except {
			if s.allExcept[k] {
				both[k] = true
			}
		}
		s.allSeq, s.allExcept = s.havocSeq, both
		return
	}
	s.allPrev, s.allSeq, s.allExcept = s.allSeq, s.havocSeq, except
}

func (s *State) top() *Frame { return s.frames[len(s.frames)-1] }

func (s *State) assume(t Term) {
	if t.S == "true" || s.quant > 0 {
		return
	}
	s.assumes = s.assumes.push(t)
}

func (s *State) fork() *State {
	n := &State{eng: s.eng, assumes: s.assumes, cells: make(map[int]Value, len(s.cells)), heap: make(map[string]Term, len(s.heap))}
	for k, v := range s.cells {
		n.cells[k] = v
	}
	for k, v := range s.heap {
		n.heap[k] = v
	}
	n.locks = map[string]bool{}
	for k, v := range s.locks {
		n.locks[k] = v
	}
	n.allSeq, n.havocSeq, n.allPrev, n.allExcept = s.allSeq, s.havocSeq, s.allPrev, s.allExcept
	if len(s.pending) > 0 {
		n.pending = make(map[string]int, len(s.pending))
		for k, v := range s.pending {
			n.pending[k] = v
		}
	}
	for _, f := range s.frames {
		nf := *f
		nf.regs = make(map[ssa.Value]Value, len(f.regs))
		for k, v := range f.regs {
			nf.regs[k] = v
		}
		nf.defers = append([]deferred(nil), f.defers...)
		nf.loops = nil
		for _, lc := range f.loops {
			c := *lc
			nf.loops = append(nf.loops, &c)
		}
		nf.callCnt = make(map[string]int, len(f.callCnt))
		for k, v := range f.callCnt {
			nf.callCnt[k] = v
		}
		nf.ghosts = make(map[string]Value, len(f.ghosts))
		for k, v := range f.ghosts {
			nf.ghosts[k] = v
		}
		n.frames = append(n.frames, &nf)
	}
	n.trace = append([]string(nil), s.trace...)
	s.eng.stateCounter++
	n.id = s.eng.stateCounter
	return n
}

// enterOld makes the state read the heap of a snapshot (old() evaluation), including the snapshot's record of
// havocs on arrays that were not materialized then; the returned function switches back. Arrays materialized
// while reading the old heap are not carried into the current state.
func (s *State) enterOld(old *Snapshot) func() {
	sh, sp, sa, spv, se := s.heap, s.pending, s.allSeq, s.allPrev, s.allExcept
	s.heap = make(map[string]Term, len(old.heap))
	for k, v := range old.heap {
		s.heap[k] = v
	}
	s.pending = make(map[string]int, len(old.pending))
	for k, v := range old.pending {
		s.pending[k] = v
	}
	s.allSeq, s.allPrev, s.allExcept = old.allSeq, old.allPrev, old.allExcept
	return func() {
		s.heap, s.pending, s.allSeq, s.allPrev, s.allExcept = sh, sp, sa, spv, se
	}
}

func (s *State) snapshot() *Snapshot {
	sn := &Snapshot{heap: make(map[string]Term, len(s.heap)), allSeq: s.allSeq, allPrev: s.allPrev, allExcept: s.allExcept}
	for k, v := range s.heap {
		sn.heap[k] = v
	}
	if len(s.pending) > 0 {
		sn.pending = make(map[string]int, len(s.pending))
		for k, v := range s.pending {
			sn.pending[k] = v
		}
	}
	s.eng.coordSnapshot(sn) // models_coord.go: allocation counter, for fresh()/keeps*() clauses
	return sn
}

// ---------------------------------------------------------------------------
// Heap arrays

func (e *Engine) heapInit(key, sort string, ptrLike bool) Term {
	name := "H0." + sanitize(key)
	if !e.u.Has(name) {
		e.u.DeclareFun(name, nil, sort)
		e.heapSorts[key] = sort
		if ptrLike {
			e.heapPtrLike[key] = true
		}
		// closedness of the initial heap: pointers/slice bases stored in it are not fresh refs
		if ax, ok := e.closednessAxiom(Term{name, sort}, key, IntLit(0)); ok {
			e.u.AddAxiom(name, ax)
		}
		if ax, ok := e.typedAxiom(Term{name, sort}, key); ok {
			e.u.AddAxiom(name, ax)
		}
	}
	return Term{name, sort}
}

// typedAxiom: every value stored in heap array h is well typed (integer ranges, slice headers).
func (e *Engine) typedAxiom(h Term, key string) (Term, bool) {
	gt := e.heapGoType[key]
	if gt == nil || strings.HasPrefix(key, "Glob|") || strings.HasPrefix(key, "Map") {
		return Term{}, false
	}
	var val Term
	var vars string
	if strings.HasPrefix(key, "Mem|") {
		vars = "((r Int) (i Int))"
		val = Select(Select(h, Term{"r", SInt}), Term{"i", SInt})
	} else {
		vars = "((r Int))"
		val = Select(h, Term{"r", SInt})
	}
	f := e.tm.typeFacts(val, gt, 1)
	if f.S == "true" {
		return Term{}, false
	}
	return Term{fmt.Sprintf("(forall %s (! %s :pattern (%s)))", vars, f.S, val.S), SBool}, true
}

// closednessAxiom: every pointer-like value stored in array h is <= bound.
func (e *Engine) closednessAxiom(h Term, key string, bound Term) (Term, bool) {
	kind := e.heapValKind[key]
	if kind == "" {
		// opt-in per root: "nested_closedness" (ops) or "deep_closedness" (proxy): on large third-party structs (kmsg
		// requests) the quantified conjunction slows quantifier-heavy proofs down to time-outs (seen: C19)
		if e.rootContract != nil && e.rootContract.Flags["nested_closedness"] != "" {
			return e.closednessNested(h, key, bound)
		}
		return e.deepClosednessAxiom(h, key, bound)
	}
	isMem := strings.HasPrefix(key, "Mem|")
	var val Term
	var vars string
	if isMem {
		vars = "((r Int) (i Int))"
		val = Select(Select(h, Term{"r", SInt}), Term{"i", SInt})
	} else {
		vars = "((r Int))"
		val = Select(h, Term{"r", SInt})
	}
	switch kind {
	case "ptr":
		return Term{fmt.Sprintf("(forall %s (! (<= %s %s) :pattern (%s)))", vars, val.S, bound.S, val.S), SBool}, true
	case "slice":
		b := App("s-base", SInt, val)
		return Term{fmt.Sprintf("(forall %s (! (<= %s %s) :pattern (%s)))", vars, b.S, bound.S, val.S), SBool}, true
	case "iface":
		b := App("i-val", SInt, val)
		return Term{fmt.Sprintf("(forall %s (! (<= %s %s) :pattern (%s)))", vars, b.S, bound.S, val.S), SBool}, true
	case "struct":
		// struct values held in the array: their pointer-like fields (one level) are not fresh refs either
		if f := e.structClosedness(val, e.heapGoType[key], bound); f.S != "true" {
			return Term{fmt.Sprintf("(forall %s (! %s :pattern (%s)))", vars, f.S, val.S), SBool}, true
		}
	}
	return Term{}, false
}

func valKindOf(t types.Type) string {
	switch u := t.Underlying().(type) {
	case *types.Pointer, *types.Map, *types.Chan:
		return "ptr"
	case *types.Slice:
		return "slice"
	case *types.Interface:
		return "iface"
	case *types.Struct:
		for i := 0; i < u.NumFields(); i++ {
			switch u.Field(i).Type().Underlying().(type) {
			case *types.Pointer, *types.Map, *types.Chan, *types.Slice, *types.Interface:
				return "struct"
			}
		}
	}
	return ""
}

// structClosedness: the pointer-like fields (one level) of struct value v are <= bound.
func (e *Engine) structClosedness(v Term, t types.Type, bound Term) Term {
	if t == nil {
		return TTrue
	}
	st, ok := t.Underlying().(*types.Struct)
	if !ok {
		return TTrue
	}
	var fs []Term
	for i := 0; i < st.NumFields(); i++ {
		f := e.tm.FieldOf(t, v, i)
		switch st.Field(i).Type().Underlying().(type) {
		case *types.Pointer, *types.Map, *types.Chan:
			fs = append(fs, Le(f, bound))
		case *types.Slice:
			fs = append(fs, Le(App("s-base", SInt, f), bound))
		case *types.Interface:
			fs = append(fs, Le(App("i-val", SInt, f), bound))
		}
	}
	return And(fs...)
}

func (s *State) heapGet(key, sort string) Term {
	if t, ok := s.heap[key]; ok {
		return t
	}
	t := s.eng.heapLazy(s, key, sort, lazySeq(key, s.pending, s.allSeq, s.allPrev, s.allExcept))
	s.heap[key] = t
	delete(s.pending, key)
	return t
}

// heapLazy: the value of a heap array on first access: the initial heap, or - when a havoc event hit the array
// before it was materialized - a symbol named after that event. The same (event, key) gives the same symbol, so
// a snapshot taken after the havoc and the state itself agree as long as nothing else happens to the array.
func (e *Engine) heapLazy(s *State, key, sort string, seq int) Term {
	if seq == 0 {
		return e.heapInit(key, sort, false)
	}
	name := fmt.Sprintf("H~%d.%s", seq, sanitize(key))
	t := Term{name, sort}
	if !e.u.Has(name) {
		e.u.DeclareFun(name, nil, sort)
		if _, ok := e.heapSorts[key]; !ok {
			e.heapSorts[key] = sort
		}
	}
	if s != nil {
		if ax, ok := e.closednessAxiom(t, key, IntLit(int64(e.refCounter))); ok {
			s.assume(ax)
		}
		if ax, ok := e.typedAxiom(t, key); ok {
			s.assume(ax)
		}
	}
	return t
}

func (s *State) heapSet(key string, t Term) {
	s.heap[key] = s.eng.u.Define(key, t)
}

func (e *Engine) fieldKey(structT types.Type, i int) (key, sort string) {
	si := e.tm.StructInfo(structT)
	key = fmt.Sprintf("H|%s|%d", si.sort, i)
	sort = ArraySort(SInt, si.fsorts[i])
	if _, ok := e.heapValKind[key]; !ok {
		st := structT.Underlying().(*types.Struct)
		e.heapValKind[key] = valKindOf(st.Field(i).Type())
		e.heapGoType[key] = st.Field(i).Type()
	}
	return
}

func (e *Engine) boxKey(t types.Type) (key, sort string) {
	es := e.tm.SortOf(t)
	key = "Box|" + elemKeyName(t) // one box array per Go type: typed-heap axioms are per type
	sort = ArraySort(SInt, es)
	if _, ok := e.heapValKind[key]; !ok {
		e.heapValKind[key] = valKindOf(t)
		e.heapGoType[key] = t
	}
	return
}

func elemKeyName(t types.Type) string {
	if b, ok := t.Underlying().(*types.Basic); ok {
		// byte/uint8 and rune/int32 are the same type: one heap array each
		return types.Typ[b.Kind()].Name()
	}
	return sanitize(strings.ReplaceAll(typeKey(t), "github.com/KafScale/platform/", ""))
}

func (e *Engine) memKey(elem types.Type) (key, sort string) {
	es := e.tm.SortOf(elem)
	key = "Mem|" + elemKeyName(elem)
	sort = ArraySort(SInt, ArraySort(SInt, es))
	if _, ok := e.heapValKind[key]; !ok {
		e.heapValKind[key] = valKindOf(elem)
		e.heapGoType[key] = elem
	}
	return
}

// ---------------------------------------------------------------------------
// Allocation

func (e *Engine) newRef() Term {
	e.refCounter++
	return IntLit(int64(e.refCounter))
}

func nilPtr(elem types.Type) *Ptr { return &Ptr{Kind: pkObj, Ref: IntLit(0), Elem: elem} }

// zeroValue returns the engine-level zero value of a type.
func (s *State) zeroValue(t types.Type) Value {
	switch u := t.Underlying().(type) {
	case *types.Pointer:
		return nilPtr(u.Elem())
	case *types.Signature:
		return Term{"0", SInt}
	case *types.Tuple:
		tv := &Tuple{}
		for i := 0; i < u.Len(); i++ {
			tv.Vs = append(tv.Vs, s.zeroValue(u.At(i).Type()))
		}
		return tv
	}
	return s.eng.tm.Zero(t)
}

// toTerm converts an engine value to an SMT term (pointers become refs).
func (s *State) toTerm(v Value) (Term, error) {
	switch x := v.(type) {
	case Term:
		return x, nil
	case *Ptr:
		if x.Kind == pkObj {
			return x.Ref, nil
		}
		if x.Kind == pkGlobal {
			return s.eng.globalRef(x.Glob), nil
		}
		if t, ok := s.eng.fieldAddrTerm(x); ok { // models_coord.go: opt-in opaque field addresses
			return t, nil
		}
		return Term{}, fmt.Errorf("interior or stack pointer (kind %d) escapes into a term", x.Kind)
	case *FuncRef:
		return IntLit(int64(s.eng.funcID(x.Fn))), nil
	case *Closure:
		id := s.eng.closureID(x)
		return IntLit(int64(id)), nil
	case *Builtin:
		return IntLit(-1), nil
	case nil:
		return IntLit(0), nil
	}
	return Term{}, fmt.Errorf("cannot convert %T to term", v)
}

// fromTerm wraps a term as an engine value of Go type t.
func (s *State) fromTerm(t Term, ty types.Type) Value {
	switch u := ty.Underlying().(type) {
	case *types.Pointer:
		return &Ptr{Kind: pkObj, Ref: t, Elem: u.Elem()}
	}
	return t
}

// fresh creates an unconstrained value of a Go type with its type facts assumed.
func (s *State) fresh(hint string, ty types.Type) Value {
	if tup, ok := ty.(*types.Tuple); ok {
		tv := &Tuple{}
		for i := 0; i < tup.Len(); i++ {
			tv.Vs = append(tv.Vs, s.fresh(fmt.Sprintf("%s.%d", hint, i), tup.At(i).Type()))
		}
		return tv
	}
	sort := s.eng.tm.SortOf(ty)
	t := s.eng.u.Fresh(hint, sort)
	s.assume(s.eng.tm.TypeFacts(t, ty))
	s.assumeNotFresh(t, ty)
	return s.fromTerm(t, ty)
}

// assumeNotFresh: a symbolic value does not alias refs allocated later.
func (s *State) assumeNotFresh(t Term, ty types.Type) {
	bound := IntLit(int64(s.eng.refCounter))
	switch ty.Underlying().(type) {
	case *types.Pointer, *types.Map, *types.Chan:
		s.assume(Le(t, bound))
	case *types.Slice:
		s.assume(Le(App("s-base", SInt, t), bound))
	case *types.Interface:
		s.assume(Le(App("i-val", SInt, t), bound))
	case *types.Struct:
		// pointer-like components of a symbolic struct value are not fresh either
		if os.Getenv("GOVC_NO_NFS") == "" {
			s.assumeNotFreshStruct(t, ty, 0)
		}
	}
}

func (s *State) assumeNotFreshStruct(t Term, ty types.Type, depth int) {
	st, ok := ty.Underlying().(*types.Struct)
	if !ok || depth > 3 {
		return
	}
	for i := 0; i < st.NumFields(); i++ {
		ft := st.Field(i).Type()
		switch ft.Underlying().(type) {
		case *types.Pointer, *types.Map, *types.Chan, *types.Slice, *types.Interface:
			s.assumeNotFresh(s.eng.tm.FieldOf(ty, t, i), ft)
		case *types.Struct:
			s.assumeNotFreshStruct(s.eng.tm.FieldOf(ty, t, i), ft, depth+1)
		}
	}
}

// ---------------------------------------------------------------------------
// Load / store through pointers

func (s *State) load(p *Ptr) (Value, error) {
	e := s.eng
	switch p.Kind {
	case pkCell:
		v, ok := s.cells[p.Cell]
		if !ok {
			return nil, fmt.Errorf("load of unknown cell %d", p.Cell)
		}
		return v, nil
	case pkGlobal:
		key := "Glob|" + p.Glob.Pkg.Pkg.Path() + "." + p.Glob.Name()
		sort := e.tm.SortOf(p.Elem)
		if _, ok := e.heapValKind[key]; !ok {
			e.heapValKind[key] = ""
			e.heapGoType[key] = p.Elem
		}
		if _, seen := s.heap[key]; !seen {
			// literal slice initialiser: a concrete header (literal length) over a dedicated base
			if cg := e.globalConst(p.Glob); cg != nil && cg.isSl && sort == SSlice {
				n := IntLit(int64(len(cg.elems)))
				s.heap[key] = App("mk-slice", SSlice, e.globalRef(p.Glob), IntLit(0), n, n)
			}
		}
		t := s.heapGet(key, sort)
		s.assumeLoaded(t, p.Elem)
		if strings.HasPrefix(t.S, "(mk-slice ") {
			for _, f := range e.globalFacts(s, p.Glob, t, p.Elem) {
				s.assume(f)
			}
		}
		if t.Sort == SIface && e.globalInitNonNil(p.Glob) {
			s.assume(Not(Eq(App("i-type", SInt, t), IntLit(0))))
		}
		if t.S == "H0."+sanitize(key) {
			// still the initial value: literal initialisers are known
			for _, f := range e.globalFacts(s, p.Glob, t, p.Elem) {
				s.assume(f)
			}
		}
		return s.fromTerm(t, p.Elem), nil
	case pkObj:
		if arr, ok := p.Elem.Underlying().(*types.Array); ok {
			key, sort := e.memKey(arr.Elem())
			return Select(s.heapGet(key, sort), p.Ref), nil
		}
		if st, ok := p.Elem.Underlying().(*types.Struct); ok {
			var fs []Term
			for i := 0; i < st.NumFields(); i++ {
				key, sort := e.fieldKey(p.Elem, i)
				fs = append(fs, Select(s.heapGet(key, sort), p.Ref))
			}
			return e.tm.MkStruct(p.Elem, fs), nil
		}
		key, sort := e.boxKey(p.Elem)
		t := Select(s.heapGet(key, sort), p.Ref)
		s.assumeLoaded(t, p.Elem)
		return s.fromTerm(t, p.Elem), nil
	case pkField:
		st := p.Base.Elem.Underlying().(*types.Struct)
		ft := st.Field(p.Field).Type()
		if p.Base.Kind == pkObj {
			key, sort := e.fieldKey(p.Base.Elem, p.Field)
			t := Select(s.heapGet(key, sort), p.Base.Ref)
			s.assumeLoaded(t, ft)
			return s.fromTerm(t, ft), nil
		}
		bv, err := s.load(p.Base)
		if err != nil {
			return nil, err
		}
		bt, ok := bv.(Term)
		if !ok {
			return nil, fmt.Errorf("field load from non-term struct")
		}
		return s.fromTerm(e.tm.FieldOf(p.Base.Elem, bt, p.Field), ft), nil
	case pkElem:
		key, sort := e.memKey(p.Elem)
		t := Select(Select(s.heapGet(key, sort), p.Ref), p.Idx)
		s.assumeLoaded(t, p.Elem)
		return s.fromTerm(t, p.Elem), nil
	case pkArrElem:
		bv, err := s.load(p.Base)
		if err != nil {
			return nil, err
		}
		bt := bv.(Term)
		return s.fromTerm(Select(bt, p.Idx), p.Elem), nil
	}
	return nil, fmt.Errorf("load: bad pointer kind")
}

func (s *State) assumeLoaded(t Term, ty types.Type) {
	f := s.eng.tm.TypeFacts(t, ty)
	if f.S != "true" {
		s.assume(f)
	}
}

func (s *State) store(p *Ptr, v Value) error {
	e := s.eng
	switch p.Kind {
	case pkCell:
		s.cells[p.Cell] = v
		return nil
	case pkGlobal:
		key := "Glob|" + p.Glob.Pkg.Pkg.Path() + "." + p.Glob.Name()
		t, err := s.toTerm(v)
		if err != nil {
			return err
		}
		if _, ok := e.heapValKind[key]; !ok {
			e.heapValKind[key] = ""
			e.heapGoType[key] = p.Elem
		}
		s.heap[key] = e.u.Define(key, t)
		return nil
	case pkObj:
		t, err := s.toTerm(v)
		if err != nil {
			return err
		}
		if arr, ok := p.Elem.Underlying().(*types.Array); ok {
			key, sort := e.memKey(arr.Elem())
			s.heapSet(key, Store(s.heapGet(key, sort), p.Ref, t))
			return nil
		}
		if st, ok := p.Elem.Underlying().(*types.Struct); ok {
			for i := 0; i < st.NumFields(); i++ {
				key, sort := e.fieldKey(p.Elem, i)
				s.heapSet(key, Store(s.heapGet(key, sort), p.Ref, e.tm.FieldOf(p.Elem, t, i)))
			}
			return nil
		}
		key, sort := e.boxKey(p.Elem)
		s.heapSet(key, Store(s.heapGet(key, sort), p.Ref, t))
		return nil
	case pkField:
		t, err := s.toTerm(v)
		if err != nil {
			return err
		}
		if p.Base.Kind == pkObj {
			key, sort := e.fieldKey(p.Base.Elem, p.Field)
			s.heapSet(key, Store(s.heapGet(key, sort), p.Base.Ref, t))
			return nil
		}
		bv, err := s.load(p.Base)
		if err != nil {
			return err
		}
		bt, ok := bv.(Term)
		if !ok {
			return fmt.Errorf("field store into non-term struct")
		}
		nb := e.u.Define("st", e.tm.WithField(p.Base.Elem, bt, p.Field, t))
		return s.store(p.Base, nb)
	case pkElem:
		t, err := s.toTerm(v)
		if err != nil {
			return err
		}
		key, sort := e.memKey(p.Elem)
		h := s.heapGet(key, sort)
		s.heapSet(key, Store(h, p.Ref, Store(Select(h, p.Ref), p.Idx, t)))
		return nil
	case pkArrElem:
		t, err := s.toTerm(v)
		if err != nil {
			return err
		}
		bv, err := s.load(p.Base)
		if err != nil {
			return err
		}
		bt := bv.(Term)
		return s.store(p.Base, e.u.Define("arr", Store(bt, p.Idx, t)))
	}
	return fmt.Errorf("store: bad pointer kind")
}

// ---------------------------------------------------------------------------
// Misc helpers

func posString(fset *token.FileSet, p token.Pos) string {
	if !p.IsValid() {
		return "?"
	}
	ps := fset.Position(p)
	return fmt.Sprintf("%s:%d", strings.TrimPrefix(ps.Filename, repoDir+"/"), ps.Line)
}

func sortedKeys[V any](m map[string]V) []string {
	var ks []string
	for k := range m {
		ks = append(ks, k)
	}
	sort.Strings(ks)
	return ks
}
