package main

// Static control-flow clause
//
//	dominated [tag] Y#n by X#m        (Y#* = every call of Y in the function)
//
// Every call site Y#n of the function is dominated by the call site X#m: each path from the function entry to the
// call of Y passes through the call of X first (SSA dominator tree; inside one block, instruction order). Because
// a loop header dominates its body, this also holds per loop iteration when both calls are inside the same loop
// body: the stretch of any path from the last visit of the header to Y contains X (otherwise entering the loop
// for the first time and following that stretch would reach Y without X).
//
// Used to extend an SMT-proved assertion at X ("at X#m before assert ...") to a later call Y without exploring
// the code between them. Decided by the CFG analysis alone (no SMT query).

import (
	"fmt"
	"strings"

	"golang.org/x/tools/go/ssa"
)

type DomClause struct {
	SameIter bool // "... same_iteration": X lies inside every loop that contains Y (X is re-executed in each iteration that reaches Y)
	Tag   string
	Later string // Y#n | Y#*
	First string // X#m
	Src   string
}

func parseDomClause(rest string) (DomClause, error) {
	dc := DomClause{Src: rest}
	rest = strings.TrimSpace(rest)
	if strings.HasPrefix(rest, "[") {
		if k := strings.Index(rest, "]"); k > 0 {
			dc.Tag = rest[1:k]
			rest = strings.TrimSpace(rest[k+1:])
		}
	}
	f := strings.Fields(rest)
	if len(f) == 4 && f[3] == "same_iteration" {
		dc.SameIter = true
		f = f[:3]
	}
	if len(f) != 3 || f[1] != "by" || !strings.Contains(f[0], "#") || !strings.Contains(f[2], "#") {
		return dc, fmt.Errorf("dominated [tag] Y#n by X#m")
	}
	dc.Later, dc.First = f[0], f[2]
	return dc, nil
}

func (e *Engine) checkDominated(s *State, fn *ssa.Function, c *FuncContract) {
	for _, dc := range c.Doms {
		type site struct {
			in  ssa.Instruction
			blk *ssa.BasicBlock
			idx int
		}
		var firsts, laters []site
		for _, b := range fn.Blocks {
			for i, in := range b.Instrs {
				var cc *ssa.CallCommon
				switch x := in.(type) {
				case *ssa.Call:
					cc = x.Common()
				case *ssa.Defer:
					cc = x.Common()
				case *ssa.Go:
					cc = x.Common()
				}
				if cc == nil {
					continue
				}
				name := calleeShortName(cc)
				anchor := fmt.Sprintf("%s#%d", name, e.callOrdinal(in))
				if anchor == dc.First {
					firsts = append(firsts, site{in, b, i})
				}
				if anchor == dc.Later || name+"#*" == dc.Later {
					laters = append(laters, site{in, b, i})
				}
			}
		}
		ok := true
		why := ""
		if len(firsts) != 1 {
			ok, why = false, fmt.Sprintf("%d call sites match %s", len(firsts), dc.First)
		}
		if len(laters) == 0 {
			ok, why = false, "no call site matches "+dc.Later
		}
		if ok {
			x := firsts[0]
			for _, y := range laters {
				if x.blk == y.blk {
					if x.idx >= y.idx {
						ok, why = false, fmt.Sprintf("%s at %s is not preceded by %s in its block", dc.Later, posString(e.fset, y.in.Pos()), dc.First)
					}
				} else if !x.blk.Dominates(y.blk) {
					ok, why = false, fmt.Sprintf("the call %s at %s can be reached without passing %s", dc.Later, posString(e.fset, y.in.Pos()), dc.First)
				}
				if ok && dc.SameIter {
					for _, li := range e.loopsOf(fn).Loops {
						if li.Blocks[y.blk] && !li.Blocks[x.blk] {
							ok, why = false, fmt.Sprintf("the call %s at %s is inside loop %d but %s is outside it: its answer is not renewed in each iteration", dc.Later, posString(e.fset, y.in.Pos()), li.Ordinal, dc.First)
						}
					}
				}
			}
		}
		goal := TTrue
		if !ok {
			goal = TFalse
		}
		name := fmt.Sprintf("%s#dominated:%s", e.rootKey, dc.Tag)
		s.addObligation("frame", name, dc.Tag, fn.Pos(), goal, "every call "+dc.Later+" is dominated by the call "+dc.First+" "+why)
		if !ok {
			e.obligations[len(e.obligations)-1].Result = &SolverResult{Status: "sat", Solver: "static-cfg-analysis", Output: why}
		}
	}
}
