package main

// Contract files: comment-only Go files (//go:build verif) inside the package
// they describe, plus /verif/spec/*.spec files for externals. Only lines that
// start with "//@" are read.

import (
	"fmt"
	"go/scanner"
	"go/token"
	"math/big"
	"os"
	"strconv"
	"strings"
)

// activeProperty: id of the property being checked ("" in debug / funcs: every clause is read); see only_for.
var activeProperty = os.Getenv("GOVC_PROP")

// ---------------------------------------------------------------------------
// Expression AST

type Expr interface{}

type EIdent struct{ Name string }
type EInt struct{ Val *big.Int }
type EStr struct{ Val string }
type EBool struct{ Val bool }
type ENil struct{}
type EUnary struct {
	Op string
	X  Expr
}
type EBinary struct {
	Op   string
	X, Y Expr
}
type ESel struct {
	X    Expr
	Name string
}
type EIndex struct{ X, I Expr }
type ESlice struct{ X, Lo, Hi Expr }
type ECall struct {
	Fun  string
	Args []Expr
}
type QVar struct{ Name, Type string }
type EQuant struct {
	Forall bool
	Vars   []QVar
	Body   Expr
	// Pats: optional explicit instantiation patterns, Dafny style: forall k int :: {f(k), g(k)} {h(k)} body
	// (each brace group is one multi-pattern; groups are alternatives). Without them the solver chooses.
	Pats [][]Expr
}
type ELet struct {
	Name string
	Val  Expr
	Body Expr
}

// ---------------------------------------------------------------------------
// Contracts

type Clause struct {
	Tag  string // e.g. C04.floor
	Expr Expr
	Src  string
	File string
	Line int
}

type LoopContract struct {
	Invariants []Clause
	Decreases  *Clause
	Bounded    int
}

type AtClause struct {
	Anchor string // callee#n | return#n
	When   string // before | after
	Kind   string // assert | assume | set
	Target string // for set: ghost name
	Clause Clause
}

type GhostDecl struct {
	Name string
	Type string
	Init Expr
}

type FuncContract struct {
	Key      string
	File     string
	Requires []Clause
	// RepInv: representation invariant of the receiver's package-private state: assumed at root entry, asserted at
	// call sites inside the declaring package, not demanded from callers in other packages (see calls_ops.go)
	RepInv   []Clause
	// Doms: static control-flow clauses "dominated [tag] Y#n by X#m" (see dom_ops.go)
	Doms []DomClause
	Ensures  []Clause
	Loops    map[int]*LoopContract
	Nullable map[string]bool
	Ats      []AtClause
	Ghosts   []GhostDecl
	Flags    map[string]string
	Assigns  []string
	Extern   bool
	Params   []QVar // for extern/spec
	Results  []QVar
	// Guards: static guard clauses (guards.go)
	Guards  []*GuardClause
	Callers []*CallersClause
	// MoreFiles: further contract files that add clauses to this function
	MoreFiles []string
	// loop-carried ghost variables per loop ordinal ("loop N modifies g, h"): havocked at the loop head
	LoopGhosts map[int][]string
}

type SpecFunc struct {
	Name   string
	Params []QVar
	Ret    string
	Body   Expr // nil => uninterpreted
	Src    string
	File   string
	Line   int
	Pkg    string // import path of the package whose contract file declares it
	Opaque bool   // uninterpreted unless the root under proof says "reveal <name>"
}

type Axiom struct {
	Name   string
	Clause Clause
	Syms   []string // symbols the axiom is attached to ("" => always)
}

type TypeContract struct {
	Name        string
	ProtectedBy map[string][]string // mutex -> fields
	Immutable   []string
	Inv         []Clause
	Sync        []string            // synchronisation objects / self-synchronised members
	OwnerLock   map[string][]string // "Type.mu" -> fields guarded by the owning container's lock
	Complete    bool
	Writers     map[string][]string // field -> the only functions (short names) that may write it (closed world)
}

type ContractSet struct {
	Funcs  map[string]*FuncContract
	Specs  map[string]*SpecFunc
	Axioms []*Axiom
	Types  map[string]*TypeContract
	Files  []string
	Lemmas []*Lemma
	// mechanical scan results
	Trusted []string
}

func NewContractSet() *ContractSet {
	return &ContractSet{Funcs: map[string]*FuncContract{}, Specs: map[string]*SpecFunc{}, Types: map[string]*TypeContract{}}
}

var clauseKeywords = map[string]bool{
	"func": true, "extern": true, "spec": true, "axiom": true, "type": true, "lemma": true, "guarded": true, "guarded_where": true, "go_inline": true, "static_only": true, "only_callers": true, "solver_budget": true, "exact_strings": true, "preserves": true,
	"requires": true, "ensures": true, "loop": true, "nullable": true, "at": true,
	"ghost": true, "assigns": true, "modular": true, "inline": true, "trusted": true,
	"mode": true, "alloc_bound": true, "pure": true, "protected_by": true, "immutable": true,
	"inv": true, "opaque": true, "havoc": true, "noinline": true, "bounded": true, "returns_fresh": true, "fresh_result": true, "deep_closedness": true,
	"only_for": true, "bitprecise": true,
	"sweep": true, "cover": true, "replay_hint": true, "never_writes": true, "frame_only": true, "reveal": true, "iface_calls_only": true, "direct_calls_only": true,
	"requires_held": true, "same_critical_section": true, "writers": true, "never_calls": true, "append_only": true, "no_early_exit": true, "spawn_never_writes": true, "unshared_receiver": true, "sync": true, "owner_lock": true, "complete": true,
	"rep_invariant": true, "nested_closedness": true, "dominated": true, "writes_unconditionally": true, "reads_only": true, "deterministic": true,
	"lean_invariants": true, "lock_havoc": true, "every_iteration_calls": true, "field_called_only_here": true, "exact_format_int": true,
}

// ParseContractFile reads one file and adds its declarations to cs. pkgKey is
// prefixed to function keys ("" for spec files that use full names).
func (cs *ContractSet) ParseContractFile(path string, pkgPath string) error {
	data, err := os.ReadFile(path)
	if err != nil {
		return err
	}
	cs.Files = append(cs.Files, path)
	type ln struct {
		text string
		no   int
	}
	var lines []ln
	for i, l := range strings.Split(string(data), "\n") {
		t := strings.TrimSpace(l)
		if !strings.HasPrefix(t, "//@") {
			continue
		}
		t = strings.TrimSpace(t[3:])
		if t == "" {
			continue
		}
		// strip trailing comment " // ..."
		if k := strings.Index(t, " // "); k >= 0 {
			t = strings.TrimSpace(t[:k])
		}
		first := t
		if k := strings.IndexAny(t, " \t"); k >= 0 {
			first = t[:k]
		}
		if !clauseKeywords[strings.TrimSuffix(first, ":")] && len(lines) > 0 {
			lines[len(lines)-1].text += " " + t
			continue
		}
		lines = append(lines, ln{t, i + 1})
	}
	var cur *FuncContract
	var curType *TypeContract
	var lastSpec *SpecFunc
	// only_for Cnn[, Cmm]: the clauses that follow in this function block are read only when the property being
	// checked is one of the listed ones (activeProperty == "" reads everything: debug, funcs). Lets one property
	// add clauses to a function that is also a root of another property without changing that property's
	// obligations.
	var curOnly map[string]bool
	for _, l := range lines {
		word, rest := splitWord(l.text)
		switch word {
		case "func", "extern", "type", "spec", "axiom":
			curOnly = nil
		case "only_for":
			if cur == nil {
				return fmt.Errorf("%s:%d: only_for outside func", path, l.no)
			}
			curOnly = map[string]bool{}
			for _, id := range strings.Split(rest, ",") {
				curOnly[strings.TrimSpace(id)] = true
			}
			continue
		default:
			if cur != nil && curOnly != nil && activeProperty != "" && !curOnly[activeProperty] {
				continue
			}
		}
		if strings.HasSuffix(word, ":") && clauseKeywords[strings.TrimSuffix(word, ":")] {
			word, rest = strings.TrimSuffix(word, ":"), ":"+rest
		}
		mkClause := func(s string) (Clause, error) {
			tag := ""
			s = strings.TrimSpace(s)
			if strings.HasPrefix(s, "[") {
				k := strings.Index(s, "]")
				if k > 0 {
					tag = s[1:k]
					s = strings.TrimSpace(s[k+1:])
				}
			}
			e, err := ParseExpr(s)
			if err != nil {
				return Clause{}, fmt.Errorf("%s:%d: %v in %q", path, l.no, err, s)
			}
			return Clause{Tag: tag, Expr: e, Src: s, File: path, Line: l.no}, nil
		}
		switch word {
		case "func", "extern":
			curType = nil
			extern := word == "extern"
			if extern {
				w2, r2 := splitWord(rest)
				if w2 != "func" {
					return fmt.Errorf("%s:%d: expected 'extern func'", path, l.no)
				}
				rest = r2
			}
			key, params, results, err := parseFuncHead(rest)
			if err != nil {
				return fmt.Errorf("%s:%d: %v", path, l.no, err)
			}
			if !extern && pkgPath != "" {
				key = pkgPath + "." + key
			}
			if old, ok := cs.Funcs[key]; ok {
				// the same function may carry clauses in several contract files (one per property): they are merged;
				// a second block in the SAME file is still an error
				if old.File == path || old.Extern != extern {
					return fmt.Errorf("%s:%d: duplicate contract for %s (also in %s)", path, l.no, key, old.File)
				}
				cur = old
				if len(cur.Params) == 0 {
					cur.Params, cur.Results = params, results
				}
				cur.MoreFiles = append(cur.MoreFiles, path)
				break
			}
			cur = &FuncContract{Key: key, File: path, Loops: map[int]*LoopContract{}, Nullable: map[string]bool{}, Flags: map[string]string{}, Extern: extern, Params: params, Results: results}
			cs.Funcs[key] = cur
		case "type":
			cur = nil
			name := strings.TrimSpace(rest)
			if pkgPath != "" {
				name = pkgPath + "." + name
			}
			if prev, ok := cs.Types[name]; ok {
				// a second block for the same type (another property's file) adds to the first
				curType = prev
			} else {
				curType = &TypeContract{Name: name, ProtectedBy: map[string][]string{}, OwnerLock: map[string][]string{}, Writers: map[string][]string{}}
				cs.Types[name] = curType
			}
		case "protected_by":
			if curType == nil {
				return fmt.Errorf("%s:%d: protected_by outside type", path, l.no)
			}
			k := strings.Index(rest, ":")
			if k < 0 {
				return fmt.Errorf("%s:%d: protected_by mu: fields", path, l.no)
			}
			mu := strings.TrimSpace(rest[:k])
			for _, f := range strings.Split(rest[k+1:], ",") {
				curType.ProtectedBy[mu] = append(curType.ProtectedBy[mu], strings.TrimSpace(f))
			}
		case "immutable":
			if curType == nil {
				return fmt.Errorf("%s:%d: immutable outside type", path, l.no)
			}
			rest = strings.TrimPrefix(strings.TrimSpace(rest), ":")
			for _, f := range strings.Split(rest, ",") {
				curType.Immutable = append(curType.Immutable, strings.TrimSpace(f))
			}
		case "sync":
			if curType == nil {
				return fmt.Errorf("%s:%d: sync outside type", path, l.no)
			}
			rest = strings.TrimPrefix(strings.TrimSpace(rest), ":")
			for _, f := range strings.Split(rest, ",") {
				curType.Sync = append(curType.Sync, strings.TrimSpace(f))
			}
		case "owner_lock":
			if curType == nil {
				return fmt.Errorf("%s:%d: owner_lock outside type", path, l.no)
			}
			k := strings.Index(rest, ":")
			if k < 0 {
				return fmt.Errorf("%s:%d: owner_lock Type.mu: fields", path, l.no)
			}
			ow := strings.TrimSpace(rest[:k])
			for _, f := range strings.Split(rest[k+1:], ",") {
				curType.OwnerLock[ow] = append(curType.OwnerLock[ow], strings.TrimSpace(f))
			}
		case "writers":
			if curType == nil {
				return fmt.Errorf("%s:%d: writers outside type", path, l.no)
			}
			k := strings.Index(rest, ":")
			if k < 0 {
				return fmt.Errorf("%s:%d: writers field: f1, f2", path, l.no)
			}
			fld := strings.TrimSpace(rest[:k])
			for _, f := range strings.Split(rest[k+1:], ",") {
				curType.Writers[fld] = append(curType.Writers[fld], strings.TrimSpace(f))
			}
		case "complete":
			if curType == nil {
				return fmt.Errorf("%s:%d: complete outside type", path, l.no)
			}
			curType.Complete = true
		case "inv":
			if curType == nil {
				return fmt.Errorf("%s:%d: inv outside type", path, l.no)
			}
			c, err := mkClause(rest)
			if err != nil {
				return err
			}
			curType.Inv = append(curType.Inv, c)
		case "spec":
			cur, curType = nil, nil
			w2, r2 := splitWord(rest)
			if w2 != "func" {
				return fmt.Errorf("%s:%d: expected 'spec func'", path, l.no)
			}
			sf, err := parseSpecFunc(r2)
			if err != nil {
				return fmt.Errorf("%s:%d: %v", path, l.no, err)
			}
			sf.File, sf.Line, sf.Pkg = path, l.no, pkgPath
			cs.Specs[sf.Name] = sf
			lastSpec = sf
		case "lemma":
			// lemma [tag] forall x T, ... :: body   (proved by SMT; see bmain.go RunLemma)
			cur, curType = nil, nil
			c, err := mkClause(rest)
			if err != nil {
				return err
			}
			if c.Tag == "" {
				return fmt.Errorf("%s:%d: lemma needs a [tag]", path, l.no)
			}
			cs.Lemmas = append(cs.Lemmas, &Lemma{Tag: c.Tag, Clause: c, Pkg: pkgPath})
		case "axiom":
			cur, curType = nil, nil
			k := strings.Index(rest, ":")
			if k < 0 {
				return fmt.Errorf("%s:%d: axiom name: expr", path, l.no)
			}
			head := strings.TrimSpace(rest[:k])
			// head: name [on sym,sym]
			name := head
			var syms []string
			if j := strings.Index(head, " on "); j >= 0 {
				name = strings.TrimSpace(head[:j])
				for _, s := range strings.Split(head[j+4:], ",") {
					syms = append(syms, strings.TrimSpace(s))
				}
			}
			c, err := mkClause(rest[k+1:])
			if err != nil {
				return err
			}
			cs.Axioms = append(cs.Axioms, &Axiom{Name: name, Clause: c, Syms: syms})
			cs.Trusted = append(cs.Trusted, fmt.Sprintf("axiom %s (%s:%d)", name, path, l.no))
		default:
			if word == "opaque" && cur == nil && lastSpec != nil {
				lastSpec.Opaque = true
				continue
			}
			if cur == nil {
				return fmt.Errorf("%s:%d: clause %q outside func", path, l.no, word)
			}
			switch word {
			case "requires":
				c, err := mkClause(rest)
				if err != nil {
					return err
				}
				cur.Requires = append(cur.Requires, c)
			case "dominated":
				dc, err := parseDomClause(rest)
				if err != nil {
					return fmt.Errorf("%s:%d: %v", path, l.no, err)
				}
				cur.Doms = append(cur.Doms, dc)
			case "rep_invariant":
				c, err := mkClause(rest)
				if err != nil {
					return err
				}
				cur.RepInv = append(cur.RepInv, c)
			case "ensures":
				c, err := mkClause(rest)
				if err != nil {
					return err
				}
				cur.Ensures = append(cur.Ensures, c)
			case "loop":
				ns, r2 := splitWord(rest)
				n, err := strconv.Atoi(ns)
				if err != nil {
					return fmt.Errorf("%s:%d: loop ordinal: %v", path, l.no, err)
				}
				lc := cur.Loops[n]
				if lc == nil {
					lc = &LoopContract{}
					cur.Loops[n] = lc
				}
				kind, r3 := splitWord(r2)
				switch kind {
				case "invariant":
					c, err := mkClause(r3)
					if err != nil {
						return err
					}
					lc.Invariants = append(lc.Invariants, c)
				case "decreases":
					c, err := mkClause(r3)
					if err != nil {
						return err
					}
					lc.Decreases = &c
				case "modifies":
					// loop-carried ghost variables: arbitrary at the head of an arbitrary iteration (constrained by the invariant only)
					if cur.LoopGhosts == nil {
						cur.LoopGhosts = map[int][]string{}
					}
					for _, g := range strings.Split(r3, ",") {
						if g = strings.TrimSpace(g); g != "" {
							cur.LoopGhosts[n] = append(cur.LoopGhosts[n], g)
						}
					}
				case "bounded":
					k, err := strconv.Atoi(strings.TrimSpace(r3))
					if err != nil {
						return fmt.Errorf("%s:%d: bounded k", path, l.no)
					}
					lc.Bounded = k
					cs.Trusted = append(cs.Trusted, fmt.Sprintf("bounded %d loop %d of %s (%s:%d)", k, n, cur.Key, path, l.no))
				default:
					return fmt.Errorf("%s:%d: unknown loop clause %q", path, l.no, kind)
				}
			case "nullable":
				for _, p := range strings.Split(rest, ",") {
					cur.Nullable[strings.TrimSpace(p)] = true
				}
			case "at":
				// at <anchor> [before|after] assert|assume|set ...
				anchor, r2 := splitWord(rest)
				when := "before"
				w, r3 := splitWord(r2)
				if w == "before" || w == "after" {
					when = w
					w, r3 = splitWord(r3)
				}
				ac := AtClause{Anchor: anchor, When: when, Kind: w}
				switch w {
				case "assert", "assume":
					c, err := mkClause(r3)
					if err != nil {
						return err
					}
					ac.Clause = c
					if w == "assume" {
						cs.Trusted = append(cs.Trusted, fmt.Sprintf("assume at %s in %s: %s (%s:%d)", anchor, cur.Key, c.Src, path, l.no))
					}
				case "set":
					k := strings.Index(r3, "=")
					if k < 0 {
						return fmt.Errorf("%s:%d: at ... set g = e", path, l.no)
					}
					ac.Target = strings.TrimSpace(r3[:k])
					c, err := mkClause(r3[k+1:])
					if err != nil {
						return err
					}
					ac.Clause = c
				case "stop":
					// "stop [Cnn]": the cut applies only while property Cnn is being checked (contract blocks of one
					// function are merged across properties; an unscoped stop cuts every property's exploration)
					if t := strings.Trim(strings.TrimSpace(r3), "[]"); t != "" {
						ac.Clause.Tag = t
					}
				case "havoc":
					// at callee#n havoc: at this call site only, do not inline the (first-party) callee: havoc its
					// write set and take an arbitrary result (sound over-approximation; see calls_ops.go)
				case "start":
					// at <anchor> before|after start   (cut.go)
				case "cut":
					// at <anchor> before cut [tag] [invariant]   (cut.go)
					if strings.TrimSpace(r3) != "" {
						c, err := mkClause(r3)
						if err != nil {
							return err
						}
						ac.Clause = c
					}
				default:
					return fmt.Errorf("%s:%d: unknown at-kind %q", path, l.no, w)
				}
				cur.Ats = append(cur.Ats, ac)
			case "ghost":
				// ghost name type = init
				name, r2 := splitWord(rest)
				k := strings.Index(r2, "=")
				if k < 0 {
					return fmt.Errorf("%s:%d: ghost name type = init", path, l.no)
				}
				e, err := ParseExpr(strings.TrimSpace(r2[k+1:]))
				if err != nil {
					return fmt.Errorf("%s:%d: %v", path, l.no, err)
				}
				cur.Ghosts = append(cur.Ghosts, GhostDecl{Name: name, Type: strings.TrimSpace(r2[:k]), Init: e})
			case "assigns":
				for _, p := range strings.Split(rest, ",") {
					cur.Assigns = append(cur.Assigns, strings.TrimSpace(p))
				}
				cur.Flags["assigns"] = "1"
			case "preserves":
				// trusted frame: the function may write anything EXCEPT the listed heap regions (bmain.go)
				if cur.Flags["preserves"] != "" {
					cur.Flags["preserves"] += ", "
				}
				cur.Flags["preserves"] += strings.TrimSpace(rest)
				cs.Trusted = append(cs.Trusted, fmt.Sprintf("trusted frame of %s: preserves %s (%s:%d)", cur.Key, strings.TrimSpace(rest), path, l.no))
			case "only_callers":
				cc, err := parseCallersClause(rest)
				if err != nil {
					return fmt.Errorf("%s:%d: %v", path, l.no, err)
				}
				cur.Callers = append(cur.Callers, cc)
			case "static_only":
				// static_only Cnn [Cmm ...]: while one of these properties is checked, only the static clauses of this
				// function are evaluated (no symbolic execution of its body); other properties are unaffected
				cur.Flags["static_only"] = strings.TrimSpace(cur.Flags["static_only"] + " " + rest)
			case "guarded", "guarded_where":
				g, err := parseGuardClause(rest, path, l.no)
				if err != nil {
					return fmt.Errorf("%s:%d: %v", path, l.no, err)
				}
				g.Selective = word == "guarded_where"
				cur.Guards = append(cur.Guards, g)
			case "trusted":
				cur.Flags["trusted"] = "1"
				cs.Trusted = append(cs.Trusted, fmt.Sprintf("trusted contract %s (%s:%d)", cur.Key, path, l.no))
			default:
				val := strings.TrimSpace(rest)
				if val == "" {
					val = "1"
				}
				if prev, ok := cur.Flags[word]; ok && prev != val && len(cur.MoreFiles) > 0 {
					return fmt.Errorf("%s:%d: %s of %s is already set to %q in %s", path, l.no, word, cur.Key, prev, cur.File)
				}
				cur.Flags[word] = val
			}
		}
	}
	return nil
}

func splitWord(s string) (string, string) {
	s = strings.TrimSpace(s)
	k := strings.IndexAny(s, " \t")
	if k < 0 {
		return s, ""
	}
	return s[:k], strings.TrimSpace(s[k+1:])
}

// parseFuncHead parses "(r *byteReader) read" / "ParseRequestHeader" /
// "encoding/binary.Uvarint(buf []byte) (v uint64, n int)".
func parseFuncHead(s string) (key string, params, results []QVar, err error) {
	s = strings.TrimSpace(s)
	if strings.HasPrefix(s, "(") {
		k := strings.Index(s, ")")
		if k < 0 {
			return "", nil, nil, fmt.Errorf("bad receiver in %q", s)
		}
		recv := strings.Fields(s[1:k])
		rt := recv[len(recv)-1]
		rt = strings.TrimPrefix(rt, "*")
		rest := strings.TrimSpace(s[k+1:])
		name := rest
		if j := strings.Index(rest, "("); j >= 0 {
			name = strings.TrimSpace(rest[:j])
			params, results, err = parseSig(rest[j:])
		}
		return rt + "." + name, params, results, err
	}
	name := s
	if j := strings.Index(s, "("); j >= 0 {
		name = strings.TrimSpace(s[:j])
		params, results, err = parseSig(s[j:])
	}
	return name, params, results, err
}

// parseSig parses "(a T, b U) (r V, e W)" or "(a T) V".
func parseSig(s string) (params, results []QVar, err error) {
	s = strings.TrimSpace(s)
	depth := 0
	end := -1
	for i, c := range s {
		if c == '(' {
			depth++
		} else if c == ')' {
			depth--
			if depth == 0 {
				end = i
				break
			}
		}
	}
	if end < 0 {
		return nil, nil, fmt.Errorf("bad signature %q", s)
	}
	params = parseVarList(s[1:end])
	rest := strings.TrimSpace(s[end+1:])
	if rest == "" {
		return
	}
	if strings.HasPrefix(rest, "(") {
		results = parseVarList(rest[1:strings.LastIndex(rest, ")")])
	} else {
		results = []QVar{{Name: "result", Type: rest}}
	}
	return
}

func parseVarList(s string) []QVar {
	var out []QVar
	for _, p := range splitTop(s, ',') {
		p = strings.TrimSpace(p)
		if p == "" {
			continue
		}
		k := strings.IndexAny(p, " \t")
		if k < 0 {
			out = append(out, QVar{Name: "_", Type: p})
			continue
		}
		out = append(out, QVar{Name: p[:k], Type: strings.TrimSpace(p[k+1:])})
	}
	return out
}

func splitTop(s string, sep byte) []string {
	var out []string
	depth := 0
	last := 0
	for i := 0; i < len(s); i++ {
		switch s[i] {
		case '(', '[', '{':
			depth++
		case ')', ']', '}':
			depth--
		default:
			if s[i] == sep && depth == 0 {
				out = append(out, s[last:i])
				last = i + 1
			}
		}
	}
	out = append(out, s[last:])
	return out
}

func parseSpecFunc(s string) (*SpecFunc, error) {
	// name(params) ret [= body]
	j := strings.Index(s, "(")
	if j < 0 {
		return nil, fmt.Errorf("spec func needs params: %q", s)
	}
	name := strings.TrimSpace(s[:j])
	depth := 0
	end := -1
	for i := j; i < len(s); i++ {
		if s[i] == '(' {
			depth++
		} else if s[i] == ')' {
			depth--
			if depth == 0 {
				end = i
				break
			}
		}
	}
	if end < 0 {
		return nil, fmt.Errorf("bad spec func %q", s)
	}
	sf := &SpecFunc{Name: name, Params: parseVarList(s[j+1 : end]), Src: s}
	rest := strings.TrimSpace(s[end+1:])
	if k := strings.Index(rest, "="); k >= 0 && !strings.HasPrefix(rest[k:], "==") {
		sf.Ret = strings.TrimSpace(rest[:k])
		e, err := ParseExpr(strings.TrimSpace(rest[k+1:]))
		if err != nil {
			return nil, err
		}
		sf.Body = e
	} else {
		sf.Ret = rest
	}
	return sf, nil
}

// ---------------------------------------------------------------------------
// Expression parser (Pratt)

type tok struct {
	t   token.Token
	lit string
	pos int
	// synthetic
	imp bool // ==>
}

type eparser struct {
	toks []tok
	i    int
	src  string
}

func ParseExpr(src string) (Expr, error) {
	fs := token.NewFileSet()
	f := fs.AddFile("", fs.Base(), len(src))
	var s scanner.Scanner
	var errs []string
	s.Init(f, []byte(src), func(pos token.Position, msg string) { errs = append(errs, msg) }, 0)
	p := &eparser{src: src}
	for {
		pos, t, lit := s.Scan()
		if t == token.EOF {
			break
		}
		if t == token.SEMICOLON && lit == "\n" {
			continue
		}
		p.toks = append(p.toks, tok{t: t, lit: lit, pos: int(pos) - f.Base()})
	}
	if len(errs) > 0 {
		return nil, fmt.Errorf("scan: %s", strings.Join(errs, "; "))
	}
	// merge "==" ">" into ==>
	var out []tok
	for i := 0; i < len(p.toks); i++ {
		if p.toks[i].t == token.EQL && i+1 < len(p.toks) && p.toks[i+1].t == token.GTR && p.toks[i+1].pos == p.toks[i].pos+2 {
			out = append(out, tok{t: token.ARROW, imp: true, pos: p.toks[i].pos})
			i++
			continue
		}
		out = append(out, p.toks[i])
	}
	p.toks = out
	e, err := p.parseExpr(0)
	if err != nil {
		return nil, err
	}
	if p.i < len(p.toks) {
		return nil, fmt.Errorf("unexpected token %q at %d", p.toks[p.i].t.String()+p.toks[p.i].lit, p.toks[p.i].pos)
	}
	return e, nil
}

func (p *eparser) peek() tok {
	if p.i < len(p.toks) {
		return p.toks[p.i]
	}
	return tok{t: token.EOF}
}
func (p *eparser) next() tok { t := p.peek(); p.i++; return t }

func binPrec(t tok) (int, string) {
	if t.imp {
		return 1, "==>"
	}
	switch t.t {
	case token.LOR:
		return 2, "||"
	case token.LAND:
		return 3, "&&"
	case token.EQL:
		return 4, "=="
	case token.NEQ:
		return 4, "!="
	case token.LSS:
		return 4, "<"
	case token.LEQ:
		return 4, "<="
	case token.GTR:
		return 4, ">"
	case token.GEQ:
		return 4, ">="
	case token.ADD:
		return 5, "+"
	case token.SUB:
		return 5, "-"
	case token.OR:
		return 5, "|"
	case token.XOR:
		return 5, "^"
	case token.MUL:
		return 6, "*"
	case token.QUO:
		return 6, "/"
	case token.REM:
		return 6, "%"
	case token.SHL:
		return 6, "<<"
	case token.SHR:
		return 6, ">>"
	case token.AND:
		return 6, "&"
	}
	return 0, ""
}

func (p *eparser) parseExpr(minPrec int) (Expr, error) {
	// quantifiers and let bind loosest
	t := p.peek()
	if t.t == token.IDENT && (t.lit == "forall" || t.lit == "exists") && p.i+1 < len(p.toks) && p.toks[p.i+1].t == token.IDENT {
		p.next()
		q := &EQuant{Forall: t.lit == "forall"}
		for {
			name := p.next()
			if name.t != token.IDENT {
				return nil, fmt.Errorf("quantifier: expected variable name")
			}
			// type tokens until ',' or '::'
			var ty strings.Builder
			for {
				n := p.peek()
				if n.t == token.EOF {
					return nil, fmt.Errorf("quantifier: missing ::")
				}
				if n.t == token.COMMA {
					break
				}
				if n.t == token.COLON && p.i+1 < len(p.toks) && p.toks[p.i+1].t == token.COLON {
					break
				}
				p.next()
				if n.lit != "" {
					ty.WriteString(n.lit)
				} else {
					ty.WriteString(n.t.String())
				}
			}
			q.Vars = append(q.Vars, QVar{Name: name.lit, Type: ty.String()})
			if p.peek().t == token.COMMA {
				p.next()
				continue
			}
			p.next()
			p.next() // ::
			break
		}
		for p.peek().t == token.LBRACE {
			p.next()
			var group []Expr
			for {
				pe, err := p.parseExpr(0)
				if err != nil {
					return nil, err
				}
				group = append(group, pe)
				if p.peek().t == token.COMMA {
					p.next()
					continue
				}
				break
			}
			if p.next().t != token.RBRACE {
				return nil, fmt.Errorf("quantifier pattern: expected }")
			}
			q.Pats = append(q.Pats, group)
		}
		body, err := p.parseExpr(0)
		if err != nil {
			return nil, err
		}
		q.Body = body
		return q, nil
	}
	if t.t == token.IDENT && t.lit == "let" && p.i+2 < len(p.toks) && p.toks[p.i+1].t == token.IDENT && p.toks[p.i+2].t == token.ASSIGN {
		p.next()
		name := p.next()
		p.next()
		val, err := p.parseExpr(2)
		if err != nil {
			return nil, err
		}
		in := p.next()
		if !(in.t == token.IDENT && in.lit == "in") {
			return nil, fmt.Errorf("let: expected 'in'")
		}
		body, err := p.parseExpr(0)
		if err != nil {
			return nil, err
		}
		return &ELet{Name: name.lit, Val: val, Body: body}, nil
	}
	lhs, err := p.parseUnary()
	if err != nil {
		return nil, err
	}
	for {
		prec, op := binPrec(p.peek())
		if prec == 0 || prec < minPrec {
			break
		}
		p.next()
		var rhs Expr
		if op == "==>" {
			rhs, err = p.parseExpr(prec) // right assoc
		} else {
			rhs, err = p.parseExpr(prec + 1)
		}
		if err != nil {
			return nil, err
		}
		lhs = &EBinary{Op: op, X: lhs, Y: rhs}
	}
	return lhs, nil
}

func (p *eparser) parseUnary() (Expr, error) {
	t := p.peek()
	switch t.t {
	case token.NOT:
		p.next()
		x, err := p.parseUnary()
		if err != nil {
			return nil, err
		}
		return &EUnary{Op: "!", X: x}, nil
	case token.SUB:
		p.next()
		x, err := p.parseUnary()
		if err != nil {
			return nil, err
		}
		return &EUnary{Op: "-", X: x}, nil
	case token.MUL:
		p.next()
		x, err := p.parseUnary()
		if err != nil {
			return nil, err
		}
		return &EUnary{Op: "*", X: x}, nil
	}
	return p.parsePostfix()
}

func (p *eparser) parsePostfix() (Expr, error) {
	x, err := p.parsePrimary()
	if err != nil {
		return nil, err
	}
	for {
		t := p.peek()
		switch t.t {
		case token.PERIOD:
			p.next()
			n := p.next()
			if n.t != token.IDENT {
				return nil, fmt.Errorf("selector: expected identifier")
			}
			// package-qualified call: pkg.Func(...) handled as selector then call
			x = &ESel{X: x, Name: n.lit}
		case token.LBRACK:
			p.next()
			var lo, hi Expr
			if p.peek().t != token.COLON {
				lo, err = p.parseExpr(0)
				if err != nil {
					return nil, err
				}
			}
			if p.peek().t == token.COLON {
				p.next()
				if p.peek().t != token.RBRACK {
					hi, err = p.parseExpr(0)
					if err != nil {
						return nil, err
					}
				}
				if p.next().t != token.RBRACK {
					return nil, fmt.Errorf("expected ]")
				}
				x = &ESlice{X: x, Lo: lo, Hi: hi}
			} else {
				if p.next().t != token.RBRACK {
					return nil, fmt.Errorf("expected ]")
				}
				x = &EIndex{X: x, I: lo}
			}
		case token.LPAREN:
			// call
			name := ""
			switch f := x.(type) {
			case *EIdent:
				name = f.Name
			case *ESel:
				if id, ok := f.X.(*EIdent); ok {
					name = id.Name + "." + f.Name
				}
			}
			if name == "" {
				return nil, fmt.Errorf("call of non-identifier")
			}
			p.next()
			var args []Expr
			for p.peek().t != token.RPAREN {
				a, err := p.parseExpr(0)
				if err != nil {
					return nil, err
				}
				args = append(args, a)
				if p.peek().t == token.COMMA {
					p.next()
				} else if p.peek().t != token.RPAREN {
					return nil, fmt.Errorf("expected , or ) in call")
				}
			}
			p.next()
			x = &ECall{Fun: name, Args: args}
		default:
			return x, nil
		}
	}
}

func (p *eparser) parsePrimary() (Expr, error) {
	t := p.next()
	switch t.t {
	case token.INT:
		v, ok := new(big.Int).SetString(t.lit, 0)
		if !ok {
			return nil, fmt.Errorf("bad int %q", t.lit)
		}
		return &EInt{Val: v}, nil
	case token.CHAR:
		r, _, _, err := strconv.UnquoteChar(t.lit[1:len(t.lit)-1], '\'')
		if err != nil {
			return nil, err
		}
		return &EInt{Val: big.NewInt(int64(r))}, nil
	case token.STRING:
		s, err := strconv.Unquote(t.lit)
		if err != nil {
			return nil, err
		}
		return &EStr{Val: s}, nil
	case token.IDENT:
		switch t.lit {
		case "true":
			return &EBool{true}, nil
		case "false":
			return &EBool{false}, nil
		case "nil":
			return &ENil{}, nil
		}
		return &EIdent{Name: t.lit}, nil
	case token.LPAREN:
		e, err := p.parseExpr(0)
		if err != nil {
			return nil, err
		}
		if p.next().t != token.RPAREN {
			return nil, fmt.Errorf("expected )")
		}
		return e, nil
	case token.FUNC, token.TYPE, token.MAP, token.RANGE, token.RETURN, token.VAR:
		// keywords usable as identifiers in specs (e.g. "range")
		return &EIdent{Name: t.t.String()}, nil
	}
	return nil, fmt.Errorf("unexpected token %q at %d in %q", t.t.String()+" "+t.lit, t.pos, p.src)
}
