package main

// Model of bytes.Buffer used as an append-only byte sink (trusted): per buffer ref a ghost
//   len  - number of bytes written so far (nothing is ever read back through Read/Next in the modelled uses)
//   data - the bytes, data[0 .. len)
// Write / WriteString / binary.Write(buf, BigEndian, fixed-size integer) append and never fail; Len() is len;
// Bytes() returns a snapshot of data[0 .. len) in a fresh backing array. The real Bytes() aliases the buffer's
// storage: the snapshot is faithful as long as the buffer is not written after Bytes() (checked: a write to a
// buffer whose Bytes() were taken raises a #model obligation) and callers do not write through the result while
// they still use the buffer. Any other Buffer method forgets the ghost state of all buffers.

import (
	"fmt"
	"go/token"
	"go/types"
	"strings"

	"golang.org/x/tools/go/ssa"
)

const (
	gBufLen    = "G|bytesbuf.len"
	gBufData   = "G|bytesbuf.data"
	gBufFrozen = "G|bytesbuf.frozen"
)

const bufTrust = "bytes.Buffer as an append-only ghost byte sequence (len, data); Bytes() is a snapshot (no write after Bytes(): checked)"

func (e *Engine) bufKeys() {
	if _, ok := e.heapSorts[gBufLen]; ok {
		return
	}
	e.heapSorts[gBufLen] = ArraySort(SInt, SInt)
	e.heapSorts[gBufFrozen] = ArraySort(SInt, SBool)
	e.heapSorts[gBufData] = ArraySort(SInt, ArraySort(SInt, SInt))
	e.heapValKind[gBufLen], e.heapValKind[gBufData], e.heapValKind[gBufFrozen] = "", "", ""
}

func isBytesBuffer(t types.Type) bool {
	nt, ok := t.(*types.Named)
	return ok && nt.Obj().Pkg() != nil && nt.Obj().Pkg().Path() == "bytes" && nt.Obj().Name() == "Buffer"
}

type bufView struct{ ln, data, frozen Term }

func (e *Engine) bufGet(s *State, ref Term) bufView {
	e.bufKeys()
	v := bufView{
		ln:     Select(s.heapGet(gBufLen, e.heapSorts[gBufLen]), ref),
		data:   Select(s.heapGet(gBufData, e.heapSorts[gBufData]), ref),
		frozen: Select(s.heapGet(gBufFrozen, e.heapSorts[gBufFrozen]), ref),
	}
	s.assume(And(Le(IntLit(0), v.ln), Le(v.ln, Term{"4611686018427387904", SInt})))
	return v
}

func (e *Engine) bufSet(s *State, key string, ref, v Term) {
	e.bufKeys()
	s.heapSet(key, Store(s.heapGet(key, e.heapSorts[key]), ref, v))
}

// bufAllocHook: a zero bytes.Buffer (new(bytes.Buffer), &bytes.Buffer{}, var b bytes.Buffer on the heap) is empty.
func (e *Engine) bufAllocHook(s *State, ref Term, elem types.Type) {
	if !isBytesBuffer(elem) {
		return
	}
	e.trustModel(bufTrust)
	e.bufSet(s, gBufLen, ref, IntLit(0))
	e.bufSet(s, gBufFrozen, ref, TFalse)
}

// bufExternWrites: the write set of bytes.Buffer methods and binary.Write in terms of the ghost keys.
func (e *Engine) bufExternWrites(f *ssa.Function, w *WriteSet) {
	name := f.Name()
	if f.Pkg != nil && f.Pkg.Pkg.Path() == "bytes" {
		switch name {
		case "Len", "Cap", "String", "Available", "AvailableBuffer":
			return
		}
	}
	e.bufKeys()
	w.Heap[gBufLen] = true
	w.Heap[gBufData] = true
	w.Heap[gBufFrozen] = true
}

func (e *Engine) bufWriteCheck(s *State, fr *Frame, site ssa.Instruction, v bufView) {
	name := fmt.Sprintf("%s#model:%s", shortKey(funcKey(fr.fn)), e.siteName(site, "call"))
	s.addObligation("safety", name, "", site.Pos(), Not(v.frozen), "bytes.Buffer model: no write to a buffer after its Bytes() were taken (aliasing is not modelled)")
	s.assume(Not(v.frozen))
}

// bufAppendTerms appends the given byte terms (each already in 0..255) to the buffer.
func (e *Engine) bufAppendTerms(s *State, ref Term, v bufView, bs []Term) {
	arr := v.data
	for i, b := range bs {
		arr = Store(arr, Add(v.ln, IntLit(int64(i))), b)
	}
	e.bufSet(s, gBufData, ref, e.u.Define("bufdata", arr))
	e.bufSet(s, gBufLen, ref, e.u.Define("buflen", Add(v.ln, IntLit(int64(len(bs))))))
}

// bufAppendFrom appends n elements given by the SMT text srcAt(j-index expression) to the buffer.
func (e *Engine) bufAppendFrom(s *State, ref Term, v bufView, n Term, srcAt func(j string) string) {
	inner := ArraySort(SInt, SInt)
	narr := e.u.Fresh("bufdata", inner)
	old := e.u.Define("bufold", v.data)
	ln := e.u.Define("bufln", v.ln)
	ax := fmt.Sprintf("(forall ((j Int)) (! (= (select %s j) (ite (and (<= %s j) (< j (+ %s %s))) %s (select %s j))) :pattern ((select %s j))))",
		narr.S, ln.S, ln.S, n.S, srcAt(fmt.Sprintf("(- j %s)", ln.S)), old.S, narr.S)
	s.assume(Term{ax, SBool})
	e.bufSet(s, gBufData, ref, narr)
	e.bufSet(s, gBufLen, ref, e.u.Define("buflen", Add(ln, n)))
}

// bufRefOfIface: the buffer ref when an io.Writer interface value is known to hold a *bytes.Buffer.
func (e *Engine) bufRefOfIface(v Value) (Term, bool) {
	it, ok := v.(Term)
	if !ok {
		return Term{}, false
	}
	dyn, payload, ok := e.ifaceDynType(it)
	if !ok {
		return Term{}, false
	}
	if pt, ok := dyn.(*types.Pointer); ok && isBytesBuffer(pt.Elem()) {
		return payload, true
	}
	return Term{}, false
}

// modelBuf handles calls on *bytes.Buffer and binary.Write into one. Returns (value, handled).
func (e *Engine) modelBuf(s *State, fr *Frame, dst *ssa.Call, key string, f *ssa.Function, args []Value, site ssa.Instruction) (Value, bool) {
	refOf := func(v Value) (Term, bool) {
		if p, ok := v.(*Ptr); ok && p.Kind == pkObj {
			return p.Ref, true
		}
		return Term{}, false
	}
	switch key {
	case "sort.Slice", "sort.SliceStable":
		// sorts its first argument in place: the elements of that slice are permuted, nothing else is written.
		// The permutation itself is not modelled: afterwards the element memory of that slice type is arbitrary.
		if it, ok := args[0].(Term); ok {
			if dyn, _, ok := e.ifaceDynType(it); ok {
				if st, ok := dyn.Underlying().(*types.Slice); ok {
					e.abstract("sort.Slice: permutes the elements of its slice argument in place (contents afterwards arbitrary, sortedness not modelled; trusted frame)")
					mkey, _ := e.memKey(st.Elem())
					s.havocHeapKey(mkey, "sort.Slice")
					return nil, true
				}
			}
		}
		return nil, false
	case "bytes.Reader.Read":
		// bytes.Reader.Read(p) copies min(len(p), remaining) bytes and advances; at end of data it returns (0, io.EOF)
		ref, ok := refOf(args[0])
		if !ok {
			return nil, false
		}
		e.trustModel("bytes.Reader.Read: copies min(len(p), remaining) bytes from the ghost stream, (0, EOF) when nothing remains")
		v := e.brGet(s, ref)
		e.brFacts(s, v)
		e.streamByteFacts(s, v)
		buf := args[1].(Term)
		key8, sort8 := e.memKey(types.Typ[types.Uint8])
		inner := arrayElemSort(sort8)
		avail := Sub(v.ln, v.pos)
		n := e.u.Define("readn", Ite(Le(App("s-len", SInt, buf), avail), App("s-len", SInt, buf), avail))
		h := s.heapGet(key8, sort8)
		base, off := App("s-base", SInt, buf), App("s-off", SInt, buf)
		narr := e.u.Fresh("readarr", inner)
		old := e.u.Define("oldarr", Select(h, base))
		ax := fmt.Sprintf("(forall ((j Int)) (! (= (select %s j) (ite (and (<= %s j) (< j (+ %s %s))) (select %s (+ %s (+ %s (- j %s)))) (select %s j))) :pattern ((select %s j))))",
			narr.S, off.S, off.S, n.S, v.data.S, v.off.S, v.pos.S, off.S, old.S, narr.S)
		s.assume(Term{ax, SBool})
		s.heapSet(key8, Store(h, base, narr))
		e.brSetPos(s, ref, Add(v.pos, n))
		errv := e.u.Fresh("readerr", SIface)
		// error iff nothing could be read although something was asked for
		s.assume(Eq(Not(Eq(App("i-type", SInt, errv), IntLit(0))), And(Eq(avail, IntLit(0)), Gt(App("s-len", SInt, buf), IntLit(0)))))
		s.assume(Implies(Eq(App("i-type", SInt, errv), IntLit(0)), Eq(App("i-val", SInt, errv), IntLit(0))))
		return &Tuple{Vs: []Value{n, errv}}, true
	case "encoding/binary.bigEndian.PutUint16", "encoding/binary.bigEndian.PutUint32", "encoding/binary.bigEndian.PutUint64":
		// same semantics as the div/mod model in models.go, but the digits are fresh bytes tied to the value by one
		// linear equation (digits in base 256 exist and are unique): read-back proofs (be32(b, k) == v) become linear
		e.trustModel(key)
		n := 2
		if strings.HasSuffix(key, "32") {
			n = 4
		} else if strings.HasSuffix(key, "64") {
			n = 8
		}
		sl := args[1].(Term)
		v := args[2].(Term)
		e.lenObl(s, fr, site, sl, n, shortKey(key))
		mkey, msort := e.memKey(types.Typ[types.Uint8])
		h := s.heapGet(mkey, msort)
		base, off := App("s-base", SInt, sl), App("s-off", SInt, sl)
		arr := Select(h, base)
		var sum Term = IntLit(0)
		for i := 0; i < n; i++ {
			b := e.u.Fresh("putb", SInt)
			s.assume(And(Le(IntLit(0), b), Le(b, IntLit(255))))
			arr = Store(arr, Add(off, IntLit(int64(i))), b)
			sum = Add(Mul(sum, IntLit(256)), b)
		}
		s.assume(Eq(sum, v))
		s.heapSet(mkey, Store(h, base, e.u.Define("put", arr)))
		return nil, true
	case "bytes.NewBuffer":
		e.trustModel(bufTrust + "; bytes.NewBuffer(b) starts with the contents of b")
		b := args[0].(Term)
		ref := e.newRef()
		key8, sort8 := e.memKey(types.Typ[types.Uint8])
		n := App("s-len", SInt, b)
		e.bufSet(s, gBufLen, ref, n)
		e.bufSet(s, gBufFrozen, ref, TFalse)
		if lv, ok := litValue(n); ok && lv.Sign() == 0 {
			// empty initial contents: data irrelevant
		} else {
			h := s.heapGet(key8, sort8)
			inner := ArraySort(SInt, SInt)
			narr := e.u.Fresh("bufinit", inner)
			ax := fmt.Sprintf("(forall ((j Int)) (! (=> (and (<= 0 j) (< j %s)) (= (select %s j) (select (select %s (s-base %s)) (+ (s-off %s) j)))) :pattern ((select %s j))))",
				n.S, narr.S, h.S, b.S, b.S, narr.S)
			s.assume(Term{ax, SBool})
			e.bufSet(s, gBufData, ref, narr)
		}
		rt := f.Signature.Results().At(0).Type().(*types.Pointer)
		return &Ptr{Kind: pkObj, Ref: ref, Elem: rt.Elem()}, true
	case "bytes.Buffer.Len":
		ref, ok := refOf(args[0])
		if !ok {
			return nil, false
		}
		e.trustModel(bufTrust)
		return e.u.Define("buflen", e.bufGet(s, ref).ln), true
	case "bytes.Buffer.Write":
		ref, ok := refOf(args[0])
		if !ok {
			break
		}
		e.trustModel(bufTrust)
		v := e.bufGet(s, ref)
		e.bufWriteCheck(s, fr, site, v)
		p := args[1].(Term)
		key8, sort8 := e.memKey(types.Typ[types.Uint8])
		h := s.heapGet(key8, sort8)
		n := e.u.Define("bufn", App("s-len", SInt, p))
		if k, ok := litSmall(n); ok {
			// short literal length (headers, footers): element-wise, no quantifier
			arr, off := Select(h, App("s-base", SInt, p)), App("s-off", SInt, p)
			var bs []Term
			for i := int64(0); i < k; i++ {
				bs = append(bs, Select(arr, Add(off, IntLit(i))))
			}
			e.bufAppendTerms(s, ref, v, bs)
			return &Tuple{Vs: []Value{n, NilIface}}, true
		}
		e.bufAppendFrom(s, ref, v, n, func(j string) string {
			return fmt.Sprintf("(select (select %s (s-base %s)) (+ (s-off %s) %s))", h.S, p.S, p.S, j)
		})
		return &Tuple{Vs: []Value{n, NilIface}}, true
	case "bytes.Buffer.WriteString":
		ref, ok := refOf(args[0])
		if !ok {
			break
		}
		e.trustModel(bufTrust)
		v := e.bufGet(s, ref)
		e.bufWriteCheck(s, fr, site, v)
		str := args[1].(Term)
		if lit, ok := smtString(str.S); ok && strings.HasPrefix(str.S, "\"") && len(lit) <= 64 {
			var bs []Term
			for i := 0; i < len(lit); i++ {
				bs = append(bs, IntLit(int64(lit[i])))
			}
			e.bufAppendTerms(s, ref, v, bs)
			return &Tuple{Vs: []Value{IntLit(int64(len(lit))), NilIface}}, true
		}
		n := e.u.Define("bufn", App("str.len", SInt, str))
		e.abstract("bytes.Buffer.WriteString of a non-literal string: characters are bytes (0..255)")
		e.bufAppendFrom(s, ref, v, n, func(j string) string {
			return fmt.Sprintf("(mod (str.to_code (str.at %s %s)) 256)", str.S, j)
		})
		return &Tuple{Vs: []Value{n, NilIface}}, true
	case "bytes.Buffer.Bytes":
		ref, ok := refOf(args[0])
		if !ok {
			break
		}
		e.trustModel(bufTrust)
		v := e.bufGet(s, ref)
		e.bufSet(s, gBufFrozen, ref, TTrue)
		key8, sort8 := e.memKey(types.Typ[types.Uint8])
		inner := arrayElemSort(sort8)
		base := e.newRef()
		// the backing array of the result is the buffer's data array itself (indices >= len are outside the slice)
		ln := e.u.Define("bufln", v.ln)
		arr := e.u.Define("bufdata", v.data)
		_ = inner
		s.heapSet(key8, Store(s.heapGet(key8, sort8), base, arr))
		return e.u.Define("bufbytes", App("mk-slice", SSlice, base, IntLit(0), ln, ln)), true
	case "encoding/binary.Write":
		ref, ok := e.bufRefOfIface(args[0])
		if !ok {
			return nil, false
		}
		dt, ok := args[2].(Term)
		if !ok {
			break
		}
		dyn, payload, ok := e.ifaceDynType(dt)
		if !ok {
			break
		}
		bt, ok := dyn.Underlying().(*types.Basic)
		if !ok || bt.Info()&types.IsInteger == 0 || bt.Kind() == types.Int || bt.Kind() == types.Uint || bt.Kind() == types.Uintptr {
			break
		}
		if ot, ok := args[1].(Term); ok {
			if odyn, _, ok := e.ifaceDynType(ot); !ok || odyn.String() != "encoding/binary.bigEndian" {
				break
			}
		}
		e.trustModel(bufTrust + "; encoding/binary.Write of a fixed-size big-endian integer appends its bytes and returns nil")
		v := e.bufGet(s, ref)
		e.bufWriteCheck(s, fr, site, v)
		val, err := s.toTerm(e.unboxIface(s, payload, dyn))
		if err != nil {
			e.bail("binary.Write: %v", err)
		}
		nb := int(intBits(bt) / 8)
		// two's complement image of the value in [0, 2^bits), and its big-endian digits as fresh bytes
		// tied to it by one linear equation (the digits of a number in base 256 exist and are unique)
		var uval Term
		if isUnsigned(bt) {
			uval = val
		} else {
			uval = e.u.Define("binw", Ite(Ge(val, IntLit(0)), val, Add(val, BigLit(pow2(uint(8*nb))))))
		}
		var bs []Term
		var sum Term = IntLit(0)
		for i := 0; i < nb; i++ {
			b := e.u.Fresh("binwb", SInt)
			s.assume(And(Le(IntLit(0), b), Le(b, IntLit(255))))
			bs = append(bs, b)
			sum = Add(Mul(sum, IntLit(256)), b)
		}
		s.assume(Eq(sum, uval))
		e.bufAppendTerms(s, ref, v, bs)
		return NilIface, true
	}
	if strings.HasPrefix(key, "bytes.Buffer.") || key == "encoding/binary.Write" {
		switch key {
		case "bytes.Buffer.String", "bytes.Buffer.Cap", "bytes.Buffer.Available":
			return nil, false
		}
		// an operation the model does not describe: forget what is known about every buffer
		e.bufKeys()
		s.havocHeapKey(gBufLen, "buf.unmodelled")
		s.havocHeapKey(gBufData, "buf.unmodelled")
		s.havocHeapKey(gBufFrozen, "buf.unmodelled")
	}
	return nil, false
}

// bufSpec: spec builtins bufLen(b), bufAt(b, i) for a *bytes.Buffer expression b.
func (e *Engine) bufSpec(env *Env, fun string, args []Expr) (TV, bool, error) {
	switch fun {
	case "bufLen", "bufAt", "bufOpen":
	default:
		return TV{}, false, nil
	}
	e.bufKeys()
	v, err := e.eval(env, args[0])
	if err != nil {
		return TV{}, true, err
	}
	p, ok := v.V.(*Ptr)
	if !ok || p.Kind != pkObj {
		return TV{}, true, fmt.Errorf("%s: argument is not a *bytes.Buffer", fun)
	}
	get := func(key string) Term { return Select(e.heapIn(env, key, e.heapSorts[key]), p.Ref) }
	if fun == "bufOpen" {
		// bufOpen(b): no Bytes() of b has been taken yet (b may still be written)
		return TV{Not(get(gBufFrozen)), types.Typ[types.Bool]}, true, nil
	}
	if fun == "bufLen" {
		env.s.assume(Le(IntLit(0), get(gBufLen)))
		return TV{get(gBufLen), types.Typ[types.Int]}, true, nil
	}
	i, err := e.evalTerm(env, args[1])
	if err != nil {
		return TV{}, true, err
	}
	return TV{Select(get(gBufData), i), types.Typ[types.Uint8]}, true, nil
}

// ---------------------------------------------------------------------------
// Static effect analysis for the buffer model (same idea as readerfx.go for readers)

// bufOpArg: for calls that operate on a buffer of the model, the index of the argument holding the buffer.
func bufOpArg(f *ssa.Function) (int, bool) {
	if f.Pkg == nil {
		return 0, false
	}
	p := f.Pkg.Pkg.Path()
	switch {
	case p == "bytes" && f.Signature.Recv() != nil:
		if pt, ok := f.Signature.Recv().Type().(*types.Pointer); ok && isBytesBuffer(pt.Elem()) {
			return 0, true
		}
	case p == "encoding/binary" && f.Name() == "Write":
		return 0, true
	}
	return 0, false
}

// bufOrigin classifies where a *bytes.Buffer value comes from: "fresh" (created inside the region), "cell" (a local
// variable of fn set outside the region), or "other".
func bufOrigin(v ssa.Value, fn *ssa.Function, inRegion func(ssa.Instruction) bool, depth int) valOrigin {
	if depth > 6 {
		return valOrigin{kind: "other"}
	}
	if mi, ok := v.(*ssa.MakeInterface); ok {
		v = mi.X
	}
	switch x := v.(type) {
	case *ssa.Alloc:
		if pt, ok := x.Type().(*types.Pointer); ok && x.Heap && isBytesBuffer(pt.Elem()) && inRegion(x) {
			return valOrigin{kind: "fresh"}
		}
	case *ssa.Call:
		if callee := x.Common().StaticCallee(); callee != nil && inRegion(x) {
			switch funcKey(callee) {
			case "bytes.NewBuffer", "bytes.NewBufferString":
				return valOrigin{kind: "fresh"}
			}
		}
	case *ssa.UnOp:
		if x.Op != token.MUL {
			break
		}
		al, ok := x.X.(*ssa.Alloc)
		if !ok || al.Referrers() == nil || al.Heap {
			break
		}
		var res *valOrigin
		for _, ref := range *al.Referrers() {
			st, ok := ref.(*ssa.Store)
			if !ok || st.Addr != al {
				continue
			}
			o := bufOrigin(st.Val, fn, inRegion, depth+1)
			if res == nil {
				res = &o
			} else if *res != o {
				return valOrigin{kind: "cell", cell: al}
			}
		}
		if res != nil && res.kind == "fresh" {
			return *res
		}
		return valOrigin{kind: "cell", cell: al}
	}
	return valOrigin{kind: "other"}
}

func (e *Engine) noteBufWrite(arg ssa.Value, f *ssa.Function, w *WriteSet, fn *ssa.Function, inRegion func(ssa.Instruction) bool) {
	if f.Pkg != nil && f.Pkg.Pkg.Path() == "bytes" {
		switch f.Name() {
		case "Len", "Cap", "String", "Available", "AvailableBuffer":
			return
		}
	}
	o := bufOrigin(arg, fn, inRegion, 0)
	switch {
	case o.kind == "fresh":
		// a buffer created inside the region: invisible to the state before it
	case o.kind == "cell" && w.regionBlocks != nil:
		if w.BufCells == nil {
			w.BufCells = map[*ssa.Alloc]bool{}
		}
		w.BufCells[o.cell] = true
	default:
		e.bufExternWrites(f, w)
	}
}

// havocBufCells forgets the ghost state of the buffers held by the given local variables (loop regions).
func (e *Engine) havocBufCells(s *State, fr *Frame, w *WriteSet, hint string) {
	if w.All || len(w.BufCells) == 0 {
		return
	}
	for al := range w.BufCells {
		if pv, ok := fr.regs[al].(*Ptr); ok && pv.Kind == pkCell {
			if bp, ok := s.cells[pv.Cell].(*Ptr); ok && bp.Kind == pkObj {
				e.bufKeys()
				e.bufSet(s, gBufLen, bp.Ref, e.u.Fresh(hint+".buflen", SInt))
				e.bufSet(s, gBufData, bp.Ref, e.u.Fresh(hint+".bufdata", ArraySort(SInt, SInt)))
				e.bufSet(s, gBufFrozen, bp.Ref, e.u.Fresh(hint+".buffrozen", SBool))
				continue
			}
		}
		e.bufKeys()
		s.havocHeapKey(gBufLen, hint)
		s.havocHeapKey(gBufData, hint)
		s.havocHeapKey(gBufFrozen, hint)
	}
}
