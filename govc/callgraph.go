package main

// Static call-effect clauses:
//   iface_calls_only [tag] <interface key>: m1, m2, ...
// Every method of the interface that is reachable from the function (through first-party
// callees and the closures it creates) must be in the list.

import (
	"fmt"
	"sort"
	"strings"

	"golang.org/x/tools/go/ssa"
)

// ifaceCallsOf returns the interface-method keys (pkg.Iface.Method) reachable from fn.
func (e *Engine) ifaceCallsOf(fn *ssa.Function, seen map[*ssa.Function]bool, out map[string]string) {
	if fn == nil || seen[fn] || fn.Blocks == nil {
		return
	}
	seen[fn] = true
	for _, b := range fn.Blocks {
		for _, in := range b.Instrs {
			var cc *ssa.CallCommon
			switch x := in.(type) {
			case *ssa.Call:
				cc = x.Common()
			case *ssa.Defer:
				cc = x.Common()
			case *ssa.Go:
				cc = x.Common()
			case *ssa.MakeClosure:
				if cf, ok := x.Fn.(*ssa.Function); ok {
					e.ifaceCallsOf(cf, seen, out)
				}
			}
			if cc == nil {
				continue
			}
			if cc.IsInvoke() {
				k := ifaceMethodKey(cc)
				if _, ok := out[k]; !ok {
					out[k] = posString(e.fset, in.Pos())
				}
				continue
			}
			if callee := cc.StaticCallee(); callee != nil && isFirstParty(callee) {
				e.ifaceCallsOf(callee, seen, out)
			}
			for _, a := range cc.Args {
				if mc, ok := a.(*ssa.MakeClosure); ok {
					if cf, ok := mc.Fn.(*ssa.Function); ok {
						e.ifaceCallsOf(cf, seen, out)
					}
				}
			}
		}
	}
}

// checkIfaceCallsOnly evaluates the iface_calls_only clause of the root contract.
func (e *Engine) checkIfaceCallsOnly(s *State, fn *ssa.Function, c *FuncContract) {
	spec := c.Flags["iface_calls_only"]
	if spec == "" {
		return
	}
	tag := ""
	if strings.HasPrefix(spec, "[") {
		if k := strings.Index(spec, "]"); k > 0 {
			tag = spec[1:k]
			spec = strings.TrimSpace(spec[k+1:])
		}
	}
	k := strings.Index(spec, ":")
	if k < 0 {
		e.bail("iface_calls_only: expected '<interface>: m1, m2'")
	}
	iface := strings.TrimSpace(spec[:k])
	allowed := map[string]bool{}
	for _, m := range strings.Split(spec[k+1:], ",") {
		allowed[strings.TrimSpace(m)] = true
	}
	calls := map[string]string{}
	e.ifaceCallsOf(fn, map[*ssa.Function]bool{}, calls)
	var bad []string
	n := 0
	for key, pos := range calls {
		if !strings.HasPrefix(key, iface+".") {
			continue
		}
		n++
		m := strings.TrimPrefix(key, iface+".")
		if !allowed[m] {
			bad = append(bad, m+" at "+pos)
		}
	}
	sort.Strings(bad)
	goal := TTrue
	why := fmt.Sprintf("%d distinct %s methods reachable, all in the allowed list", n, shortKey(iface))
	if len(bad) > 0 {
		goal = TFalse
		why = "reaches " + strings.Join(bad, "; ")
	}
	name := fmt.Sprintf("%s#calls:%s", e.rootKey, tag)
	s.addObligation("frame", name, tag, fn.Pos(), goal, "calls only the listed methods of "+shortKey(iface)+": "+why)
	if len(bad) > 0 {
		e.obligations[len(e.obligations)-1].Result = &SolverResult{Status: "sat", Solver: "static-call-analysis", Output: why}
	}
}

// checkDirectCallsOnly: "direct_calls_only [tag] f1, f2, ..." - every first-party function called
// directly in the body (or whose value is taken) must be in the list.
func (e *Engine) checkDirectCallsOnly(s *State, fn *ssa.Function, c *FuncContract) {
	spec := c.Flags["direct_calls_only"]
	if spec == "" {
		return
	}
	tag := ""
	if strings.HasPrefix(spec, "[") {
		if k := strings.Index(spec, "]"); k > 0 {
			tag = spec[1:k]
			spec = strings.TrimSpace(spec[k+1:])
		}
	}
	allowed := map[string]bool{}
	for _, m := range strings.Split(spec, ",") {
		allowed[strings.TrimSpace(m)] = true
	}
	var bad []string
	seen := map[string]bool{}
	note := func(f *ssa.Function, in ssa.Instruction) {
		if f == nil || !isFirstParty(f) {
			return
		}
		name := f.Name()
		if f.Parent() != nil {
			return
		}
		if !allowed[name] && !seen[name] {
			seen[name] = true
			bad = append(bad, name+" at "+posString(e.fset, in.Pos()))
		}
	}
	n := 0
	for _, b := range fn.Blocks {
		for _, in := range b.Instrs {
			if call, ok := in.(*ssa.Call); ok {
				if callee := call.Common().StaticCallee(); callee != nil {
					if isFirstParty(callee) {
						n++
					}
					note(callee, in)
				}
			}
			for _, op := range in.Operands(nil) {
				if op != nil && *op != nil {
					if f, ok := (*op).(*ssa.Function); ok {
						note(f, in)
					}
				}
			}
		}
	}
	sort.Strings(bad)
	goal := TTrue
	why := fmt.Sprintf("%d first-party calls, all in the list", n)
	if len(bad) > 0 {
		goal = TFalse
		why = "calls " + strings.Join(bad, "; ")
	}
	name := fmt.Sprintf("%s#calls:%s", e.rootKey, tag)
	s.addObligation("frame", name, tag, fn.Pos(), goal, "calls only the listed first-party functions: "+why)
	if len(bad) > 0 {
		e.obligations[len(e.obligations)-1].Result = &SolverResult{Status: "sat", Solver: "static-call-analysis", Output: why}
	}
}

// staticCallsOf collects the keys of all functions (first-party or not) called directly from fn, its first-party
// callees and the closures it creates.
func (e *Engine) staticCallsOf(fn *ssa.Function, seen map[*ssa.Function]bool, out map[string]string) {
	if fn == nil || seen[fn] || fn.Blocks == nil {
		return
	}
	seen[fn] = true
	for _, b := range fn.Blocks {
		for _, in := range b.Instrs {
			var cc *ssa.CallCommon
			switch x := in.(type) {
			case *ssa.Call:
				cc = x.Common()
			case *ssa.Defer:
				cc = x.Common()
			case *ssa.Go:
				cc = x.Common()
			case *ssa.MakeClosure:
				if cf, ok := x.Fn.(*ssa.Function); ok {
					e.staticCallsOf(cf, seen, out)
				}
			}
			if cc == nil || cc.IsInvoke() {
				continue
			}
			if callee := cc.StaticCallee(); callee != nil {
				k := funcKey(callee)
				if _, ok := out[k]; !ok {
					out[k] = posString(e.fset, in.Pos())
				}
				if isFirstParty(callee) {
					e.staticCallsOf(callee, seen, out)
				}
			}
			for _, a := range cc.Args {
				if mc, ok := a.(*ssa.MakeClosure); ok {
					if cf, ok := mc.Fn.(*ssa.Function); ok {
						e.staticCallsOf(cf, seen, out)
					}
				}
			}
		}
	}
}

// checkNeverCalls: "never_calls [tag] k1, k2, ..." - none of the listed interface methods (pkg/path.Iface.Method) or
// functions (pkg/path.Func, pkg/path.Type.Method) is reachable from the function through first-party callees and closures.
func (e *Engine) checkNeverCalls(s *State, fn *ssa.Function, c *FuncContract) {
	spec := c.Flags["never_calls"]
	if spec == "" {
		return
	}
	tag := ""
	if strings.HasPrefix(spec, "[") {
		if k := strings.Index(spec, "]"); k > 0 {
			tag = spec[1:k]
			spec = strings.TrimSpace(spec[k+1:])
		}
	}
	calls := map[string]string{}
	e.ifaceCallsOf(fn, map[*ssa.Function]bool{}, calls)
	e.staticCallsOf(fn, map[*ssa.Function]bool{}, calls)
	var bad []string
	for _, item := range strings.Split(spec, ",") {
		item = strings.TrimSpace(item)
		if item == "" {
			continue
		}
		if pos, ok := calls[item]; ok {
			bad = append(bad, item+" at "+pos)
		}
	}
	sort.Strings(bad)
	goal := TTrue
	why := fmt.Sprintf("%d distinct callees / interface methods reachable, none of them forbidden", len(calls))
	if len(bad) > 0 {
		goal = TFalse
		why = "reaches " + strings.Join(bad, "; ")
	}
	name := fmt.Sprintf("%s#calls:%s", e.rootKey, tag)
	s.addObligation("frame", name, tag, fn.Pos(), goal, "never calls "+spec+": "+why)
	if len(bad) > 0 {
		e.obligations[len(e.obligations)-1].Result = &SolverResult{Status: "sat", Solver: "static-call-analysis", Output: why}
	}
}

// checkSpawnNeverWrites: "spawn_never_writes [tag] T.f, ..." - no goroutine started by the function (go statements,
// including closures, directly in its body) may write the listed fields: the function itself stays their only writer.
func (e *Engine) checkSpawnNeverWrites(s *State, fr *Frame, fn *ssa.Function, c *FuncContract) {
	spec := c.Flags["spawn_never_writes"]
	if spec == "" {
		return
	}
	tag := ""
	if strings.HasPrefix(spec, "[") {
		if k := strings.Index(spec, "]"); k > 0 {
			tag = spec[1:k]
			spec = strings.TrimSpace(spec[k+1:])
		}
	}
	forbidden := newWriteSet()
	env := e.mkEnv(s, fr, nil, nil)
	for _, item := range strings.Split(spec, ",") {
		e.resolveAssign(s, env, strings.TrimSpace(item), forbidden)
	}
	var bad []string
	n := 0
	for _, b := range fn.Blocks {
		for _, in := range b.Instrs {
			g, ok := in.(*ssa.Go)
			if !ok {
				continue
			}
			n++
			var callee *ssa.Function
			switch v := g.Common().Value.(type) {
			case *ssa.Function:
				callee = v
			case *ssa.MakeClosure:
				callee, _ = v.Fn.(*ssa.Function)
			}
			if g.Common().IsInvoke() || callee == nil {
				bad = append(bad, "dynamic go call at "+posString(e.fset, in.Pos()))
				continue
			}
			ws := newWriteSet()
			e.funcWrites(callee, ws, nil)
			if ws.All {
				bad = append(bad, "goroutine at "+posString(e.fset, in.Pos())+" has an unbounded write set ("+ws.Why+")")
				continue
			}
			for k := range forbidden.Heap {
				if ws.Heap[k] {
					bad = append(bad, "goroutine at "+posString(e.fset, in.Pos())+" may write "+k)
				}
			}
		}
	}
	sort.Strings(bad)
	goal := TTrue
	why := fmt.Sprintf("%d go statements, none writes the listed fields", n)
	if len(bad) > 0 {
		goal = TFalse
		why = strings.Join(bad, "; ")
	}
	name := fmt.Sprintf("%s#frame:%s", e.rootKey, tag)
	s.addObligation("frame", name, tag, fn.Pos(), goal, "goroutines started here never write "+spec+": "+why)
	if len(bad) > 0 {
		e.obligations[len(e.obligations)-1].Result = &SolverResult{Status: "sat", Solver: "static-frame-analysis", Output: why}
	}
}

// checkAppendOnly: "append_only [tag] v" - inside every loop of the function, the local slice variable v is only ever
// assigned `append(v, ...)`: what earlier iterations recorded in it is never dropped (a per-iteration reset of a list
// that a deferred rollback walks would forget the earlier iterations' entries).
func (e *Engine) checkAppendOnly(s *State, fn *ssa.Function, c *FuncContract) {
	spec := c.Flags["append_only"]
	if spec == "" {
		return
	}
	tag := ""
	if strings.HasPrefix(spec, "[") {
		if k := strings.Index(spec, "]"); k > 0 {
			tag = spec[1:k]
			spec = strings.TrimSpace(spec[k+1:])
		}
	}
	varName := strings.TrimSpace(spec)
	loops := e.loopsOf(fn).Loops
	inLoop := func(b *ssa.BasicBlock) bool {
		for _, li := range loops {
			if li.Blocks[b] {
				return true
			}
		}
		return false
	}
	var bad []string
	found := false
	for _, b := range fn.Blocks {
		for _, in := range b.Instrs {
			st, ok := in.(*ssa.Store)
			if !ok {
				continue
			}
			al, ok := st.Addr.(*ssa.Alloc)
			if !ok || al.Comment != varName {
				continue
			}
			found = true
			if !inLoop(b) {
				continue
			}
			okStore := false
			if call, ok := st.Val.(*ssa.Call); ok {
				if bi, ok := call.Common().Value.(*ssa.Builtin); ok && bi.Name() == "append" && len(call.Common().Args) > 0 {
					if ld, ok := call.Common().Args[0].(*ssa.UnOp); ok && ld.X == ssa.Value(al) {
						okStore = true
					}
				}
			}
			if !okStore {
				bad = append(bad, "assignment at "+posString(e.fset, st.Pos())+" inside a loop is not append("+varName+", ...)")
			}
		}
	}
	if !found {
		bad = append(bad, "no local variable "+varName+" is assigned in this function")
	}
	sort.Strings(bad)
	goal := TTrue
	why := "every assignment inside a loop appends to the variable"
	if len(bad) > 0 {
		goal = TFalse
		why = strings.Join(bad, "; ")
	}
	name := fmt.Sprintf("%s#frame:%s", e.rootKey, tag)
	s.addObligation("frame", name, tag, fn.Pos(), goal, varName+" only grows inside loops: "+why)
	if len(bad) > 0 {
		e.obligations[len(e.obligations)-1].Result = &SolverResult{Status: "sat", Solver: "static-frame-analysis", Output: why}
	}
}

// checkNoEarlyExit: "no_early_exit [tag] x" - the loop whose body declares the local variable x (e.g. the range
// variable) is left only at its head (the sequence is exhausted) or by returning from the function: no `break` (or
// goto) skips the remaining elements. Decided on the control-flow graph.
func (e *Engine) checkNoEarlyExit(s *State, fn *ssa.Function, c *FuncContract) {
	for _, spec := range strings.Split(c.Flags["no_early_exit"], ";;") {
		spec = strings.TrimSpace(spec)
		if spec == "" {
			continue
		}
		tag := ""
		if strings.HasPrefix(spec, "[") {
			if k := strings.Index(spec, "]"); k > 0 {
				tag = spec[1:k]
				spec = strings.TrimSpace(spec[k+1:])
			}
		}
		varName := spec
		// innermost loop whose blocks contain the declaration of varName
		var loop *LoopInfo
		for _, li := range e.loopsOf(fn).Loops {
			has := false
			for b := range li.Blocks {
				for _, in := range b.Instrs {
					if al, ok := in.(*ssa.Alloc); ok && al.Comment == varName {
						has = true
					}
				}
			}
			if has && (loop == nil || len(li.Blocks) < len(loop.Blocks)) {
				loop = li
			}
		}
		var bad []string
		if loop == nil {
			bad = append(bad, "no loop declares a local variable "+varName)
		} else {
			returns := func(b *ssa.BasicBlock) bool {
				for i := 0; i < 8 && b != nil; i++ {
					if len(b.Instrs) == 0 {
						return false
					}
					switch b.Instrs[len(b.Instrs)-1].(type) {
					case *ssa.Return, *ssa.Panic:
						return true
					}
					if len(b.Succs) != 1 {
						return false
					}
					b = b.Succs[0]
				}
				return false
			}
			for b := range loop.Blocks {
				if b == loop.Header {
					continue
				}
				for _, t := range b.Succs {
					if !loop.Blocks[t] && !returns(t) {
						pos := "?"
						if len(b.Instrs) > 0 {
							pos = posString(e.fset, b.Instrs[len(b.Instrs)-1].Pos())
						}
						bad = append(bad, "the loop over "+varName+" is left from its body near "+pos+" without returning (break)")
					}
				}
			}
		}
		sort.Strings(bad)
		goal := TTrue
		why := "left only at its head or by a return"
		if len(bad) > 0 {
			goal = TFalse
			why = strings.Join(bad, "; ")
		}
		name := fmt.Sprintf("%s#frame:%s", e.rootKey, tag)
		s.addObligation("frame", name, tag, fn.Pos(), goal, "loop over "+varName+": "+why)
		if len(bad) > 0 {
			e.obligations[len(e.obligations)-1].Result = &SolverResult{Status: "sat", Solver: "static-cfg-analysis", Output: why}
		}
	}
}
