package main

// Vacuity of postconditions (opt-in per property: "ensures_cover": true in props/Cnn.json).
// For a clause  A ==> B  of a root, the antecedent A must be satisfiable on at least one return path of the root
// (cover obligation <root>#cover:<clause name>; as for the other covers only "unsat on every path" is an error).
// Added after a C07 mutation verified because an inconsistent axiom pair made the success path of a varint reader
// contradictory: the ensures were all "proved" on a path that could not happen.

import (
	"go/types"

	"golang.org/x/tools/go/ssa"
)

var ensuresCoverOn bool

func (e *Engine) ensuresCover(s *State, fr *Frame, cl Clause, name string, resMap map[string]Value, resTypes map[string]types.Type, ret *ssa.Return) {
	if !ensuresCoverOn {
		return
	}
	b, ok := cl.Expr.(*EBinary)
	if !ok || b.Op != "==>" {
		return
	}
	ante, err := e.evalExprBool(s, fr, b.X, resMap, resTypes)
	if err != nil {
		return
	}
	o := &Obligation{Name: name + "#cover:antecedent", Kind: "cover", Root: e.rootKey, Pos: posString(e.fset, ret.Pos()),
		Assumes: append(s.assumes.slice(), ante), Goal: TFalse, Desc: "antecedent of the postcondition satisfiable on some return path", PathID: s.id, ExpectSat: true, U: e.u}
	e.obligations = append(e.obligations, o)
}
