package main

// Opaque strings (opt-in per root with the contract flag `opaque_strings`).
//
// The SMT theory of strings combined with arrays and quantifiers makes the solvers time out on obligations
// that use strings only as opaque keys (map keys, ids). With the flag, every query of the root is rewritten
// just before it is sent to the solvers:
//   * the sort String becomes Int,
//   * every string literal becomes a numeral, distinct literals distinct numerals ("" is 0),
//   * every theory function (str.len, str.++, str.<, str.at, ...) becomes an uninterpreted function,
//   * two true facts are kept: len(x) >= 0 and len(x) == 0 <=> x == "".
// Soundness: String and Int are both countably infinite; transport the real string functions along a bijection.
// The result is one interpretation of the rewritten query, so if the rewritten query is unsatisfiable under every
// interpretation, the original one is unsatisfiable. The converse fails: a "sat" answer may be spurious (reported
// as a failing obligation, never as a proof).

import (
	"fmt"
	"sort"
	"strings"
)

var strTheoryFuns = map[string]struct {
	args []string
	ret  string
}{
	"str.len":       {[]string{"Int"}, "Int"},
	"str.<":         {[]string{"Int", "Int"}, "Bool"},
	"str.<=":        {[]string{"Int", "Int"}, "Bool"},
	"str.at":        {[]string{"Int", "Int"}, "Int"},
	"str.substr":    {[]string{"Int", "Int", "Int"}, "Int"},
	"str.prefixof":  {[]string{"Int", "Int"}, "Bool"},
	"str.suffixof":  {[]string{"Int", "Int"}, "Bool"},
	"str.contains":  {[]string{"Int", "Int"}, "Bool"},
	"str.indexof":   {[]string{"Int", "Int", "Int"}, "Int"},
	"str.replace":   {[]string{"Int", "Int", "Int"}, "Int"},
	"str.to_code":   {[]string{"Int"}, "Int"},
	"str.from_code": {[]string{"Int"}, "Int"},
	"str.to_int":    {[]string{"Int"}, "Int"},
	"str.from_int":  {[]string{"Int"}, "Int"},
	"str.is_digit":  {[]string{"Int"}, "Bool"},
}

func abstractStrings(q string) string {
	root := sexpParse("(" + q + ")")
	if root == nil {
		return q
	}
	lits := map[string]string{}
	used := map[string]bool{}
	var rw func(n *sexp)
	rw = func(n *sexp) {
		if !n.list {
			switch {
			case n.atom == "String":
				n.atom = "Int"
			case strings.HasPrefix(n.atom, "\""):
				name, ok := lits[n.atom]
				if !ok {
					// numerals (values) rather than constants: usable inside (as const ...) for every solver
					name = fmt.Sprintf("%d", len(lits)+1)
					if n.atom == "\"\"" {
						name = "0"
					}
					lits[n.atom] = name
				}
				n.atom = name
			}
			return
		}
		for _, k := range n.kids {
			rw(k)
		}
		if len(n.kids) > 0 && !n.kids[0].list {
			h := n.kids[0].atom
			if h == "str.++" {
				used["abs.str.cat"] = true
				// n-ary concatenation -> nested binary applications
				args := n.kids[1:]
				if len(args) == 1 {
					*n = *args[0]
					return
				}
				cur := args[len(args)-1]
				for i := len(args) - 2; i >= 0; i-- {
					cur = &sexp{list: true, kids: []*sexp{{atom: "abs.str.cat"}, args[i], cur}}
				}
				*n = *cur
				return
			}
			if _, ok := strTheoryFuns[h]; ok {
				used[h] = true
				n.kids[0].atom = "abs." + h
			}
		}
	}
	for _, f := range root.kids {
		rw(f)
	}
	lits["\"\""] = "0"
	var b strings.Builder
	// declarations first (after any set-option / set-logic forms)
	i := 0
	for i < len(root.kids) && root.kids[i].list && len(root.kids[i].kids) > 0 && strings.HasPrefix(root.kids[i].kids[0].atom, "set-") {
		b.WriteString(root.kids[i].String())
		b.WriteByte('\n')
		i++
	}
	var fs []string
	for f := range used {
		fs = append(fs, f)
	}
	sort.Strings(fs)
	for _, f := range fs {
		if f == "abs.str.cat" {
			b.WriteString("(declare-fun abs.str.cat (Int Int) Int)\n")
			continue
		}
		sg := strTheoryFuns[f]
		fmt.Fprintf(&b, "(declare-fun abs.%s (%s) %s)\n", f, strings.Join(sg.args, " "), sg.ret)
	}
	if used["str.len"] {
		empty := lits["\"\""]
		fmt.Fprintf(&b, "(assert (forall ((x Int)) (! (and (>= (abs.str.len x) 0) (= (= (abs.str.len x) 0) (= x %s))) :pattern ((abs.str.len x)))))\n", empty)
	}
	for ; i < len(root.kids); i++ {
		b.WriteString(root.kids[i].String())
		b.WriteByte('\n')
	}
	return b.String()
}
