package main

// Exact facts about | and ^ for roots whose contract says "bitprecise" (added for the varint readers of C07).
// Every axiom is a theorem of two's-complement arithmetic; they are instantiated per application of the operator.
//
//   x | 0 = x,  0 | y = y
//   0 <= x < 2^k,  2^k divides y (y of either sign)   ==>   x | y = x + y   (k = 7, 14, ..., below the width)
//   x ^ 0 = x,  0 ^ y = y,  x ^ allOnes = allOnes - x   (allOnes = 2^w - 1 unsigned, -1 signed)

import (
	"fmt"
	"go/types"
)

func (e *Engine) bitPreciseAxioms(op, name string, rt *types.Basic) {
	app := fmt.Sprintf("(%s x y)", name)
	lo, hi, _ := intRange(rt)
	inRange := fmt.Sprintf("(and (<= %s x) (<= x %s) (<= %s y) (<= y %s))", BigLit(lo).S, BigLit(hi).S, BigLit(lo).S, BigLit(hi).S)
	add := func(body string) {
		// only for operands of the operator's own type: the range axiom of the result holds for all x, y, so an
		// unguarded "x | 0 = x" would be inconsistent with it for x outside the type
		e.u.AddAxiom(name, Term{fmt.Sprintf("(forall ((x Int) (y Int)) (! (=> %s %s) :pattern (%s)))", inRange, body, app), SBool})
	}
	w := int(intBits(rt))
	switch op {
	case "bor":
		add(fmt.Sprintf("(and (=> (= y 0) (= %s x)) (=> (= x 0) (= %s y)))", app, app))
		for k := 7; k < w; k += 7 {
			p := pow2(uint(k)).String()
			add(fmt.Sprintf("(=> (and (<= 0 x) (< x %s) (= (mod y %s) 0)) (= %s (+ x y)))", p, p, app))
		}
	case "bxor":
		ones := "(- 1)"
		if isUnsigned(rt) {
			ones = pow2(uint(w)).String()
			ones = fmt.Sprintf("(- %s 1)", ones)
		}
		add(fmt.Sprintf("(and (=> (= y 0) (= %s x)) (=> (= x 0) (= %s y)) (=> (= y %s) (= %s (- %s x))) (=> (= x %s) (= %s (- %s y))))", app, app, ones, app, ones, ones, app, ones))
	}
	e.abstract("bitprecise: exact two's-complement facts about " + name + " (theorems, not assumptions about the code)")
}
