package main

// Static lock-discipline contracts (property C41).
//
// Type contracts (in the comment-only contract files):
//
//	//@ type PartitionLog
//	//@   protected_by mu: buffer, nextOffset, ...       field may be read or written only with <base>.mu held
//	//@   immutable: namespace, topic, ...               written only while the object is under construction
//	//@   sync: mu, prefetchMu, flushCond                synchronisation objects / self-synchronised values
//	//@   owner_lock SegmentCache.mu: key, data          field of an object owned by a locked container: some lock
//	//@                                                  of that type/field must be held
//	//@   complete                                       every field of the struct must be declared
//
// Function contracts:
//
//	//@ func (l *PartitionLog) prepareFlush
//	//@   requires_held mu                               entry lockset = {receiver.mu}; every static call site must hold it
//	//@ func (l *PartitionLog) RestoreFromS3
//	//@   unshared_receiver                              receiver is not yet shared: accesses through it are exempt, and every
//	//@                                                  static call site must pass a value that comes straight from a
//	//@                                                  constructor (returns_fresh) and is not used before the call otherwise
//	//@ func NewPartitionLog
//	//@   returns_fresh
//
// The analysis is a forward must-lockset data flow over the SSA control-flow graph of every function (and closure)
// of the unit's packages. Lock identity is a canonical access path (parameter / captured variable / immutable-field
// loads / field addresses). It is a *must* analysis: a lock counts as held only if it is held on every path to the
// instruction, so "lock held" answers are sound; everything it cannot name is treated as not held (may produce an
// alarm, never a false proof). Objects allocated in the function itself (constructors) are exempt.

import (
	"fmt"
	"go/token"
	"go/types"
	"sort"
	"strings"

	"golang.org/x/tools/go/ssa"
)

type lockSet map[string]bool // nil = TOP (unreached)

func (a lockSet) clone() lockSet {
	if a == nil {
		return nil
	}
	b := lockSet{}
	for k := range a {
		b[k] = true
	}
	return b
}

func meet(a, b lockSet) lockSet {
	if a == nil {
		return b.clone()
	}
	if b == nil {
		return a.clone()
	}
	r := lockSet{}
	for k := range a {
		if b[k] {
			r[k] = true
		}
	}
	return r
}

func sameSet(a, b lockSet) bool {
	if (a == nil) != (b == nil) || len(a) != len(b) {
		return false
	}
	for k := range a {
		if !b[k] {
			return false
		}
	}
	return true
}

type lockAnalysis struct {
	e      *Engine
	opaque map[ssa.Value]string
	single map[*ssa.Alloc]ssa.Value // allocs with exactly one store -> stored value (nil entry = not single)
	seenA  map[*ssa.Alloc]bool
}

func namedOf(t types.Type) *types.Named {
	if p, ok := t.(*types.Pointer); ok {
		t = p.Elem()
	}
	t = types.Unalias(t)
	n, _ := t.(*types.Named)
	return n
}

func (la *lockAnalysis) typeContract(t types.Type) (*TypeContract, *types.Named) {
	n := namedOf(t)
	if n == nil || n.Obj().Pkg() == nil {
		return nil, nil
	}
	tc := la.e.cs.Types[n.Obj().Pkg().Path()+"."+n.Obj().Name()]
	return tc, n
}

// fieldClass returns the discipline declared for field name of tc: "protected:<mu>", "immutable", "sync", "owner:<T.mu>", "".
func fieldClass(tc *TypeContract, name string) string {
	for mu, fs := range tc.ProtectedBy {
		for _, f := range fs {
			if f == name {
				return "protected:" + mu
			}
		}
	}
	for _, f := range tc.Immutable {
		if f == name {
			return "immutable"
		}
	}
	for _, f := range tc.Sync {
		if f == name {
			return "sync"
		}
	}
	for ow, fs := range tc.OwnerLock {
		for _, f := range fs {
			if f == name {
				return "owner:" + ow
			}
		}
	}
	return ""
}

// singleStore: the value stored into a local cell when the cell has exactly one Store and is otherwise only loaded
// (or captured by closures that only load it).
func (la *lockAnalysis) singleStore(a *ssa.Alloc) ssa.Value {
	if la.seenA[a] {
		return la.single[a]
	}
	la.seenA[a] = true
	var stored ssa.Value
	n := 0
	ok := true
	var visit func(refs []ssa.Instruction, self ssa.Value)
	visit = func(refs []ssa.Instruction, self ssa.Value) {
		for _, r := range refs {
			switch x := r.(type) {
			case *ssa.Store:
				if x.Addr == self {
					n++
					stored = x.Val
				} else {
					ok = false // the address itself is stored somewhere
				}
			case *ssa.UnOp:
				if x.Op != token.MUL {
					ok = false
				}
			case *ssa.DebugRef:
			case *ssa.MakeClosure:
				// captured by reference: look at the uses of the corresponding free variable
				fn := x.Fn.(*ssa.Function)
				for i, b := range x.Bindings {
					if b == self && i < len(fn.FreeVars) {
						fv := fn.FreeVars[i]
						if fv.Referrers() != nil {
							visit(*fv.Referrers(), fv)
						}
					}
				}
			default:
				ok = false
			}
		}
	}
	if a.Referrers() != nil {
		visit(*a.Referrers(), a)
	}
	if ok && n == 1 {
		la.single[a] = stored
	}
	return la.single[a]
}

// bindingOf finds the parent's value bound to free variable fv of closure fn.
func bindingOf(fv *ssa.FreeVar) ssa.Value {
	fn := fv.Parent()
	par := fn.Parent()
	if par == nil {
		return nil
	}
	idx := -1
	for i, v := range fn.FreeVars {
		if v == fv {
			idx = i
		}
	}
	if idx < 0 {
		return nil
	}
	for _, b := range par.Blocks {
		for _, in := range b.Instrs {
			if mc, ok := in.(*ssa.MakeClosure); ok && mc.Fn == fn && idx < len(mc.Bindings) {
				return mc.Bindings[idx]
			}
		}
	}
	return nil
}

// canon gives the canonical access path of a value, or an opaque unique name.
func (la *lockAnalysis) canon(v ssa.Value, depth int) string {
	if depth > 12 {
		return la.opaqueName(v)
	}
	switch x := v.(type) {
	case *ssa.Parameter:
		return "p:" + x.Name()
	case *ssa.Alloc:
		return "alloc:" + x.Parent().Name() + ":" + x.Name()
	case *ssa.Global:
		return "g:" + x.String()
	case *ssa.FieldAddr:
		st := x.X.Type().(*types.Pointer).Elem().Underlying().(*types.Struct)
		return la.canon(x.X, depth+1) + "." + st.Field(x.Field).Name()
	case *ssa.ChangeType:
		return la.canon(x.X, depth+1)
	case *ssa.Call:
		// result of a constructor (returns_fresh): an object under construction in this function
		if callee := x.Common().StaticCallee(); callee != nil {
			if c := la.e.contractFor(callee); c != nil && c.Flags["returns_fresh"] != "" {
				return "alloc:fresh:" + x.Parent().Name() + ":" + x.Name()
			}
		}
	case *ssa.UnOp:
		if x.Op != token.MUL {
			break
		}
		switch a := x.X.(type) {
		case *ssa.Alloc:
			if sv := la.singleStore(a); sv != nil {
				return la.canon(sv, depth+1)
			}
		case *ssa.FreeVar:
			// value of a captured variable: stable only if the variable is assigned once
			if b := bindingOf(a); b != nil {
				if al, ok := b.(*ssa.Alloc); ok {
					if sv := la.singleStore(al); sv != nil {
						// the stored value lives in the parent function: name it relative to the captured variable
						if p, ok := sv.(*ssa.Parameter); ok {
							return "p:" + p.Name() // same object as the parent's parameter (e.g. the receiver)
						}
						return "cap:" + a.Name()
					}
				} else if fv2, ok := b.(*ssa.FreeVar); ok {
					// nested closure re-capturing
					_ = fv2
					return "cap:" + a.Name()
				}
			}
		case *ssa.FieldAddr:
			// load of a pointer-valued field: stable if the field is immutable
			if tc, _ := la.typeContract(a.X.Type()); tc != nil {
				st := a.X.Type().(*types.Pointer).Elem().Underlying().(*types.Struct)
				if fieldClass(tc, st.Field(a.Field).Name()) == "immutable" {
					return la.canon(a, depth+1) + "*"
				}
			}
		}
	}
	return la.opaqueName(v)
}

func (la *lockAnalysis) opaqueName(v ssa.Value) string {
	if n, ok := la.opaque[v]; ok {
		return n
	}
	n := fmt.Sprintf("v%d:%s", len(la.opaque), v.Name())
	la.opaque[v] = n
	return n
}

// rootIsLocalAlloc: the access path starts at an object allocated by this function (constructor phase).
func rootIsLocalAlloc(path string) bool { return strings.HasPrefix(path, "alloc:") }

func mutexOp(cc *ssa.CallCommon) (op string, ok bool) {
	callee := cc.StaticCallee()
	if callee == nil {
		return "", false
	}
	switch callee.String() {
	case "(*sync.Mutex).Lock", "(*sync.RWMutex).Lock":
		return "lock", true
	case "(*sync.Mutex).Unlock", "(*sync.RWMutex).Unlock":
		return "unlock", true
	case "(*sync.RWMutex).RLock":
		return "rlock", true
	case "(*sync.RWMutex).RUnlock":
		return "runlock", true
	}
	return "", false
}

func (la *lockAnalysis) transfer(in ssa.Instruction, ls lockSet) {
	call, ok := in.(*ssa.Call)
	if !ok {
		return
	}
	cc := call.Common()
	op, ok := mutexOp(cc)
	if !ok || len(cc.Args) == 0 {
		return
	}
	id := la.canon(cc.Args[0], 0)
	switch op {
	case "lock":
		ls["W:"+id] = true
	case "unlock":
		delete(ls, "W:"+id)
	case "rlock":
		ls["R:"+id] = true
	case "runlock":
		delete(ls, "R:"+id)
	}
}

// isWriteAccess: the field address is stored through, escapes into a call, or (for maps) the loaded map is updated.
func isWriteAccess(fa ssa.Value, depth int) bool {
	refs := fa.Referrers()
	if refs == nil || depth > 6 {
		return false
	}
	for _, r := range *refs {
		switch x := r.(type) {
		case *ssa.Store:
			if x.Addr == fa {
				return true
			}
		case *ssa.FieldAddr:
			if isWriteAccess(x, depth+1) {
				return true
			}
		case *ssa.IndexAddr:
			if isWriteAccess(x, depth+1) {
				return true
			}
		case *ssa.UnOp:
			if x.Op == token.MUL {
				// loaded value: map update / delete / element store through a loaded slice or map
				if lr := x.Referrers(); lr != nil {
					for _, u := range *lr {
						switch y := u.(type) {
						case *ssa.MapUpdate:
							if y.Map == x {
								return true
							}
						case *ssa.Call:
							if b, ok := y.Common().Value.(*ssa.Builtin); ok && (b.Name() == "delete" || b.Name() == "clear") && len(y.Common().Args) > 0 && y.Common().Args[0] == x {
								return true
							}
						case *ssa.IndexAddr:
							if y.X == x && isWriteAccess(y, depth+1) {
								return true
							}
						}
					}
				}
			}
		case *ssa.Call:
			// address passed to a function: assume it may write (sync methods are handled before this is asked)
			return true
		case *ssa.MakeClosure, *ssa.MakeInterface, *ssa.Phi:
			return true
		}
	}
	return false
}

type lockSite struct {
	name, tag, desc, pos string
	ok                   bool
	why                  string
}

// RunLockset analyses every function of the unit's packages and registers the lock-discipline obligations.
func (e *Engine) RunLockset(pkgPaths map[string]bool, idPrefix string) {
	la := &lockAnalysis{e: e, opaque: map[ssa.Value]string{}, single: map[*ssa.Alloc]ssa.Value{}, seenA: map[*ssa.Alloc]bool{}}
	var fns []*ssa.Function
	for _, f := range e.funcsByKey {
		if f.Blocks == nil {
			continue
		}
		root := f
		for root.Parent() != nil {
			root = root.Parent()
		}
		if root.Pkg == nil || !pkgPaths[root.Pkg.Pkg.Path()] {
			continue
		}
		fns = append(fns, f)
	}
	sort.Slice(fns, func(i, j int) bool { return funcKey(fns[i]) < funcKey(fns[j]) })
	var sites []lockSite
	declaredUsed := map[string]bool{}
	for _, fn := range fns {
		sites = append(sites, la.analyse(fn, idPrefix, declaredUsed)...)
	}
	// completeness of type contracts
	for _, tn := range sortedKeys(e.cs.Types) {
		tc := e.cs.Types[tn]
		if !tc.Complete {
			continue
		}
		k := strings.LastIndex(tn, ".")
		if k < 0 || !pkgPaths[tn[:k]] {
			continue
		}
		var st *types.Struct
		for _, p := range e.pkgs {
			if p.PkgPath == tn[:k] && p.Types != nil {
				if obj := p.Types.Scope().Lookup(tn[k+1:]); obj != nil {
					st, _ = obj.Type().Underlying().(*types.Struct)
				}
			}
		}
		short := tn[k+1:]
		if st == nil {
			sites = append(sites, lockSite{name: shortKey(tn) + "#lockset:fields_declared", tag: idPrefix + ".fields_declared." + short, desc: "type " + short + " not found", ok: false, why: "type contract names an unknown struct", pos: "?"})
			continue
		}
		var missing []string
		for i := 0; i < st.NumFields(); i++ {
			if fieldClass(tc, st.Field(i).Name()) == "" {
				missing = append(missing, st.Field(i).Name())
			}
		}
		s := lockSite{name: shortKey(tn) + "#lockset:fields_declared", tag: idPrefix + ".fields_declared." + short, pos: "?",
			desc: fmt.Sprintf("every field of %s has a declared discipline (protected_by / immutable / sync / owner_lock)", short), ok: len(missing) == 0}
		if len(missing) > 0 {
			s.why = "undeclared fields: " + strings.Join(missing, ", ")
		}
		sites = append(sites, s)
	}
	// register as obligations (grouped by name later in check.go)
	for _, st := range sites {
		o := &Obligation{Name: st.name, Kind: "lockset", Tag: st.tag, Root: "lockset", Pos: st.pos, Goal: TTrue, Desc: st.desc, U: e.u,
			Result: &SolverResult{Status: "unsat", Solver: "static-lockset-analysis"}}
		if !st.ok {
			o.Goal = TFalse
			o.Desc = st.desc + " — " + st.why
			o.Result = &SolverResult{Status: "sat", Solver: "static-lockset-analysis", Output: st.why + " at " + st.pos}
		}
		e.obligations = append(e.obligations, o)
	}
}

func (la *lockAnalysis) analyse(fn *ssa.Function, idPrefix string, used map[string]bool) []lockSite {
	e := la.e
	fkey := shortKey(funcKey(fn))
	c := e.contractFor(fn)
	entry := lockSet{}
	unsharedRecv := ""
	if c != nil {
		if mu := c.Flags["requires_held"]; mu != "" && len(fn.Params) > 0 {
			for _, m := range strings.Split(mu, ",") {
				entry["W:p:"+fn.Params[0].Name()+"."+strings.TrimSpace(m)] = true
			}
		}
		if c.Flags["unshared_receiver"] != "" && len(fn.Params) > 0 {
			unsharedRecv = "p:" + fn.Params[0].Name()
		}
	}
	// data flow
	in := make([]lockSet, len(fn.Blocks))
	out := make([]lockSet, len(fn.Blocks))
	in[0] = entry
	changed := true
	for iter := 0; changed && iter < 100; iter++ {
		changed = false
		for _, b := range fn.Blocks {
			var cur lockSet
			if b.Index == 0 {
				cur = entry.clone()
			} else {
				for _, p := range b.Preds {
					if out[p.Index] != nil {
						cur = meet(cur, out[p.Index])
					}
				}
				if cur == nil {
					continue // unreached so far
				}
			}
			in[b.Index] = cur.clone()
			for _, ins := range b.Instrs {
				la.transfer(ins, cur)
			}
			if !sameSet(out[b.Index], cur) {
				out[b.Index] = cur
				changed = true
			}
		}
	}
	// checks
	var sites []lockSite
	if c != nil && c.Flags["same_critical_section"] != "" && len(fn.Params) > 0 {
		sites = append(sites, la.sameCriticalSection(fn, c, fkey)...)
	}
	holds := func(ls lockSet, id string, write bool) bool {
		if ls["W:"+id] {
			return true
		}
		return !write && ls["R:"+id]
	}
	holdsOwner := func(ls lockSet, typeDotMu string) bool {
		// some held lock whose path ends in .<mu> on an object of the owner type cannot be typed from the path alone;
		// we accept a held lock whose last component is the owner's mutex field name
		k := strings.LastIndex(typeDotMu, ".")
		mu := typeDotMu[k+1:]
		for l := range ls {
			if strings.HasSuffix(l, "."+mu) {
				return true
			}
		}
		return false
	}
	for _, b := range fn.Blocks {
		if in[b.Index] == nil {
			continue // unreachable
		}
		cur := in[b.Index].clone()
		for _, ins := range b.Instrs {
			switch x := ins.(type) {
			case *ssa.FieldAddr:
				tc, named := la.typeContract(x.X.Type())
				if tc == nil {
					break
				}
				st := x.X.Type().(*types.Pointer).Elem().Underlying().(*types.Struct)
				fname := st.Field(x.Field).Name()
				class := fieldClass(tc, fname)
				tname := named.Obj().Name()
				base := la.canon(x.X, 0)
				pos := posString(e.fset, x.Pos())
				if ws, ok := tc.Writers[fname]; ok && isWriteAccess(x, 0) && !rootIsLocalAlloc(base) {
					// closed world of writers: only the listed functions (and closures inside them) may write this field
					root := fn
					for root.Parent() != nil {
						root = root.Parent()
					}
					allowed := false
					for _, w := range ws {
						if w == root.Name() {
							allowed = true
						}
					}
					s := lockSite{name: fmt.Sprintf("%s#writers:%s.%s", fkey, tname, fname), tag: fmt.Sprintf("%s.writers.%s.%s", idPrefix, tname, fname), pos: pos, ok: allowed,
						desc: fmt.Sprintf("%s.%s is written only by %s", tname, fname, strings.Join(ws, ", "))}
					if !allowed {
						s.why = fmt.Sprintf("%s writes %s.%s but is not one of its declared writers", root.Name(), tname, fname)
					}
					sites = append(sites, s)
				}
				if class == "" {
					break
				}
				if rootIsLocalAlloc(base) || (unsharedRecv != "" && base == unsharedRecv) {
					break // under construction / not yet shared
				}
				name := fmt.Sprintf("%s#lockset:%s.%s", fkey, tname, fname)
				tag := fmt.Sprintf("%s.lock.%s.%s", idPrefix, tname, fname)
				switch {
				case strings.HasPrefix(class, "protected:"):
					mu := strings.TrimPrefix(class, "protected:")
					w := isWriteAccess(x, 0)
					ok := holds(cur, base+"."+mu, w)
					s := lockSite{name: name, tag: tag, pos: pos, ok: ok, desc: fmt.Sprintf("%s.%s accessed only with %s held", tname, fname, mu)}
					if !ok {
						kind := "read"
						if w {
							kind = "write"
						}
						s.why = fmt.Sprintf("%s of %s.%s without %s.%s held (held: %s)", kind, base, fname, base, mu, strings.Join(sortedKeys(cur), ","))
					}
					sites = append(sites, s)
				case class == "immutable":
					if isWriteAccess(x, 0) && !isSyncAddrUse(x) {
						sites = append(sites, lockSite{name: name, tag: tag, pos: pos, ok: false, desc: fmt.Sprintf("%s.%s is immutable after construction", tname, fname),
							why: fmt.Sprintf("write to immutable field %s.%s outside construction", base, fname)})
					} else {
						sites = append(sites, lockSite{name: name, tag: tag, pos: pos, ok: true, desc: fmt.Sprintf("%s.%s is immutable after construction", tname, fname)})
					}
				case strings.HasPrefix(class, "owner:"):
					ow := strings.TrimPrefix(class, "owner:")
					ok := holdsOwner(cur, ow)
					s := lockSite{name: name, tag: tag, pos: pos, ok: ok, desc: fmt.Sprintf("%s.%s accessed only with its owner's lock %s held", tname, fname, ow)}
					if !ok {
						s.why = fmt.Sprintf("access to %s.%s without a %s lock held (held: %s)", base, fname, ow, strings.Join(sortedKeys(cur), ","))
					}
					sites = append(sites, s)
				}
			case *ssa.Call:
				cc := x.Common()
				if callee := cc.StaticCallee(); callee != nil {
					if cc2 := e.contractFor(callee); cc2 != nil && len(cc.Args) > 0 {
						if mu := cc2.Flags["requires_held"]; mu != "" {
							base := la.canon(cc.Args[0], 0)
							for _, m := range strings.Split(mu, ",") {
								m = strings.TrimSpace(m)
								ok := cur["W:"+base+"."+m] || rootIsLocalAlloc(base)
								s := lockSite{name: fmt.Sprintf("%s#lockset:call.%s", fkey, callee.Name()), tag: fmt.Sprintf("%s.held_at_call.%s", idPrefix, callee.Name()),
									pos: posString(e.fset, x.Pos()), ok: ok, desc: fmt.Sprintf("%s is called only with %s held", callee.Name(), m)}
								if !ok {
									s.why = fmt.Sprintf("call of %s without %s.%s held (held: %s)", callee.Name(), base, m, strings.Join(sortedKeys(cur), ","))
								}
								sites = append(sites, s)
							}
						}
						if cc2.Flags["unshared_receiver"] != "" {
							ok, why := la.unsharedAtCall(fn, x)
							s := lockSite{name: fmt.Sprintf("%s#lockset:unshared.%s", fkey, callee.Name()), tag: fmt.Sprintf("%s.unshared_at_call.%s", idPrefix, callee.Name()),
								pos: posString(e.fset, x.Pos()), ok: ok, desc: fmt.Sprintf("%s is called only on an object that is not yet shared", callee.Name()), why: why}
							sites = append(sites, s)
						}
					}
				}
			}
			// goroutine spawns: a local variable captured by a spawned closure must not be reassigned (by either side)
			if mc := spawnedClosure(ins); mc != nil {
				cf := mc.Fn.(*ssa.Function)
				for i, bnd := range mc.Bindings {
					al, isAlloc := bnd.(*ssa.Alloc)
					if !isAlloc || i >= len(cf.FreeVars) {
						continue
					}
					if n := namedOf(al.Type().(*types.Pointer).Elem()); n != nil && n.Obj().Pkg() != nil {
						if pp := n.Obj().Pkg().Path(); pp == "sync" || pp == "sync/atomic" || strings.HasPrefix(pp, "golang.org/x/sync/") {
							continue // a synchronisation object shared on purpose (WaitGroup, Mutex, errgroup.Group, atomic.*)
						}
					}
					vname := cf.FreeVars[i].Name()
					ok := la.singleStore(al) != nil || onlyLoaded(al) || la.storesPrecedeSpawn(fn, al, ins)
					s := lockSite{name: fmt.Sprintf("%s#lockset:spawn.%s", fkey, vname), tag: idPrefix + ".spawn_captures_stable", pos: posString(e.fset, ins.Pos()), ok: ok,
						desc: "local variable " + vname + " captured by a spawned goroutine is never reassigned"}
					if !ok {
						s.why = "variable " + vname + " is shared with a goroutine and assigned more than once (or its address escapes)"
					}
					sites = append(sites, s)
				}
			}
			la.transfer(ins, cur)
		}
	}
	_ = used
	return sites
}

// isSyncAddrUse: the only "escaping" uses of the address are calls of sync primitives (e.g. sync.NewCond(&x.mu)).
func isSyncAddrUse(fa *ssa.FieldAddr) bool { return false }

// unsharedAtCall: the receiver argument of call is the result of a returns_fresh constructor called in fn, held in a
// local variable, and every other use of that variable is dominated by (comes after) the call.
func (la *lockAnalysis) unsharedAtCall(fn *ssa.Function, call *ssa.Call) (bool, string) {
	cc := call.Common()
	recv := cc.Args[0]
	ld, ok := recv.(*ssa.UnOp)
	var cell *ssa.Alloc
	var val ssa.Value = recv
	if ok && ld.Op == token.MUL {
		if a, ok := ld.X.(*ssa.Alloc); ok {
			cell = a
			val = la.singleStore(a)
			if val == nil {
				return false, "receiver variable is assigned more than once or its address escapes"
			}
		}
	}
	src, ok := val.(*ssa.Call)
	if !ok {
		return false, "receiver does not come from a constructor call in this function"
	}
	callee := src.Common().StaticCallee()
	if callee == nil {
		return false, "receiver comes from a dynamic call"
	}
	if c := la.e.contractFor(callee); c == nil || c.Flags["returns_fresh"] == "" {
		return false, "receiver comes from " + callee.Name() + ", which has no returns_fresh contract"
	}
	// every use of the variable (other than the defining store and this call's own load) must come after the call
	after := func(in ssa.Instruction) bool {
		if in.Block() == call.Block() {
			return instrAfter(call, in)
		}
		return call.Block().Dominates(in.Block())
	}
	var uses []ssa.Instruction
	if cell != nil && cell.Referrers() != nil {
		for _, r := range *cell.Referrers() {
			switch x := r.(type) {
			case *ssa.Store, *ssa.DebugRef:
			case *ssa.UnOp:
				if ssa.Value(x) == recv {
					continue
				}
				if x.Referrers() != nil {
					for _, u := range *x.Referrers() {
						uses = append(uses, u)
					}
				}
			default:
				uses = append(uses, r)
			}
		}
	} else if src.Referrers() != nil {
		for _, r := range *src.Referrers() {
			if r != ssa.Instruction(call) {
				uses = append(uses, r)
			}
		}
	}
	for _, u := range uses {
		if _, ok := u.(*ssa.DebugRef); ok {
			continue
		}
		if !after(u) {
			return false, "the object is used at " + posString(la.e.fset, u.Pos()) + " before (or not after) this call, so it may already be shared"
		}
	}
	return true, ""
}

// instrAfter: b comes strictly after a in the same block.
func instrAfter(a, b ssa.Instruction) bool {
	if a.Block() != b.Block() {
		return false
	}
	seen := false
	for _, i := range a.Block().Instrs {
		if i == a {
			seen = true
			continue
		}
		if i == b {
			return seen
		}
	}
	return false
}

// spawnedClosure: the closure started by a go statement or handed to (*errgroup.Group).Go.
func spawnedClosure(in ssa.Instruction) *ssa.MakeClosure {
	switch x := in.(type) {
	case *ssa.Go:
		if mc, ok := x.Common().Value.(*ssa.MakeClosure); ok {
			return mc
		}
	case *ssa.Call:
		if callee := x.Common().StaticCallee(); callee != nil && callee.String() == "(*golang.org/x/sync/errgroup.Group).Go" && len(x.Common().Args) == 2 {
			if mc, ok := x.Common().Args[1].(*ssa.MakeClosure); ok {
				return mc
			}
		}
	}
	return nil
}

// onlyLoaded: the cell is never stored to (e.g. a parameter cell is stored once; a zero-valued var never).
func onlyLoaded(a *ssa.Alloc) bool {
	if a.Referrers() == nil {
		return true
	}
	for _, r := range *a.Referrers() {
		if st, ok := r.(*ssa.Store); ok && st.Addr == ssa.Value(a) {
			return false
		}
	}
	return false
}

// storesPrecedeSpawn: no assignment to the captured variable can execute after the spawn (none is reachable from the
// spawn in the control-flow graph) and no closure assigns it: the goroutine then only ever sees the final value.
func (la *lockAnalysis) storesPrecedeSpawn(fn *ssa.Function, al *ssa.Alloc, spawn ssa.Instruction) bool {
	if al.Referrers() == nil {
		return true
	}
	// blocks reachable from the spawn's block through at least one edge
	reach := map[*ssa.BasicBlock]bool{}
	work := append([]*ssa.BasicBlock(nil), spawn.Block().Succs...)
	for len(work) > 0 {
		b := work[len(work)-1]
		work = work[:len(work)-1]
		if reach[b] {
			continue
		}
		reach[b] = true
		work = append(work, b.Succs...)
	}
	for _, r := range *al.Referrers() {
		switch x := r.(type) {
		case *ssa.Store:
			if x.Addr != ssa.Value(al) {
				return false // the variable's address is stored somewhere
			}
			if reach[x.Block()] {
				return false
			}
			if x.Block() == spawn.Block() && !instrAfter(x, spawn) {
				return false
			}
		case *ssa.UnOp, *ssa.DebugRef:
		case *ssa.MakeClosure:
			cf := x.Fn.(*ssa.Function)
			for i, b := range x.Bindings {
				if b == ssa.Value(al) && i < len(cf.FreeVars) && cf.FreeVars[i].Referrers() != nil {
					for _, u := range *cf.FreeVars[i].Referrers() {
						if st, ok := u.(*ssa.Store); ok && st.Addr == ssa.Value(cf.FreeVars[i]) {
							return false
						}
						if _, ok := u.(*ssa.MakeClosure); ok {
							return false // re-captured by a nested closure: not tracked
						}
					}
				}
			}
		default:
			return false
		}
	}
	return true
}

// sameCriticalSection: "same_critical_section [tag] mu: f, g, ..." - every call of the listed callees in this method
// happens while the receiver's mutex mu is held, and all of them inside ONE critical section: the lock they run
// under was taken by the same Lock() call and not released in between (a forward data flow of "the Lock site whose
// acquisition is still in force", meet = equal or nothing).
func (la *lockAnalysis) sameCriticalSection(fn *ssa.Function, c *FuncContract, fkey string) []lockSite {
	spec := c.Flags["same_critical_section"]
	tag := ""
	if strings.HasPrefix(spec, "[") {
		if k := strings.Index(spec, "]"); k > 0 {
			tag = spec[1:k]
			spec = strings.TrimSpace(spec[k+1:])
		}
	}
	k := strings.Index(spec, ":")
	if k < 0 {
		la.e.bail("same_critical_section [tag] mu: f, g")
	}
	mu := strings.TrimSpace(spec[:k])
	want := map[string]bool{}
	for _, f := range strings.Split(spec[k+1:], ",") {
		want[strings.TrimSpace(f)] = true
	}
	lockID := "p:" + fn.Params[0].Name() + "." + mu
	const top = "\x00top"
	out := make([]string, len(fn.Blocks))
	in := make([]string, len(fn.Blocks))
	for i := range out {
		out[i], in[i] = top, top
	}
	step := func(ins ssa.Instruction, cur string) string {
		call, ok := ins.(*ssa.Call)
		if !ok {
			return cur
		}
		op, ok := mutexOp(call.Common())
		if !ok || len(call.Common().Args) == 0 || la.canon(call.Common().Args[0], 0) != lockID {
			return cur
		}
		switch op {
		case "lock":
			return posString(la.e.fset, call.Pos())
		case "unlock":
			return ""
		}
		return cur
	}
	changed := true
	for iter := 0; changed && iter < 100; iter++ {
		changed = false
		for _, b := range fn.Blocks {
			cur := ""
			if b.Index != 0 {
				cur = top
				for _, p := range b.Preds {
					o := out[p.Index]
					if o == top {
						continue
					}
					if cur == top {
						cur = o
					} else if cur != o {
						cur = ""
					}
				}
				if cur == top {
					continue
				}
			}
			in[b.Index] = cur
			for _, ins := range b.Instrs {
				cur = step(ins, cur)
			}
			if out[b.Index] != cur {
				out[b.Index] = cur
				changed = true
			}
		}
	}
	var bad []string
	section := ""
	n := 0
	for _, b := range fn.Blocks {
		if in[b.Index] == top {
			continue
		}
		cur := in[b.Index]
		for _, ins := range b.Instrs {
			if call, ok := ins.(*ssa.Call); ok {
				name := calleeShortName(call.Common())
				if want[name] {
					n++
					pos := posString(la.e.fset, call.Pos())
					switch {
					case cur == "":
						bad = append(bad, name+" at "+pos+" is called without "+mu+" held since one Lock()")
					case section == "":
						section = cur
					case section != cur:
						bad = append(bad, name+" at "+pos+" runs in the critical section opened at "+cur+", another listed call in the one opened at "+section)
					}
				}
			}
			cur = step(ins, cur)
		}
	}
	if n == 0 {
		bad = append(bad, "none of the listed callees is called here")
	}
	sort.Strings(bad)
	st := lockSite{name: fmt.Sprintf("%s#lockset:section.%s", fkey, mu), tag: tag, pos: posString(la.e.fset, fn.Pos()), ok: len(bad) == 0,
		desc: fmt.Sprintf("the calls of %s happen inside one critical section of %s", strings.TrimSpace(spec[k+1:]), mu)}
	if len(bad) > 0 {
		st.why = strings.Join(bad, "; ")
	}
	return []lockSite{st}
}
