package main

// Additions made for the consumer-group coordinator properties (C12-C16, C43). Everything here is additive:
//
//  1. A stronger model of `for k, v := range m` over a map. The base model (models.go execNext) lets every
//     iteration see an arbitrary key of the current domain. Here each map-range loop additionally owns two ghost
//     values, keyed by (function, loop ordinal):
//         seen : Array K Bool   keys produced so far by this execution of the loop
//         cnt  : Int            number of keys produced so far
//     They are reset by the Range instruction, updated by Next, havocked at the loop head together with the rest
//     of the loop's write set, and readable in contracts as seen(N, k) and rangecnt(N) (N = loop ordinal).
//     Facts assumed at Next, following the Go specification of range over maps:
//       * the loop body never inserts into a map of this type (it may delete):
//             ok  ==> !seen[k]                              (an entry is produced at most once)
//             !ok ==> forall q :: q in dom(m) ==> seen[q]   (every entry still present was produced)
//       * the loop body neither inserts into nor deletes from a map of this type:
//             ok  ==> cnt < len(m)        !ok ==> cnt == len(m)
//     "The loop body" is decided statically and conservatively on the loop's blocks and the transitive write sets
//     of the functions it calls (per map type, not per map object).
//
//  2. `returns_fresh` on extern contracts: the single pointer result is a newly allocated object (its fields are
//     unconstrained). Used for the kmsg.NewPtr* constructors (spec/kmsg_coord.spec).
//
//  3. Trusted models of sort.Strings / sort.Slice (the slice's backing array is replaced by a permutation of
//     itself; the resulting order is not modelled) and of the time.Time methods the coordinator
//     uses, over an abstract instant (see modelCoordCall).

import (
	"fmt"
	"go/types"
	"strings"

	"golang.org/x/tools/go/ssa"
)

// contract keywords introduced here (registered from this file so that contract.go stays untouched)
func init() {
	for _, k := range []string{"nostrlen", "opaque_strings", "merge_branches", "opaque_field_addrs", "sort_forward_only"} {
		clauseKeywords[k] = true
	}
	// one more member of the solver race (second stage only: its name does not match the first-stage filter
	// "z3-new"): z3 with lazier quantifier instantiation, which decides many obligations whose assumption set holds
	// dozens of quantified frame / invariant facts where the default configuration diverges
	solvers = append(solvers, solverSpec{"z3qi-5.1.0", func(f string, t int) []string {
		return []string{"z3-new", fmt.Sprintf("-T:%d", t), "smt.qi.eager_threshold=100", "-smt2", f}
	}, ""})
	// and the default configuration under another random seed (the large merged-state queries of JoinGroup are
	// decided in seconds under some seeds and not at all under others)
	solvers = append(solvers, solverSpec{"z3seed5-5.1.0", func(f string, t int) []string {
		return []string{"z3-new", fmt.Sprintf("-T:%d", t), "smt.random_seed=5", "-smt2", f}
	}, ""})
}

// ---------------------------------------------------------------------------
// 1. map range ghosts

type rangeMode int

const (
	rangeUnsafe  rangeMode = iota // the body may insert into a map of this type: base model only
	rangeDelOnly                  // the body may delete but never inserts
	rangePure                     // the body never writes a map of this type
)

// rangeLoop finds the loop whose header holds the Next instruction of a map range.
func (e *Engine) rangeLoop(nx *ssa.Next) *LoopInfo {
	fl := e.loopsOf(nx.Parent())
	return fl.ByHeader[nx.Block()]
}

func rangeNextOf(r *ssa.Range) *ssa.Next {
	if r.Referrers() == nil {
		return nil
	}
	for _, ref := range *r.Referrers() {
		if nx, ok := ref.(*ssa.Next); ok {
			return nx
		}
	}
	return nil
}

func (e *Engine) rangeGhostKeys(fn *ssa.Function, ord int, mt *types.Map) (seenKey, cntKey string) {
	base := fmt.Sprintf("%s|%d", shortKey(funcKey(fn)), ord)
	seenKey = "G|range.seen|" + base
	cntKey = "G|range.cnt|" + base
	if _, ok := e.heapSorts[seenKey]; !ok {
		ks := e.tm.SortOf(mt.Key())
		e.heapSorts[seenKey] = ArraySort(ks, SBool)
		e.heapSorts[cntKey] = SInt
		e.heapValKind[seenKey], e.heapValKind[cntKey] = "", ""
	}
	return
}

// rangeGhostWrites adds the ghosts of a map range to a write set (called for Range and Next instructions).
func (e *Engine) rangeGhostWrites(in ssa.Instruction, w *WriteSet) {
	var nx *ssa.Next
	switch x := in.(type) {
	case *ssa.Next:
		nx = x
	case *ssa.Range:
		nx = rangeNextOf(x)
	}
	if nx == nil || nx.IsString {
		return
	}
	rg, ok := nx.Iter.(*ssa.Range)
	if !ok {
		return
	}
	mt, ok := rg.X.Type().Underlying().(*types.Map)
	if !ok {
		return
	}
	li := e.rangeLoop(nx)
	if li == nil {
		return
	}
	sk, ck := e.rangeGhostKeys(nx.Parent(), li.Ordinal, mt)
	w.Heap[sk] = true
	w.Heap[ck] = true
}

// rangeInit resets the ghosts when the Range instruction runs.
func (e *Engine) rangeInit(s *State, x *ssa.Range, mt *types.Map) {
	nx := rangeNextOf(x)
	if nx == nil {
		return
	}
	li := e.rangeLoop(nx)
	if li == nil {
		return
	}
	sk, ck := e.rangeGhostKeys(x.Parent(), li.Ordinal, mt)
	ks := e.tm.SortOf(mt.Key())
	s.heap[sk] = Term{fmt.Sprintf("((as const %s) false)", ArraySort(ks, SBool)), ArraySort(ks, SBool)}
	s.heap[ck] = IntLit(0)
}

// rangeModeOf classifies what the loop body may do to maps of the iterated type.
func (e *Engine) rangeModeOf(li *LoopInfo, fn *ssa.Function, mt *types.Map) rangeMode {
	dk, _, _ := e.mapHeapKeys(mt)
	mode := rangePure
	for b := range li.Blocks {
		for _, in := range b.Instrs {
			switch x := in.(type) {
			case *ssa.MapUpdate:
				// an insertion into a map of the iterated type, written in the loop's own function, is allowed:
				// execMapUpdate emits the obligation that its target is a different map object (rangeAliasCheck)
				xmt, ok := x.Map.Type().Underlying().(*types.Map)
				if !ok {
					return rangeUnsafe
				}
				if d2, _, _ := e.mapHeapKeys(xmt); d2 == dk && !e.mergeOn() {
					return rangeUnsafe // the alias obligation is part of the opt-in extensions (root flag merge_branches)
				}
			case *ssa.Call, *ssa.Defer, *ssa.Go:
				var cc *ssa.CallCommon
				switch y := x.(type) {
				case *ssa.Call:
					cc = y.Common()
				case *ssa.Defer:
					cc = y.Common()
				case *ssa.Go:
					return rangeUnsafe
				}
				if bi, ok := cc.Value.(*ssa.Builtin); ok && !cc.IsInvoke() {
					if bi.Name() == "delete" {
						if xmt, ok := cc.Args[0].Type().Underlying().(*types.Map); ok {
							if d2, _, _ := e.mapHeapKeys(xmt); d2 == dk && mode == rangePure {
								mode = rangeDelOnly
							}
						}
					} else if bi.Name() == "clear" {
						return rangeUnsafe
					}
					continue
				}
				w := newWriteSet()
				e.callWrites(cc, w, fn, nil)
				if w.All || w.Heap[dk] {
					return rangeUnsafe
				}
			case *ssa.Send:
				return rangeUnsafe
			}
		}
	}
	return mode
}

// rangeNextFacts is called by execNext for a map iterator after ok / key have been chosen.
func (e *Engine) rangeNextFacts(s *State, fr *Frame, x *ssa.Next, it *rangeIter, okv, kt Term) {
	li := e.rangeLoop(x)
	if li == nil {
		return
	}
	sk, ck := e.rangeGhostKeys(x.Parent(), li.Ordinal, it.mt)
	seen := s.heapGet(sk, e.heapSorts[sk])
	cnt := s.heapGet(ck, e.heapSorts[ck])
	mode := e.rangeModeOf(li, x.Parent(), it.mt)
	domH, _, lenH, _, _, _ := e.mapParts(s, it.mt)
	s.assume(Ge(cnt, IntLit(0)))
	if mode != rangeUnsafe {
		e.abstract("range over map (loop body never inserts into a map of that type): every entry is produced at most once and, on exit, every entry still present has been produced")
		s.assume(Implies(okv, Not(Select(seen, kt))))
		dom := e.u.Define("rangedom", Select(domH, it.m))
		ks := e.tm.SortOf(it.mt.Key())
		all := Term{fmt.Sprintf("(forall ((q_r %s)) (! (=> (select %s q_r) (select %s q_r)) :pattern ((select %s q_r)) :pattern ((select %s q_r))))", ks, dom.S, seen.S, dom.S, seen.S), SBool}
		s.assume(Implies(Not(okv), Or(Eq(it.m, IntLit(0)), all)))
	}
	if mode == rangePure {
		e.abstract("range over map (loop body never writes a map of that type): the number of iterations equals len(map)")
		ln := Select(lenH, it.m)
		s.assume(Implies(And(okv, Not(Eq(it.m, IntLit(0)))), Lt(cnt, ln)))
		s.assume(Implies(And(Not(okv), Not(Eq(it.m, IntLit(0)))), Eq(cnt, ln)))
		s.assume(Implies(Eq(it.m, IntLit(0)), Eq(cnt, IntLit(0))))
	}
	s.heapSet(sk, Ite(okv, Store(seen, kt, TTrue), seen))
	s.heapSet(ck, Ite(okv, Add(cnt, IntLit(1)), cnt))
}

// rangeSpec: spec builtins seen(N, k) and rangecnt(N) for map-range loop N of the function under contract.
func (e *Engine) rangeSpec(env *Env, fun string, args []Expr) (TV, bool, error) {
	if fun == "rangeidx" {
		// rangeidx(N): the hidden index variable of slice-range loop N of the function under contract (the plain
		// identifier `rangeindex` denotes the most recently allocated one, which is ambiguous with nested loops)
		if env.fr == nil || len(args) != 1 {
			return TV{}, true, fmt.Errorf("rangeidx(N): only usable in clauses of a function contract")
		}
		ni, ok := args[0].(*EInt)
		if !ok || !ni.Val.IsInt64() {
			return TV{}, true, fmt.Errorf("rangeidx: argument must be a literal loop ordinal")
		}
		for _, l := range e.loopsOf(env.fr.fn).Loops {
			if l.Ordinal != int(ni.Val.Int64()) {
				continue
			}
			for _, in := range l.Header.Instrs {
				if st, ok := in.(*ssa.Store); ok {
					if al, ok := st.Addr.(*ssa.Alloc); ok && al.Comment == "rangeindex" {
						pv, live := env.fr.regs[al]
						if !live {
							return TV{}, true, fmt.Errorf("rangeidx(%d): index variable not yet allocated on this path", l.Ordinal)
						}
						v, err := env.s.load(pv.(*Ptr))
						if err != nil {
							return TV{}, true, err
						}
						return TV{v, types.Typ[types.Int]}, true, nil
					}
				}
			}
			return TV{}, true, fmt.Errorf("rangeidx(%d): loop is not a range over a slice", l.Ordinal)
		}
		return TV{}, true, fmt.Errorf("rangeidx: no such loop in %s", env.fr.fn.Name())
	}
	switch fun {
	case "seen", "rangecnt":
	default:
		return TV{}, false, nil
	}
	if env.fr == nil {
		return TV{}, true, fmt.Errorf("%s: only usable in clauses of a function contract", fun)
	}
	ni, ok := args[0].(*EInt)
	if !ok || !ni.Val.IsInt64() {
		return TV{}, true, fmt.Errorf("%s: first argument must be a literal loop ordinal", fun)
	}
	ord := int(ni.Val.Int64())
	fl := e.loopsOf(env.fr.fn)
	var li *LoopInfo
	for _, l := range fl.Loops {
		if l.Ordinal == ord {
			li = l
		}
	}
	if li == nil {
		return TV{}, true, fmt.Errorf("%s: no loop %d in %s", fun, ord, env.fr.fn.Name())
	}
	var mt *types.Map
	for _, in := range li.Header.Instrs {
		if nx, ok := in.(*ssa.Next); ok && !nx.IsString {
			if rg, ok := nx.Iter.(*ssa.Range); ok {
				mt, _ = rg.X.Type().Underlying().(*types.Map)
			}
		}
	}
	if mt == nil {
		return TV{}, true, fmt.Errorf("%s: loop %d of %s is not a range over a map", fun, ord, env.fr.fn.Name())
	}
	sk, ck := e.rangeGhostKeys(env.fr.fn, ord, mt)
	if fun == "rangecnt" {
		if len(args) != 1 {
			return TV{}, true, fmt.Errorf("rangecnt(N)")
		}
		return TV{e.heapIn(env, ck, e.heapSorts[ck]), types.Typ[types.Int]}, true, nil
	}
	if len(args) != 2 {
		return TV{}, true, fmt.Errorf("seen(N, key)")
	}
	k, err := e.evalTerm(env, args[1])
	if err != nil {
		return TV{}, true, err
	}
	return TV{Select(e.heapIn(env, sk, e.heapSorts[sk]), k), types.Typ[types.Bool]}, true, nil
}

// ---------------------------------------------------------------------------
// 2. returns_fresh

// coordFreshResult replaces the arbitrary result of a `returns_fresh` contract by a newly allocated one:
// a pointer to a new object (fields unconstrained), a slice over a new backing array, or a new map.
func (e *Engine) coordFreshResult(s *State, c *FuncContract, sig *types.Signature, rv Value) Value {
	if c == nil || c.Flags["returns_fresh"] == "" || sig.Results().Len() != 1 {
		return rv
	}
	switch u := sig.Results().At(0).Type().Underlying().(type) {
	case *types.Pointer:
		return &Ptr{Kind: pkObj, Ref: e.newRef(), Elem: u.Elem()}
	case *types.Slice:
		old, ok := rv.(Term)
		if !ok {
			return rv
		}
		// keep the arbitrary offset/len/cap (with their type facts), move the header to a new base
		return e.u.Define("freshslice", App("mk-slice", SSlice, e.newRef(), App("s-off", SInt, old), App("s-len", SInt, old), App("s-cap", SInt, old)))
	case *types.Map:
		return e.newRef()
	}
	return rv
}

const gRefCounter = "G|refcounter"

// coordSnapshot records the allocation counter in a snapshot: references above it were allocated later.
func (e *Engine) coordSnapshot(sn *Snapshot) {
	sn.heap[gRefCounter] = IntLit(int64(e.refCounter))
}

func (e *Engine) entryCounter(env *Env) (Term, error) {
	if env.old == nil {
		return Term{}, fmt.Errorf("no entry state in this context")
	}
	if t, ok := env.old.heap[gRefCounter]; ok {
		return t, nil
	}
	return Term{}, fmt.Errorf("entry state without allocation counter")
}

// coordCheckFresh: a first-party function declared `returns_fresh` must return nil or something it allocated.
func (e *Engine) coordCheckFresh(s *State, fr *Frame, results []Value, pos ssa.Instruction) {
	c := fr.contract
	if c == nil || c.Flags["returns_fresh"] == "" || len(results) != 1 || fr.entry == nil {
		return
	}
	k, ok := fr.entry.heap[gRefCounter]
	if !ok {
		return
	}
	t, err := s.toTerm(results[0])
	if err != nil {
		e.bail("returns_fresh: %v", err)
	}
	var ref Term
	switch t.Sort {
	case SSlice:
		ref = App("s-base", SInt, t)
	case SInt:
		ref = t
	default:
		e.bail("returns_fresh: unsupported result sort %s", t.Sort)
	}
	name := fmt.Sprintf("%s#ensures:returns_fresh", e.rootKey)
	s.addObligation("ensures", name, "", pos.Pos(), Or(Eq(ref, IntLit(0)), Gt(ref, k)), "returns_fresh: the result is nil or was allocated by this call")
}

// freshSpec: spec builtins about allocation.
//   mapval(m, k)          the value stored under key k of map m (use under has(m, k))
//   fresh(x)              x (pointer, map, slice) is non-nil and was allocated after the entry state
//   keepsMem("T")         every []T backing array that existed in the entry state has its entry contents
//   keepsMap("K", "V", m...)  every map[K]V that existed in the entry state, except the maps m..., has its entry domain and values
//   keepsMapLen()         every map (of any type) that existed in the entry state has its entry length
//   keepsField("T", "f")  field f of every T object that existed in the entry state has its entry value
// "Entry state" is the state old() refers to: function entry in the function's own clauses, the state before
// the call where a caller uses the contract.
func (e *Engine) freshSpec(env *Env, fun string, args []Expr) (TV, bool, error) {
	if fun == "mapval" {
		// mapval(m, k): the value stored under k (meaningful only where has(m, k) holds; no zero-value default, so
		// that the term is a plain select and works as a quantifier pattern)
		if len(args) != 2 {
			return TV{}, true, fmt.Errorf("mapval(m, k)")
		}
		mv, err := e.eval(env, args[0])
		if err != nil {
			return TV{}, true, err
		}
		mt, ok := mv.T.Underlying().(*types.Map)
		if !ok {
			return TV{}, true, fmt.Errorf("mapval(): not a map")
		}
		m, err := env.s.toTerm(mv.V)
		if err != nil {
			return TV{}, true, err
		}
		k, err := e.evalTerm(env, args[1])
		if err != nil {
			return TV{}, true, err
		}
		_, vk, _ := e.mapHeapKeys(mt)
		valH := e.heapIn(env, vk, e.heapSorts[vk])
		return TV{env.s.fromTerm(Select(Select(valH, m), k), mt.Elem()), mt.Elem()}, true, nil
	}
	if fun == "allocated" {
		// allocated(x): x (pointer, map, slice) is nil or was allocated before the point where the clause is evaluated
		// (in a loop invariant: before the loop head / before the end of the iteration)
		if len(args) != 1 {
			return TV{}, true, fmt.Errorf("allocated(x)")
		}
		t, err := e.evalTerm(env, args[0])
		if err != nil {
			return TV{}, true, err
		}
		now := IntLit(int64(e.refCounter))
		switch t.Sort {
		case SSlice:
			return TV{Le(App("s-base", SInt, t), now), types.Typ[types.Bool]}, true, nil
		case SInt:
			return TV{Le(t, now), types.Typ[types.Bool]}, true, nil
		}
		return TV{}, true, fmt.Errorf("allocated(): unsupported sort %s", t.Sort)
	}
	switch fun {
	case "fresh", "keepsMem", "keepsMap", "keepsMapLen", "keepsField":
	default:
		return TV{}, false, nil
	}
	boolT := types.Typ[types.Bool]
	k, err := e.entryCounter(env)
	if err != nil {
		return TV{}, true, fmt.Errorf("%s: %v", fun, err)
	}
	strArg := func(i int) (string, error) {
		if i >= len(args) {
			return "", fmt.Errorf("%s: missing argument", fun)
		}
		ts, ok := args[i].(*EStr)
		if !ok {
			return "", fmt.Errorf("%s: argument %d must be a string literal", fun, i+1)
		}
		return ts.Val, nil
	}
	same := func(key string) Term {
		sort := e.heapSorts[key]
		cur := env.s.heapGet(key, sort)
		var old Term
		if t, ok := env.old.heap[key]; ok {
			old = t
		} else {
			old = e.heapLazy(env.s, key, sort, lazySeq(key, env.old.pending, env.old.allSeq, env.old.allPrev, env.old.allExcept))
		}
		if cur.S == old.S {
			return TTrue
		}
		wrap := func(body, trigger string) string {
			if e.patternUnsafe(cur.S, 0) {
				return body // the array term contains an ite somewhere below its definition: let the solver choose triggers
			}
			return "(! " + body + " :pattern (" + trigger + "))"
		}
		if inner := arrayElemSort(sort); strings.HasPrefix(inner, "(Array") {
			// two-level heap (slice memory, map domain/values): compare element-wise, never array-valued equalities
			ks := arrayKeySort(inner)
			body := fmt.Sprintf("(=> (<= b_r %s) (= (select (select %s b_r) j_r) (select (select %s b_r) j_r)))", k.S, cur.S, old.S)
			return Term{fmt.Sprintf("(forall ((b_r Int) (j_r %s)) %s)", ks, wrap(body, fmt.Sprintf("(select (select %s b_r) j_r)", cur.S))), SBool}
		}
		body := fmt.Sprintf("(=> (<= b_r %s) (= (select %s b_r) (select %s b_r)))", k.S, cur.S, old.S)
		return Term{fmt.Sprintf("(forall ((b_r Int)) %s)", wrap(body, fmt.Sprintf("(select %s b_r)", cur.S))), SBool}
	}
	sameExcept := func(key string, except []Term) Term {
		if len(except) == 0 {
			return same(key)
		}
		sort := e.heapSorts[key]
		cur := env.s.heapGet(key, sort)
		var old Term
		if t, ok := env.old.heap[key]; ok {
			old = t
		} else {
			old = e.heapLazy(env.s, key, sort, lazySeq(key, env.old.pending, env.old.allSeq, env.old.allPrev, env.old.allExcept))
		}
		if cur.S == old.S {
			return TTrue
		}
		guard := []Term{Le(Term{"b_r", SInt}, k)}
		for _, x := range except {
			guard = append(guard, Not(Eq(Term{"b_r", SInt}, x)))
		}
		inner := arrayElemSort(sort)
		ks := arrayKeySort(inner)
		body := fmt.Sprintf("(=> %s (= (select (select %s b_r) j_r) (select (select %s b_r) j_r)))", And(guard...).S, cur.S, old.S)
		if e.patternUnsafe(cur.S, 0) {
			return Term{fmt.Sprintf("(forall ((b_r Int) (j_r %s)) %s)", ks, body), SBool}
		}
		return Term{fmt.Sprintf("(forall ((b_r Int) (j_r %s)) (! %s :pattern ((select (select %s b_r) j_r))))", ks, body, cur.S), SBool}
	}
	switch fun {
	case "fresh":
		t, err := e.evalTerm(env, args[0])
		if err != nil {
			return TV{}, true, err
		}
		switch t.Sort {
		case SSlice:
			return TV{Gt(App("s-base", SInt, t), k), boolT}, true, nil
		case SInt:
			return TV{Gt(t, k), boolT}, true, nil
		}
		return TV{}, true, fmt.Errorf("fresh(): unsupported sort %s", t.Sort)
	case "keepsMem":
		tn, err := strArg(0)
		if err != nil {
			return TV{}, true, err
		}
		ty, _, err := e.resolveType(env, tn)
		if err != nil || ty == nil {
			return TV{}, true, fmt.Errorf("keepsMem: cannot resolve type %q", tn)
		}
		key, _ := e.memKey(ty)
		if _, ok := e.heapSorts[key]; !ok {
			_, sort := e.memKey(ty)
			e.heapSorts[key] = sort
		}
		return TV{same(key), boolT}, true, nil
	case "keepsMap":
		kn, err := strArg(0)
		if err != nil {
			return TV{}, true, err
		}
		vn, err := strArg(1)
		if err != nil {
			return TV{}, true, err
		}
		kt, _, err := e.resolveType(env, kn)
		if err != nil || kt == nil {
			return TV{}, true, fmt.Errorf("keepsMap: cannot resolve type %q", kn)
		}
		vt, _, err := e.resolveType(env, vn)
		if err != nil || vt == nil {
			return TV{}, true, fmt.Errorf("keepsMap: cannot resolve type %q", vn)
		}
		dk, vk, _ := e.mapHeapKeys(types.NewMap(kt, vt))
		var except []Term
		for _, a := range args[2:] {
			t, err := e.evalTerm(env, a)
			if err != nil {
				return TV{}, true, err
			}
			except = append(except, t)
		}
		return TV{And(sameExcept(dk, except), sameExcept(vk, except)), boolT}, true, nil
	case "keepsMapLen":
		// the engine keeps one length array for the maps of all types
		_, _, lk := e.mapHeapKeys(types.NewMap(types.Typ[types.String], types.Typ[types.Int]))
		if len(args) == 0 {
			return TV{same(lk), boolT}, true, nil
		}
		// keepsMapLen(m...): every pre-existing map except the listed ones
		sort := e.heapSorts[lk]
		cur := env.s.heapGet(lk, sort)
		var old Term
		if t, ok := env.old.heap[lk]; ok {
			old = t
		} else {
			old = e.heapLazy(env.s, lk, sort, lazySeq(lk, env.old.pending, env.old.allSeq, env.old.allPrev, env.old.allExcept))
		}
		if cur.S == old.S {
			return TV{TTrue, boolT}, true, nil
		}
		guard := []Term{Le(Term{"b_r", SInt}, k)}
		for _, a := range args {
			t, err := e.evalTerm(env, a)
			if err != nil {
				return TV{}, true, err
			}
			guard = append(guard, Not(Eq(Term{"b_r", SInt}, t)))
		}
		body := fmt.Sprintf("(=> %s (= (select %s b_r) (select %s b_r)))", And(guard...).S, cur.S, old.S)
		if e.patternUnsafe(cur.S, 0) {
			return TV{Term{fmt.Sprintf("(forall ((b_r Int)) %s)", body), SBool}, boolT}, true, nil
		}
		return TV{Term{fmt.Sprintf("(forall ((b_r Int)) (! %s :pattern ((select %s b_r))))", body, cur.S), SBool}, boolT}, true, nil
	case "keepsField":
		tn, err := strArg(0)
		if err != nil {
			return TV{}, true, err
		}
		fn, err := strArg(1)
		if err != nil {
			return TV{}, true, err
		}
		ty, _, err := e.resolveType(env, tn)
		if err != nil || ty == nil {
			return TV{}, true, fmt.Errorf("keepsField: cannot resolve type %q", tn)
		}
		st, ok := ty.Underlying().(*types.Struct)
		if !ok {
			return TV{}, true, fmt.Errorf("keepsField: %s is not a struct", tn)
		}
		var cs []Term
		for i := 0; i < st.NumFields(); i++ {
			if st.Field(i).Name() == fn || fn == "*" {
				key, sort := e.fieldKey(ty, i)
				if _, ok := e.heapSorts[key]; !ok {
					e.heapSorts[key] = sort
				}
				cs = append(cs, same(key))
			}
		}
		if len(cs) == 0 {
			return TV{}, true, fmt.Errorf("keepsField: no field %s in %s", fn, tn)
		}
		return TV{And(cs...), boolT}, true, nil
	}
	return TV{}, false, nil
}

// ---------------------------------------------------------------------------
// 3. sort / time models

// permute replaces the backing array of slice sl (element type elem) by a permutation of its window
// [off, off+len); everything outside the window and every other array is unchanged. Returns the new inner array.
func (e *Engine) permute(s *State, sl Term, elem types.Type, hint string) (narr, oldArr, off, ln Term) {
	key, sort := e.memKey(elem)
	inner := arrayElemSort(sort)
	h := s.heapGet(key, sort)
	base := App("s-base", SInt, sl)
	off = e.u.Define("sortoff", App("s-off", SInt, sl))
	ln = e.u.Define("sortlen", App("s-len", SInt, sl))
	oldArr = e.u.Define("sortold", Select(h, base))
	narr = e.u.Fresh(hint+".sorted", inner)
	e.u.mu.Lock()
	e.u.counter++
	id := e.u.counter
	e.u.mu.Unlock()
	pi := fmt.Sprintf("perm!%d", id)
	pinv := fmt.Sprintf("perminv!%d", id)
	e.u.DeclareFun(pi, []string{SInt}, SInt)
	e.u.DeclareFun(pinv, []string{SInt}, SInt)
	// new[off+i] = old[off+pi(i)], pi a bijection of [0,len) with inverse pinv
	ax1 := fmt.Sprintf("(forall ((i Int)) (! (=> (and (<= 0 i) (< i %s)) (and (<= 0 (%s i)) (< (%s i) %s) (= (%s (%s i)) i) (= (select %s (+ %s i)) (select %s (+ %s (%s i)))))) :pattern ((%s i)) :pattern ((select %s (+ %s i)))))",
		ln.S, pi, pi, ln.S, pinv, pi, narr.S, off.S, oldArr.S, off.S, pi, pi, narr.S, off.S)
	ax2 := fmt.Sprintf("(forall ((j Int)) (! (=> (and (<= 0 j) (< j %s)) (and (<= 0 (%s j)) (< (%s j) %s) (= (%s (%s j)) j))) :pattern ((%s j)) :pattern ((select %s (+ %s j)))))",
		ln.S, pinv, pinv, ln.S, pi, pinv, pinv, oldArr.S, off.S)
	ax3 := fmt.Sprintf("(forall ((j Int)) (! (=> (or (< j %s) (>= j (+ %s %s))) (= (select %s j) (select %s j))) :pattern ((select %s j))))",
		off.S, off.S, ln.S, narr.S, oldArr.S, narr.S)
	s.assume(Term{ax1, SBool})
	if e.rootContract == nil || e.rootContract.Flags["sort_forward_only"] == "" {
		// `sort_forward_only` on the root drops this half (every old element occurs in the result): fewer
		// assumptions, for roots that only need "every element of the result is an old element"
		s.assume(Term{ax2, SBool})
	}
	s.assume(Term{ax3, SBool})
	if tf := e.elemFactsQuant(narr, elem); tf.S != "true" {
		s.assume(tf)
	}
	s.heapSet(key, Store(h, base, narr))
	return
}

// modelCoordCall: models added for the coordinator. Returns (value, handled).
func (e *Engine) modelCoordCall(s *State, fr *Frame, key string, f *ssa.Function, args []Value, site ssa.Instruction) (Value, bool) {
	switch key {
	case "sort.Strings":
		e.trustModel("sort.Strings: the slice's elements are permuted in place (the resulting order is not modelled); nothing else changes")
		sl := args[0].(Term)
		e.permute(s, sl, types.Typ[types.String], "strings")
		return nil, true
	case "sort.Slice", "sort.SliceStable":
		// the first argument is an interface holding the slice; only handle the boxed-slice shape produced by MakeInterface
		it, ok := args[0].(Term)
		if !ok {
			return nil, false
		}
		dyn, payload, ok := e.ifaceDynType(it)
		if !ok {
			return nil, false
		}
		st, ok := dyn.Underlying().(*types.Slice)
		if !ok {
			return nil, false
		}
		e.trustModel("sort.Slice: the slice's elements are permuted in place (the order given by the less function is not modelled); nothing else changes")
		v := e.unboxIface(s, payload, dyn)
		sl, ok := v.(Term)
		if !ok {
			return nil, false
		}
		e.permute(s, sl, st.Elem(), "slice")
		return nil, true
	}
	if strings.HasPrefix(key, "time.") {
		return e.modelTime(s, fr, key, f, args, site)
	}
	return nil, false
}

// time model: a time.Time value denotes an instant, an integer number of nanoseconds (unbounded). The zero Time
// is the instant timeZeroInstant. Sub saturates like the library; Add is exact on instants (no overflow of the
// internal representation is modelled).
const timeZeroInstant = "(- 62135596800000000000)"

func (e *Engine) timeInstant(t Term) Term {
	name := "time.instant"
	if !e.u.Has(name) {
		e.u.DeclareFun(name, []string{t.Sort}, SInt)
		// the zero Time value denotes the zero instant
		for _, p := range e.prog.AllPackages() {
			if p.Pkg.Path() == "time" {
				if obj := p.Pkg.Scope().Lookup("Time"); obj != nil && e.tm.SortOf(obj.Type()) == t.Sort {
					z := e.tm.Zero(obj.Type())
					e.u.AddAxiom(name, Eq(App(name, SInt, z), Term{timeZeroInstant, SInt}))
				}
			}
		}
	}
	return App(name, SInt, t)
}

func (e *Engine) timeType(f *ssa.Function) types.Type {
	if f.Signature.Recv() != nil {
		return f.Signature.Recv().Type()
	}
	return f.Signature.Results().At(0).Type()
}

func (e *Engine) modelTime(s *State, fr *Frame, key string, f *ssa.Function, args []Value, site ssa.Instruction) (Value, bool) {
	const trust = "time.Time as an abstract instant (integer nanoseconds): Sub/Before/After/Equal/IsZero/Add/UTC are functions of the instants; Sub saturates at the int64 range; the zero Time is year 1"
	tt := func(v Value) (Term, bool) {
		t, ok := v.(Term)
		return t, ok
	}
	switch key {
	case "time.Time.Sub":
		a, ok1 := tt(args[0])
		b, ok2 := tt(args[1])
		if !ok1 || !ok2 {
			return nil, false
		}
		e.trustModel(trust)
		d := e.u.Define("tsub", Sub(e.timeInstant(a), e.timeInstant(b)))
		lo, hi, _ := intRange(types.Typ[types.Int64])
		return e.u.Define("tsubsat", Ite(Lt(d, BigLit(lo)), BigLit(lo), Ite(Gt(d, BigLit(hi)), BigLit(hi), d))), true
	case "time.Time.Before", "time.Time.After", "time.Time.Equal":
		a, ok1 := tt(args[0])
		b, ok2 := tt(args[1])
		if !ok1 || !ok2 {
			return nil, false
		}
		e.trustModel(trust)
		switch key {
		case "time.Time.Before":
			return Lt(e.timeInstant(a), e.timeInstant(b)), true
		case "time.Time.After":
			return Gt(e.timeInstant(a), e.timeInstant(b)), true
		}
		return Eq(e.timeInstant(a), e.timeInstant(b)), true
	case "time.Time.IsZero":
		a, ok := tt(args[0])
		if !ok {
			return nil, false
		}
		e.trustModel(trust)
		return Eq(e.timeInstant(a), Term{timeZeroInstant, SInt}), true
	case "time.Time.Add":
		a, ok1 := tt(args[0])
		d, ok2 := tt(args[1])
		if !ok1 || !ok2 {
			return nil, false
		}
		e.trustModel(trust)
		r := s.fresh("tadd", f.Signature.Results().At(0).Type()).(Term)
		s.assume(Eq(e.timeInstant(r), Add(e.timeInstant(a), d)))
		return r, true
	case "time.Time.UTC":
		a, ok := tt(args[0])
		if !ok {
			return nil, false
		}
		e.trustModel(trust)
		r := s.fresh("tutc", f.Signature.Results().At(0).Type()).(Term)
		s.assume(Eq(e.timeInstant(r), e.timeInstant(a)))
		return r, true
	}
	return nil, false
}

// timeSpec: spec builtin instant(t) (nanoseconds of a time.Time value) and zeroInstant().
func (e *Engine) timeSpec(env *Env, fun string, args []Expr) (TV, bool, error) {
	switch fun {
	case "instant":
		if len(args) != 1 {
			return TV{}, true, fmt.Errorf("instant(t)")
		}
		t, err := e.evalTerm(env, args[0])
		if err != nil {
			return TV{}, true, err
		}
		return TV{e.timeInstant(t), nil}, true, nil
	case "zeroInstant":
		return TV{Term{timeZeroInstant, SInt}, nil}, true, nil
	}
	return TV{}, false, nil
}

// patternUnsafe: does the term, with its named definitions expanded, contain an ite / Boolean connective?
// (solvers reject such terms inside :pattern annotations)
func (e *Engine) patternUnsafe(t string, depth int) bool {
	if strings.Contains(t, "(ite ") || strings.Contains(t, "(and ") || strings.Contains(t, "(or ") || strings.Contains(t, "(not ") {
		return true
	}
	if depth > 40 {
		return true
	}
	for _, tok := range symbolsOf(t) {
		e.u.mu.Lock()
		d, ok := e.u.syms[tok]
		e.u.mu.Unlock()
		if ok && d.body != "" && e.patternUnsafe(d.body, depth+1) {
			return true
		}
	}
	return false
}

// fieldAddrTerm: opt-in (root contract flag `opaque_field_addrs`) abstraction for `p.f = &x.g`: the address of a
// struct field that is stored into memory becomes an opaque non-nil pointer value. Loads through it are
// arbitrary; the analysed code must not write through such a pointer (a syntactically visible attempt aborts).
func (e *Engine) fieldAddrTerm(x *Ptr) (Term, bool) {
	if e.rootContract == nil || e.rootContract.Flags["opaque_field_addrs"] == "" {
		return Term{}, false
	}
	if x.Kind != pkField || x.Base == nil || x.Base.Kind != pkObj {
		return Term{}, false
	}
	key, _ := e.fieldKey(x.Base.Elem, x.Field)
	name := "fieldaddr." + sanitize(key)
	if !e.u.Has(name) {
		e.u.DeclareFun(name, []string{SInt}, SInt)
		// never nil, never an object reference handed out by the allocator or present in the initial heap
		e.u.AddAxiom(name, Term{fmt.Sprintf("(forall ((r Int)) (! (< (%s r) (- 2000000000)) :pattern ((%s r))))", name, name), SBool})
	}
	e.abstract("address of a struct field stored in memory: opaque non-nil pointer (reads through it arbitrary, writes through it not supported)")
	return App(name, SInt, x.Base.Ref), true
}

// localClosureOf recognises a call through a local variable that holds one closure for its whole life:
// v = *cell, where the cell is a non-escaping local with exactly one store, of a MakeClosure (NaiveForm keeps
// `f := func() {...}` in a cell). Used only to make the static write-set analysis look into the closure instead
// of giving up ("whole heap").
func localClosureOf(v ssa.Value) *ssa.MakeClosure {
	u, ok := v.(*ssa.UnOp)
	if !ok || u.Op.String() != "*" {
		return nil
	}
	al, ok := u.X.(*ssa.Alloc)
	if !ok || al.Referrers() == nil {
		return nil
	}
	var mc *ssa.MakeClosure
	for _, ref := range *al.Referrers() {
		switch r := ref.(type) {
		case *ssa.Store:
			if r.Addr != al || mc != nil {
				return nil // stored twice, or the address itself is stored somewhere
			}
			m, ok := r.Val.(*ssa.MakeClosure)
			if !ok {
				return nil
			}
			mc = m
		case *ssa.UnOp:
			// load
		case *ssa.DebugRef:
		default:
			return nil // address passed on: could be reassigned elsewhere
		}
	}
	return mc
}

// mapLenFacts: facts every Go map satisfies, assumed where a map is looked up or updated (the base model keeps the
// domain and the length of a map in two unrelated arrays): len(m) >= 0, and a present key implies len(m) >= 1.
func (e *Engine) mapLenFacts(s *State, mt *types.Map, m, k Term) {
	domH, _, lenH, _, _, _ := e.mapParts(s, mt)
	ln := Select(lenH, m)
	s.assume(Ge(ln, IntLit(0)))
	s.assume(Implies(And(Not(Eq(m, IntLit(0))), Select(Select(domH, m), k)), Ge(ln, IntLit(1))))
}

// coordRemLemma: the remainder is encoded as a - b*(a/b), which is nonlinear for a symbolic divisor and, used as
// an index, defeats quantifier triggers of the form base[off + i]. Roots that opt into the coordinator
// extensions (merge_branches) get the remainder as a constant c with c == a - b*(a/b) assumed, plus the valid
// fact 0 <= c < b for a >= 0 and b > 0.
func (e *Engine) coordRemLemma(s *State, a, b, r Term) Term {
	if !e.mergeOn() {
		return r
	}
	if _, lit := litValue(b); lit {
		return r
	}
	c := e.u.Fresh("rem", SInt)
	s.assume(Eq(c, r))
	s.assume(Implies(And(Ge(a, IntLit(0)), Gt(b, IntLit(0))), And(Ge(c, IntLit(0)), Lt(c, b))))
	return c
}

// rangeAliasCheck: a map update executed inside map-range loops of the same function must not target a map that is
// being iterated (then "the body never inserts into the iterated map" holds although the types coincide). Emitted
// as a safety obligation per update site; a failure means the stronger range facts were not justified.
func (e *Engine) rangeAliasCheck(s *State, fr *Frame, x *ssa.MapUpdate, m Term) {
	mt, ok := x.Map.Type().Underlying().(*types.Map)
	if !ok || !e.mergeOn() {
		return
	}
	dk, _, _ := e.mapHeapKeys(mt)
	for _, lc := range fr.loops {
		for _, in := range lc.loop.Header.Instrs {
			nx, ok := in.(*ssa.Next)
			if !ok || nx.IsString {
				continue
			}
			it, ok := fr.regs[nx.Iter].(*rangeIter)
			if !ok || !it.isMap {
				continue
			}
			if d2, _, _ := e.mapHeapKeys(it.mt); d2 != dk {
				continue
			}
			name := fmt.Sprintf("%s#safety:rangealias.%s", shortKey(funcKey(fr.fn)), e.siteName(x, "mapupdate"))
			g := Not(Eq(m, it.m))
			s.addObligation("safety", name, "", x.Pos(), g, "a map updated inside a range loop over a map of the same type is not the map being iterated")
			s.assume(g)
		}
	}
}
