package main

import (
	"fmt"
	"os"
	"path/filepath"
	"sort"
	"strings"
	"runtime/pprof"
	"time"

	"golang.org/x/tools/go/ssa"
)

type ssaFunc = ssa.Function

func usage() {
	fmt.Fprintln(os.Stderr, `usage:
  govc check <Cnn> [--tier quick|thorough]
  govc debug <module-dir> <pkg-pattern> <func-short-key> [-v]   run one root, print obligations
  govc funcs <module-dir> <pkg-pattern> [prefix]                 list function keys
  govc scan                                                      list trusted/assumed items in contracts`)
	os.Exit(2)
}

func main() {
	os.Setenv("PATH", "/opt/veriftools/go1.26.8/bin:"+os.Getenv("PATH"))
	os.Setenv("GOTOOLCHAIN", "local")
	os.Setenv("GOFLAGS", "-mod=mod")
	os.Setenv("GOPROXY", "off")
	os.Setenv("GOSUMDB", "off")
	if len(os.Args) < 2 {
		usage()
	}
	if pf := os.Getenv("GOVC_PROF"); pf != "" {
		if fh, err := os.Create(pf); err == nil {
			pprof.StartCPUProfile(fh)
			defer pprof.StopCPUProfile()
		}
	}
	switch os.Args[1] {
	case "check":
		if len(os.Args) < 3 {
			usage()
		}
		tier := os.Getenv("VERIF_TIER")
		if tier == "" {
			tier = "quick"
		}
		for i := 3; i < len(os.Args); i++ {
			if os.Args[i] == "--tier" && i+1 < len(os.Args) {
				tier = os.Args[i+1]
			}
		}
		os.Exit(Check(os.Args[2], tier))
	case "debug":
		if len(os.Args) < 5 {
			usage()
		}
		code := debugRun(os.Args[2], os.Args[3], os.Args[4:])
		pprof.StopCPUProfile()
		os.Exit(code)
	case "funcs":
		e := NewEngine()
		if err := e.Load(os.Args[2], []string{os.Args[3]}); err != nil {
			fmt.Fprintln(os.Stderr, err)
			os.Exit(2)
		}
		pref := ""
		if len(os.Args) > 4 {
			pref = os.Args[4]
		}
		var ks []string
		for k, f := range e.funcsByKey {
			if f.Blocks != nil && strings.HasPrefix(shortKey(k), pref) && isFirstParty(f) {
				ks = append(ks, shortKey(k))
			}
		}
		sort.Strings(ks)
		for _, k := range ks {
			fmt.Println(k)
		}
	default:
		usage()
	}
}

func debugRun(dir, pat string, rest []string) int {
	e := NewEngine()
	if v := os.Getenv("GOVC_PROP"); v != "" {
		e.propID = v
		currentPropID = v // property-scoped clauses (static_only Cnn, stop [Cnn]) behave as in `check Cnn`
	}
	verbose := false
	var roots []string
	for _, r := range rest {
		if r == "-v" {
			verbose = true
		} else if r == "-alloc" {
			e.allocBound = true
		} else {
			roots = append(roots, r)
		}
	}
	if err := e.Load(dir, []string{pat}); err != nil {
		fmt.Fprintln(os.Stderr, err)
		return 2
	}
	t0 := time.Now()
	if err := e.LoadContracts(filepath.Join(verifDir, "spec")); err != nil {
		fmt.Fprintln(os.Stderr, err)
		return 2
	}
	for _, r := range roots {
		if strings.HasPrefix(r, "lemma:") {
			if err := e.RunLemma(strings.TrimPrefix(r, "lemma:")); err != nil {
				fmt.Println("ENGINE-ERROR:", err)
			}
			continue
		}
		f := e.findFunc(r)
		if f == nil {
			fmt.Fprintln(os.Stderr, "not found:", r)
			return 2
		}
		e.statesRun = 0
		if err := e.RunRoot(f); err != nil {
			fmt.Println("ENGINE-ERROR:", err)
		}
	}
	if os.Getenv("GOVC_TAGGED") != "" {
		// development aid: like scope "tagged" of a check - drop the safety/alloc sweep
		var keep []*Obligation
		for _, o := range e.obligations {
			if o.Kind != "safety" && o.Kind != "alloc" {
				keep = append(keep, o)
			}
		}
		e.obligations = keep
	}
	if os.Getenv("GOVC_NOSOLVE") != "" {
		// exploration only: obligation count, states, abstractions (no solver runs)
		fmt.Printf("exec %.1fs, %d obligations generated, %d states\n", time.Since(t0).Seconds(), len(e.obligations), e.stateCounter)
		var abs []string
		for a := range e.abstractions {
			abs = append(abs, a)
		}
		sort.Strings(abs)
		for _, a := range abs {
			fmt.Println("  abstraction:", a)
		}
		return 0
	}
	if only := os.Getenv("GOVC_ONLY"); only != "" {
		// development aid: decide only the obligations whose name contains one of the comma-separated substrings
		var keep []*Obligation
		for _, o := range e.obligations {
			for _, sub := range strings.Split(only, ",") {
				if strings.Contains(o.Name, sub) {
					keep = append(keep, o)
					break
				}
			}
		}
		e.obligations = keep
	}
	workdir := filepath.Join(verifDir, "work", fmt.Sprintf("debug-%d", os.Getpid()))
	os.MkdirAll(workdir, 0o755)
	fail := 0
	tExec := time.Since(t0)
	dto := 10
	if v := os.Getenv("GOVC_TIMEOUT"); v != "" {
		fmt.Sscanf(v, "%d", &dto)
	}
	e.discharge(workdir, dto)
	fmt.Printf("exec %.1fs (inc solver: %d calls %.1fs), solve %.1fs\n", tExec.Seconds(), incCalls(e), incSecs(e), (time.Since(t0) - tExec).Seconds())
	for _, o := range e.obligations {
		st := o.Result.Status
		mark := "ok  "
		if o.ExpectSat {
			if st == "unsat" {
				mark = "VACUOUS"
				fail++
			} else {
				mark = "cov "
			}
		} else if st != "unsat" {
			mark = "FAIL"
			fail++
		}
		if verbose || mark == "FAIL" || mark == "VACUOUS" {
			fmt.Printf("%s %-7s %-8s %s  [%s] %s (%.2fs %s)\n", mark, st, o.Kind, o.Name, o.Pos, o.Desc, o.Result.Secs, o.Result.Solver)
			if mark == "FAIL" {
				if len(o.Result.Values) > 0 {
					fmt.Printf("      model: %v\n", o.Result.Values)
				}
				fmt.Printf("      path: %s\n", strings.Join(o.Trace, " "))
				if st != "sat" {
					fmt.Printf("      out: %s\n", firstLines(o.Result.Output, 4))
				}
			}
		}
	}
	fmt.Printf("%d obligations, %d failing; %d states\n", len(e.obligations), fail, e.stateCounter)
	var abs []string
	for a := range e.abstractions {
		abs = append(abs, a)
	}
	sort.Strings(abs)
	if verbose {
		for _, a := range abs {
			fmt.Println("  abstraction:", a)
		}
	}
	if os.Getenv("GOVC_KEEP") == "" {
		os.RemoveAll(workdir)
	} else {
		fmt.Println("work dir:", workdir)
	}
	if fail > 0 {
		return 1
	}
	return 0
}

func incCalls(e *Engine) int {
	if e.inc == nil {
		return 0
	}
	return e.inc.calls
}

func incSecs(e *Engine) float64 {
	if e.inc == nil {
		return 0
	}
	return e.inc.secs
}
