package main

// External models added for the addons properties (trusted, listed in the evidence when used).
//
// bytes.Reader.Read(b): the documented behaviour of (*bytes.Reader).Read over the ghost byte stream of
// bufiomodel.go: at end of stream it returns (0, io.EOF) and changes nothing; otherwise it copies
// n = min(len(b), remaining) bytes from the stream into b[0:n], advances by n and returns (n, nil).

import (
	"fmt"
	"go/types"

	"golang.org/x/tools/go/ssa"
)

func (e *Engine) modelAddons(s *State, fr *Frame, dst *ssa.Call, key string, f *ssa.Function, args []Value, site ssa.Instruction) (Value, []*State, bool, bool) {
	switch key {
	case "bytes.Reader.Read":
		p, ok := args[0].(*Ptr)
		if !ok || p.Kind != pkObj {
			return nil, nil, false, false
		}
		buf, ok := args[1].(Term)
		if !ok {
			return nil, nil, false, false
		}
		ref := p.Ref
		e.trustModel("bytes.Reader.Read over the ghost byte stream: (0, EOF) at end of stream, otherwise copies min(len(b), remaining) bytes and advances")
		v := e.brGet(s, ref)
		e.brFacts(s, v)
		e.streamByteFacts(s, v)
		avail := Sub(v.ln, v.pos)
		s2 := s.fork()
		var out []*State
		// data available
		s.assume(Gt(avail, IntLit(0)))
		blen := App("s-len", SInt, buf)
		n := e.u.Define("readn", Ite(Le(blen, avail), blen, avail))
		key8, sort8 := e.memKey(types.Typ[types.Uint8])
		inner := arrayElemSort(sort8)
		h := s.heapGet(key8, sort8)
		base, off := App("s-base", SInt, buf), App("s-off", SInt, buf)
		narr := e.u.Fresh("readarr", inner)
		old := e.u.Define("oldarr", Select(h, base))
		ax := fmt.Sprintf("(forall ((j Int)) (! (= (select %s j) (ite (and (<= %s j) (< j (+ %s %s))) (select %s (+ %s (+ %s (- j %s)))) (select %s j))) :pattern ((select %s j))))",
			narr.S, off.S, off.S, n.S, v.data.S, v.off.S, v.pos.S, off.S, old.S, narr.S)
		s.assume(Term{ax, SBool})
		s.heapSet(key8, Store(h, base, narr))
		e.brSetPos(s, ref, Add(v.pos, n))
		if dst != nil {
			s.top().regs[dst] = &Tuple{Vs: []Value{n, NilIface}}
		}
		if e.feasibleAlways(s) {
			out = append(out, s)
		}
		// end of stream
		v2 := e.brGet(s2, ref)
		s2.assume(Le(Sub(v2.ln, v2.pos), IntLit(0)))
		errv := e.u.Fresh("readerr", SIface)
		s2.assume(Not(Eq(App("i-type", SInt, errv), IntLit(0))))
		if dst != nil {
			s2.top().regs[dst] = &Tuple{Vs: []Value{IntLit(0), errv}}
		}
		if e.feasibleAlways(s2) {
			out = append(out, s2)
		}
		return nil, out, true, true
	}
	return nil, nil, false, false
}
