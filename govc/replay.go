package main

// Replay: turn a solver model of a failed obligation into a Go test that is
// injected into the real package with `go test -overlay` (nothing is written
// into /repo) and run against the real code.

import (
	"encoding/json"
	"fmt"
	"go/types"
	"os"
	"os/exec"
	"path/filepath"
	"strconv"
	"strings"

	"golang.org/x/tools/go/ssa"
)

type replaySrc struct {
	Source  string
	PkgDir  string // absolute dir of the package in /repo
	ModDir  string
	Run     string
	PkgName string
	Kind    string // panic | ensures
}

type replayInfo struct {
	fn      *ssa.Function
	pkgDir  string
	modDir  string
	pkgName string
}

// replayTargets is filled while running roots so that a replay can be built later.
var replayTargets = map[string]*replayInfo{}

func (e *Engine) registerReplayTarget(fn *ssa.Function, modDir string) {
	if fn.Pkg == nil {
		return
	}
	pos := e.fset.Position(fn.Pos())
	replayTargets[shortKey(funcKey(fn))] = &replayInfo{fn: fn, pkgDir: filepath.Dir(pos.Filename), modDir: modDir, pkgName: fn.Pkg.Pkg.Name()}
}

func smtInt(v string) (string, bool) {
	v = strings.TrimSpace(v)
	if strings.HasPrefix(v, "(- ") {
		inner := strings.TrimSuffix(strings.TrimPrefix(v, "(- "), ")")
		if _, err := strconv.ParseUint(inner, 10, 64); err == nil || len(inner) < 25 {
			return "-" + inner, true
		}
	}
	for _, c := range v {
		if c < '0' || c > '9' {
			return "", false
		}
	}
	return v, v != ""
}

// goLiteral renders a model value as a Go expression of type t.
func goLiteral(o *Obligation, in modelInput, vals map[string]string) (string, bool) {
	t := in.GoT
	switch u := t.Underlying().(type) {
	case *types.Basic:
		v, ok := vals[in.Term.S]
		if !ok {
			return "", false
		}
		switch {
		case u.Info()&types.IsBoolean != 0:
			return v, v == "true" || v == "false"
		case u.Info()&types.IsInteger != 0:
			n, ok := smtInt(v)
			if !ok {
				return "", false
			}
			return fmt.Sprintf("%s(%s)", types.TypeString(t, func(p *types.Package) string { return "" }), n), true
		case u.Info()&types.IsString != 0:
			s, ok := smtString(v)
			if !ok {
				return "", false
			}
			return strconv.Quote(s), true
		}
	case *types.Slice:
		eb, ok := u.Elem().Underlying().(*types.Basic)
		if !ok || eb.Kind() != types.Uint8 {
			return "", false
		}
		lnS, ok := vals[in.Aux["len"].S]
		if !ok {
			return "", false
		}
		ln, err := strconv.Atoi(strings.TrimSpace(lnS))
		if err != nil || ln < 0 {
			return "", false
		}
		if ln > 1<<16 {
			return "", false // huge inputs are not replayed
		}
		bs := make([]string, ln)
		for i := 0; i < ln; i++ {
			bs[i] = "0"
			if v, ok := vals[in.Aux[fmt.Sprintf("replaybyte.%s.%d", in.Name, i)].S]; ok {
				if n, ok := smtInt(v); ok {
					bs[i] = n
				}
			}
		}
		return "[]byte{" + strings.Join(bs, ", ") + "}", true
	}
	return "", false
}

func smtString(v string) (string, bool) {
	v = strings.TrimSpace(v)
	if len(v) < 2 || v[0] != '"' {
		return "", false
	}
	body := v[1 : len(v)-1]
	body = strings.ReplaceAll(body, `""`, `"`)
	var b strings.Builder
	for i := 0; i < len(body); i++ {
		if strings.HasPrefix(body[i:], `\u{`) {
			j := strings.Index(body[i:], "}")
			if j > 0 {
				n, err := strconv.ParseUint(body[i+3:i+j], 16, 32)
				if err == nil {
					if n < 256 {
						b.WriteByte(byte(n))
					} else {
						b.WriteRune(rune(n))
					}
					i += j
					continue
				}
			}
		}
		b.WriteByte(body[i])
	}
	return b.String(), true
}

// replayGetValues lists the extra terms whose model values the replay needs
// (byte contents of []byte parameters up to a cap).
func (e *Engine) replayByteTerms(s *State, in modelInput, n int) map[string]Term {
	out := map[string]Term{}
	st, ok := in.GoT.Underlying().(*types.Slice)
	if !ok {
		return out
	}
	if eb, ok := st.Elem().Underlying().(*types.Basic); !ok || eb.Kind() != types.Uint8 {
		return out
	}
	key, sort := e.memKey(st.Elem())
	h := e.heapInit(key, sort, false)
	arr := Select(h, App("s-base", SInt, in.Term))
	for i := 0; i < n; i++ {
		out[fmt.Sprintf("replaybyte.%s.%d", in.Name, i)] = Select(arr, Add(App("s-off", SInt, in.Term), IntLit(int64(i))))
	}
	return out
}

func buildReplayTest(o *Obligation) (*replaySrc, bool) {
	ri := replayTargets[o.Root]
	if ri == nil || o.Result == nil || o.Result.Status != "sat" {
		return nil, false
	}
	fn := ri.fn
	if fn.Signature.Recv() != nil {
		return nil, false
	}
	vals := o.Result.Values
	// second model query results may have been merged under ByteVals
	var args []string
	for _, in := range o.InputVals {
		lit, ok := goLiteral(o, in, vals)
		if !ok {
			return nil, false
		}
		args = append(args, lit)
	}
	name := "TestVerifReplay_" + sanitizeIdent(o.Name)
	var b strings.Builder
	clauseGo := ""
	imports := map[string]bool{}
	if o.Kind == "ensures" && o.Clause != nil {
		cg, imps, ok, _ := clauseToGo(fn, o.Clause)
		if !ok {
			return nil, false
		}
		clauseGo, imports = cg, imps
	}
	fmt.Fprintf(&b, "package %s\n\nimport (\n\t\"testing\"\n", ri.pkgName)
	for _, im := range sortedKeys(imports) {
		fmt.Fprintf(&b, "\t%q\n", im)
	}
	fmt.Fprintf(&b, ")\n\n")
	fmt.Fprintf(&b, "// generated by govc from the solver model of failed obligation\n// %s (%s)\n", o.Name, o.Desc)
	fmt.Fprintf(&b, "func %s(t *testing.T) {\n", name)
	fmt.Fprintf(&b, "\tdefer func() {\n\t\tif r := recover(); r != nil {\n\t\t\tt.Fatalf(\"REPLAY-PANIC: %%v\", r)\n\t\t}\n\t}()\n")
	for i, p := range fn.Params {
		fmt.Fprintf(&b, "\tin_%s := %s\n\t_ = in_%s\n", p.Name(), args[i], p.Name())
	}
	nres := fn.Signature.Results().Len()
	var rs, ins []string
	for i := 0; i < nres; i++ {
		rs = append(rs, fmt.Sprintf("r%d", i))
	}
	for _, p := range fn.Params {
		if _, isSlice := p.Type().Underlying().(*types.Slice); isSlice && clauseGo != "" {
			// the callee may write its input: hand it a copy so that the clause sees the entry value
			ins = append(ins, fmt.Sprintf("append(%s(nil), in_%s...)", types.TypeString(p.Type(), func(*types.Package) string { return "" }), p.Name()))
		} else {
			ins = append(ins, "in_"+p.Name())
		}
	}
	lhs := ""
	if nres > 0 {
		lhs = strings.Join(rs, ", ") + " := "
	}
	fmt.Fprintf(&b, "\t%s%s(%s)\n", lhs, fn.Name(), strings.Join(ins, ", "))
	for _, r := range rs {
		fmt.Fprintf(&b, "\t_ = %s\n", r)
	}
	kind := "panic"
	if clauseGo != "" {
		kind = "ensures"
		fmt.Fprintf(&b, "\tif !(%s) {\n\t\tt.Fatalf(\"REPLAY-VIOLATION: clause %%s does not hold on the real code for this input\", %q)\n\t}\n", clauseGo, o.Desc)
	}
	fmt.Fprintf(&b, "}\n")
	return &replaySrc{Source: b.String(), PkgDir: ri.pkgDir, ModDir: ri.modDir, Run: name, PkgName: ri.pkgName, Kind: kind}, true
}

func sanitizeIdent(s string) string {
	var b strings.Builder
	for _, c := range s {
		if (c >= 'a' && c <= 'z') || (c >= 'A' && c <= 'Z') || (c >= '0' && c <= '9') {
			b.WriteRune(c)
		} else {
			b.WriteByte('_')
		}
	}
	return b.String()
}

// runReplayTest runs the generated test against the real package; returns output and whether it failed (= violation reproduced).
func runReplayTest(r *replaySrc) (string, bool) {
	tmp, err := os.MkdirTemp("", "govc-replay-")
	if err != nil {
		return err.Error(), false
	}
	defer os.RemoveAll(tmp)
	src := filepath.Join(tmp, "replay_test.go")
	if err := os.WriteFile(src, []byte(r.Source), 0o644); err != nil {
		return err.Error(), false
	}
	ov := map[string]map[string]string{"Replace": {filepath.Join(r.PkgDir, "zz_verif_replay_test.go"): src}}
	ob, _ := json.Marshal(ov)
	ovf := filepath.Join(tmp, "overlay.json")
	os.WriteFile(ovf, ob, 0o644)
	cmd := exec.Command("bash", "-c", fmt.Sprintf("ulimit -v 8000000; cd %q && go test -overlay %q -vet=off -count=1 -timeout 60s -run '^%s$' .", r.PkgDir, ovf, r.Run))
	cmd.Env = append(os.Environ(), "GOFLAGS=-mod=mod", "GOPROXY=off", "GOSUMDB=off", "GOTOOLCHAIN=local")
	out, err := cmd.CombinedOutput()
	so := string(out)
	if len(so) > 4000 {
		so = so[:4000]
	}
	failed := err != nil && (strings.Contains(so, "REPLAY-PANIC") || strings.Contains(so, "REPLAY-VIOLATION") || strings.Contains(so, "panic:") || strings.Contains(so, "fatal error"))
	return so, failed
}
