package main

import (
	"fmt"
	"go/token"
	"go/types"
	"os"
	"path/filepath"
	"sort"
	"strings"

	"golang.org/x/tools/go/packages"
	"golang.org/x/tools/go/ssa"
	"golang.org/x/tools/go/ssa/ssautil"
)

type Obligation struct {
	Name      string
	Kind      string // safety | ensures | requires | invariant.init | invariant.step | decreases | assert | cover | alloc | panic
	Tag       string
	Root      string
	Pos       string
	Assumes   []Term
	Goal      Term
	GetValues []Term
	Desc      string
	Trace     []string
	ExpectSat bool
	Result    *SolverResult
	PathID    int
	InputVals []modelInput
	U         *Universe
	Clause    Expr  // contract clause (ensures) for native evaluation in replays
	Hint      *Term // replay hint: only used to pick a more realistic model, never for the verdict
}

type modelInput struct {
	Name string
	Type string
	Term Term
	Aux  map[string]Term
	GoT  types.Type
}

type Engine struct {
	u    *Universe
	tm   *TypeMap
	prog *ssa.Program
	fset *token.FileSet
	pkgs []*packages.Package
	cs   *ContractSet

	heapSorts   map[string]string
	heapPtrLike map[string]bool
	heapValKind map[string]string
	heapGoType  map[string]types.Type

	refCounter   int
	stateCounter int
	funcIDs      map[*ssa.Function]int
	idFuncs      map[int]*ssa.Function
	closureIDs   map[*Closure]int
	idClosures   map[int]*Closure
	globalRefs   map[*ssa.Global]Term

	obligations []*Obligation
	loopInfo    map[*ssa.Function]*FuncLoops
	writeSets   map[*ssa.Function]*WriteSet
	siteNames   map[ssa.Instruction]string

	abstractions map[string]bool
	errors       []string
	maxStates    int
	statesRun    int
	rootKey      string
	rootInputs   []modelInput
	rootHint     *Term
	funcsByKey   map[string]*ssa.Function
	inlineDepth  int
	verbose      bool
	specCache    map[string]bool
	allocBound   bool
	coverHits    map[string]bool
	funcsTouched map[string]bool
	inc          *incSolver
	modDir       string
	globalNonNil map[*ssa.Global]bool
	globalConsts map[*ssa.Global]*constGlobal
	callOrdinals map[ssa.Instruction]int
	rootContract *FuncContract
	rootFn       *ssa.Function
	// propID: id of the property being checked ("" in debug runs); see frameOnlyApplies
	propID string
}

func NewEngine() *Engine {
	u := NewUniverse()
	e := &Engine{u: u, tm: NewTypeMap(u),
		heapSorts: map[string]string{}, heapPtrLike: map[string]bool{}, heapValKind: map[string]string{}, heapGoType: map[string]types.Type{},
		funcIDs: map[*ssa.Function]int{}, idFuncs: map[int]*ssa.Function{}, closureIDs: map[*Closure]int{}, idClosures: map[int]*Closure{},
		globalRefs: map[*ssa.Global]Term{}, loopInfo: map[*ssa.Function]*FuncLoops{}, writeSets: map[*ssa.Function]*WriteSet{},
		siteNames: map[ssa.Instruction]string{}, abstractions: map[string]bool{}, maxStates: 3000,
		funcsByKey: map[string]*ssa.Function{}, specCache: map[string]bool{}, coverHits: map[string]bool{}, funcsTouched: map[string]bool{},
		callOrdinals: map[ssa.Instruction]int{},
	}
	return e
}

// resetSymbolic gives every root function its own symbol universe so that the
// queries of one root do not depend on which other roots ran before it.
func (e *Engine) resetSymbolic() {
	e.incClose()
	e.u = NewUniverse()
	currentUniverse = e.u
	e.tm = NewTypeMap(e.u)
	e.heapSorts, e.heapPtrLike, e.heapValKind, e.heapGoType = map[string]string{}, map[string]bool{}, map[string]string{}, map[string]types.Type{}
	e.refCounter = 0
	e.funcIDs, e.idFuncs = map[*ssa.Function]int{}, map[int]*ssa.Function{}
	e.closureIDs, e.idClosures = map[*Closure]int{}, map[int]*Closure{}
	e.globalRefs = map[*ssa.Global]Term{}
	e.loopInfo, e.writeSets = map[*ssa.Function]*FuncLoops{}, map[*ssa.Function]*WriteSet{}
	e.specCache = map[string]bool{}
}

func (e *Engine) funcID(f *ssa.Function) int {
	if id, ok := e.funcIDs[f]; ok {
		return id
	}
	id := 1000000 + len(e.funcIDs)
	e.funcIDs[f] = id
	e.idFuncs[id] = f
	return id
}

func (e *Engine) closureID(c *Closure) int {
	if id, ok := e.closureIDs[c]; ok {
		return id
	}
	id := 2000000 + len(e.closureIDs)
	e.closureIDs[c] = id
	e.idClosures[id] = c
	return id
}

func (e *Engine) globalRef(g *ssa.Global) Term {
	if t, ok := e.globalRefs[g]; ok {
		return t
	}
	t := IntLit(int64(-1000000 - len(e.globalRefs)))
	e.globalRefs[g] = t
	return t
}

func (e *Engine) abstract(msg string) { e.abstractions[msg] = true }

func (e *Engine) errorf(format string, args ...interface{}) {
	msg := fmt.Sprintf(format, args...)
	for _, m := range e.errors {
		if m == msg {
			return
		}
	}
	e.errors = append(e.errors, msg)
}

// Load loads packages of one module directory and builds SSA.
func (e *Engine) Load(dir string, patterns []string) error {
	cfg := &packages.Config{Mode: packages.LoadAllSyntax, Dir: dir, BuildFlags: []string{"-tags=verif"},
		Env: append(os.Environ(), "GOFLAGS=-mod=mod", "GOPROXY=off", "GOSUMDB=off", "GOTOOLCHAIN=local",
			"PATH=/opt/veriftools/go1.26.8/bin:"+os.Getenv("PATH"))}
	pkgs, err := packages.Load(cfg, patterns...)
	if err != nil {
		return err
	}
	var errs []string
	packages.Visit(pkgs, nil, func(p *packages.Package) {
		for _, pe := range p.Errors {
			if strings.HasPrefix(p.PkgPath, "github.com/KafScale") || strings.HasPrefix(p.PkgPath, "github.com/kafscale") {
				errs = append(errs, pe.Error())
			}
		}
	})
	if len(errs) > 0 {
		return fmt.Errorf("package errors: %s", strings.Join(errs, "; "))
	}
	prog, _ := ssautil.AllPackages(pkgs, ssa.NaiveForm|ssa.InstantiateGenerics)
	prog.Build()
	e.prog = prog
	e.modDir = dir
	e.pkgs = pkgs
	e.fset = prog.Fset
	for f := range ssautil.AllFunctions(prog) {
		if f.Pkg == nil && f.Synthetic == "" {
			continue
		}
		e.funcsByKey[funcKey(f)] = f
	}
	return nil
}

// LoadContracts reads zz_verif_contracts*.go in the loaded first-party packages and the spec dir.
func (e *Engine) LoadContracts(specDir string) error {
	e.cs = NewContractSet()
	seen := map[string]bool{}
	var perr error
	packages.Visit(e.pkgs, nil, func(p *packages.Package) {
		if !(strings.HasPrefix(p.PkgPath, "github.com/KafScale") || strings.HasPrefix(p.PkgPath, "github.com/kafscale")) {
			return
		}
		if len(p.GoFiles) == 0 {
			return
		}
		dir := filepath.Dir(p.GoFiles[0])
		if seen[dir] {
			return
		}
		seen[dir] = true
		ms, _ := filepath.Glob(filepath.Join(dir, "zz_verif_contracts*.go"))
		sort.Strings(ms)
		for _, m := range ms {
			if err := e.cs.ParseContractFile(m, p.PkgPath); err != nil && perr == nil {
				perr = err
			}
		}
	})
	if perr != nil {
		return perr
	}
	for key, c := range e.cs.Funcs {
		if !c.Extern {
			if _, ok := e.funcsByKey[key]; !ok {
				// the function was renamed or removed: its contract cannot be checked (engine error, "needs
				// contract"); the other contracts are still checked, so a change that broke a clause elsewhere is
				// still reported
				e.errorf("%s: contract for unknown function %s (renamed or removed: its clauses are not checked)", c.File, shortKey(key))
				delete(e.cs.Funcs, key)
			}
		}
	}
	ms, _ := filepath.Glob(filepath.Join(specDir, "*.spec"))
	sort.Strings(ms)
	for _, m := range ms {
		if err := e.cs.ParseContractFile(m, ""); err != nil {
			return err
		}
	}
	return nil
}

func funcKey(f *ssa.Function) string {
	pkg := ""
	if f.Pkg != nil {
		pkg = f.Pkg.Pkg.Path()
	} else if f.Object() != nil && f.Object().Pkg() != nil {
		pkg = f.Object().Pkg().Path()
	}
	if f.Parent() != nil {
		return funcKey(f.Parent()) + "$" + strings.TrimPrefix(f.Name(), f.Parent().Name()+"$")
	}
	if f.Signature.Recv() != nil {
		rt := f.Signature.Recv().Type()
		if p, ok := rt.(*types.Pointer); ok {
			rt = p.Elem()
		}
		name := rt.String()
		if n, ok := rt.(*types.Named); ok {
			name = n.Obj().Name()
			if n.Obj().Pkg() != nil {
				pkg = n.Obj().Pkg().Path()
			}
		}
		return pkg + "." + name + "." + f.Name()
	}
	return pkg + "." + f.Name()
}

func shortKey(k string) string {
	k = strings.TrimPrefix(k, "github.com/KafScale/platform/")
	k = strings.TrimPrefix(k, "github.com/kafscale/platform/")
	return k
}

func (e *Engine) contractFor(f *ssa.Function) *FuncContract {
	if e.cs == nil {
		return nil
	}
	return e.cs.Funcs[funcKey(f)]
}

func isFirstParty(f *ssa.Function) bool {
	k := funcKey(f)
	return strings.HasPrefix(k, "github.com/KafScale/") || strings.HasPrefix(k, "github.com/kafscale/")
}

// siteName gives a stable name to an instruction inside its function:
// kind@ordinal (ordinal among instructions of the same kind in block order).
func (e *Engine) siteName(instr ssa.Instruction, kind string) string {
	if n, ok := e.siteNames[instr]; ok {
		return n
	}
	fn := instr.Parent()
	counts := map[string]int{}
	for _, b := range fn.Blocks {
		for _, in := range b.Instrs {
			k := instrKind(in)
			if k == "" {
				continue
			}
			counts[k]++
			e.siteNames[in] = fmt.Sprintf("%s@%d", k, counts[k])
		}
	}
	if n, ok := e.siteNames[instr]; ok {
		return n
	}
	return kind + "@?"
}

func instrKind(in ssa.Instruction) string {
	switch x := in.(type) {
	case *ssa.IndexAddr, *ssa.Index:
		return "index"
	case *ssa.Slice:
		return "slice"
	case *ssa.FieldAddr:
		return "nilfield"
	case *ssa.UnOp:
		if x.Op == token.MUL {
			return "nilderef"
		}
		return ""
	case *ssa.Store:
		return "nilstore"
	case *ssa.TypeAssert:
		return "typeassert"
	case *ssa.BinOp:
		if x.Op == token.QUO || x.Op == token.REM {
			return "div"
		}
		if x.Op == token.SHL || x.Op == token.SHR {
			return "shift"
		}
		return ""
	case *ssa.MakeSlice:
		return "make"
	case *ssa.Panic:
		return "panic"
	case *ssa.Call:
		return "call"
	case *ssa.MapUpdate:
		return "mapupdate"
	case *ssa.Convert:
		return "convert"
	case *ssa.Lookup:
		return "lookup"
	case *ssa.SliceToArrayPointer:
		return "slice2arr"
	}
	return ""
}

// addObligation registers a proof obligation in the current state.
func (s *State) addObligation(kind, name, tag string, pos token.Pos, goal Term, desc string) {
	if goal.S == "true" {
		// trivially discharged; still count it
		s.eng.obligations = append(s.eng.obligations, &Obligation{Name: name, Kind: kind, Tag: tag, Root: s.eng.rootKey,
			Pos: posString(s.eng.fset, pos), Goal: goal, Desc: desc, Result: &SolverResult{Status: "unsat", Solver: "trivial"}, PathID: s.id, U: s.eng.u})
		return
	}
	o := &Obligation{Name: name, Kind: kind, Tag: tag, Root: s.eng.rootKey, Pos: posString(s.eng.fset, pos),
		Assumes: s.assumes.slice(), Goal: goal, Desc: desc, PathID: s.id, Trace: append([]string(nil), s.trace...), InputVals: s.eng.rootInputs, Hint: s.eng.rootHint, U: s.eng.u}
	s.eng.obligations = append(s.eng.obligations, o)
}
