package main

// Incremental solver used only for path feasibility pruning. It never decides
// an obligation: an "unknown"/timeout/error answer keeps the path alive.

import (
	"bufio"
	"fmt"
	"io"
	"os"
	"os/exec"
	"strings"
	"time"
)

type incSolver struct {
	cmd       *exec.Cmd
	in        io.WriteCloser
	lines     chan string
	sentSyms  int
	sentSorts int
	sentAx    map[string]bool
	dead      bool
	calls     int
	timeouts  int
	secs      float64
}

const incHardTimeout = 700 * time.Millisecond

func (e *Engine) incStart() *incSolver {
	cmd := exec.Command("z3-new", "-in", "-t:80")
	in, err := cmd.StdinPipe()
	if err != nil {
		return &incSolver{dead: true}
	}
	out, err := cmd.StdoutPipe()
	if err != nil {
		return &incSolver{dead: true}
	}
	if err := cmd.Start(); err != nil {
		return &incSolver{dead: true}
	}
	is := &incSolver{cmd: cmd, in: in, lines: make(chan string, 64), sentAx: map[string]bool{}}
	go func() {
		rd := bufio.NewReader(out)
		for {
			line, err := rd.ReadString('\n')
			if err != nil {
				close(is.lines)
				return
			}
			is.lines <- strings.TrimSpace(line)
		}
	}()
	return is
}

func (is *incSolver) kill() {
	if is == nil || is.cmd == nil {
		return
	}
	is.in.Close()
	is.cmd.Process.Kill()
	go is.cmd.Wait()
	is.dead = true
}

func (e *Engine) incClose() {
	if e.inc != nil && !e.inc.dead {
		e.inc.kill()
	}
	e.inc = nil
}

// incCheck returns "sat", "unsat" or "unknown" for the conjunction of assumes.
func (e *Engine) incCheck(assumes []Term) string {
	if e.inc == nil || e.inc.dead {
		calls, tos, secs := 0, 0, 0.0
		if e.inc != nil {
			calls, tos, secs = e.inc.calls, e.inc.timeouts, e.inc.secs
		}
		e.inc = e.incStart()
		e.inc.calls, e.inc.timeouts, e.inc.secs = calls, tos, secs
	}
	is := e.inc
	if is.dead {
		return "unknown"
	}
	t0 := time.Now()
	defer func() { is.secs += time.Since(t0).Seconds(); is.calls++ }()
	var b strings.Builder
	u := e.u
	u.mu.Lock()
	for ; is.sentSorts < len(u.sortDecls); is.sentSorts++ {
		b.WriteString(u.sortDecls[is.sentSorts])
		b.WriteByte('\n')
	}
	for ; is.sentSyms < len(u.order); is.sentSyms++ {
		b.WriteString(u.order[is.sentSyms].decl)
		b.WriteByte('\n')
	}
	for sym, axs := range u.axioms {
		for _, ax := range axs {
			if !is.sentAx[sym+"|"+ax] {
				is.sentAx[sym+"|"+ax] = true
				if !strings.Contains(ax, "(forall") && !strings.Contains(ax, "(exists") {
					fmt.Fprintf(&b, "(assert %s)\n", ax)
				}
			}
		}
	}
	u.mu.Unlock()
	b.WriteString("(push)\n")
	for _, a := range assumes {
		// quantified facts are dropped: fewer assumptions keep "unsat" sound for pruning
		if a.S != "true" && !strings.Contains(a.S, "(forall") && !strings.Contains(a.S, "(exists") && !e.u.mentionsQuantified(a.S) {
			fmt.Fprintf(&b, "(assert %s)\n", a.S)
		}
	}
	b.WriteString("(check-sat)\n(pop)\n")
	if f := os.Getenv("GOVC_INCLOG"); f != "" {
		if fh, err := os.OpenFile(f, os.O_APPEND|os.O_CREATE|os.O_WRONLY, 0o644); err == nil {
			fh.WriteString(b.String())
			fh.Close()
		}
	}
	if _, err := io.WriteString(is.in, b.String()); err != nil {
		is.kill()
		return "unknown"
	}
	deadline := time.After(incHardTimeout)
	for {
		select {
		case line, ok := <-is.lines:
			if !ok {
				is.dead = true
				return "unknown"
			}
			switch line {
			case "sat", "unsat", "unknown":
				return line
			}
		case <-deadline:
			is.timeouts++
			is.kill()
			return "unknown"
		}
	}
}
