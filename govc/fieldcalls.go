package main

// Static clause
//
//	field_called_only_here [tag] T.f
//
// on a function F: in the whole loaded program, every call THROUGH the function-valued struct field T.f (a call whose
// callee value is loaded from the field address x.f, x of type *T) lies in F or in a closure of F. Together with
// contracts on F this pins down every invocation of the callback held in that field. Loads of the field that are not
// called directly (the value copied to a local, passed on, stored elsewhere) are reported as well: they would let the
// callback escape the rule.

import (
	"fmt"
	"go/token"
	"go/types"
	"sort"
	"strings"

	"golang.org/x/tools/go/ssa"
)

func (e *Engine) checkFieldCalledOnlyHere(s *State, fn *ssa.Function, c *FuncContract) {
	for _, spec := range strings.Split(c.Flags["field_called_only_here"], ";;") {
		spec = strings.TrimSpace(spec)
		if spec == "" {
			continue
		}
		tag := ""
		if strings.HasPrefix(spec, "[") {
			if k := strings.Index(spec, "]"); k > 0 {
				tag = spec[1:k]
				spec = strings.TrimSpace(spec[k+1:])
			}
		}
		dot := strings.LastIndex(spec, ".")
		if dot < 0 {
			e.bail("field_called_only_here [tag] T.f")
		}
		tname, fname := spec[:dot], spec[dot+1:]
		inHere := func(f *ssa.Function) bool {
			for g := f; g != nil; g = g.Parent() {
				if g == fn {
					return true
				}
			}
			return false
		}
		isField := func(v ssa.Value) bool {
			fa, ok := v.(*ssa.FieldAddr)
			if !ok {
				return false
			}
			pt, ok := fa.X.Type().Underlying().(*types.Pointer)
			if !ok {
				return false
			}
			named, ok := pt.Elem().(*types.Named)
			if !ok || named.Obj().Name() != tname {
				return false
			}
			if fn.Pkg != nil && named.Obj().Pkg() != fn.Pkg.Pkg {
				return false
			}
			st, ok := named.Underlying().(*types.Struct)
			return ok && fa.Field < st.NumFields() && st.Field(fa.Field).Name() == fname
		}
		var bad []string
		calls := 0
		keys := make([]string, 0, len(e.funcsByKey))
		for k := range e.funcsByKey {
			keys = append(keys, k)
		}
		sort.Strings(keys)
		for _, k := range keys {
			f := e.funcsByKey[k]
			for _, b := range f.Blocks {
				for _, in := range b.Instrs {
					u, ok := in.(*ssa.UnOp)
					if !ok || u.Op != token.MUL || !isField(u.X) {
						continue
					}
					// every use of the loaded function value
					refs := u.Referrers()
					if refs == nil {
						continue
					}
					for _, r := range *refs {
						called := false
						switch x := r.(type) {
						case *ssa.Call:
							called = x.Common().Value == u
						case *ssa.Defer:
							called = x.Common().Value == u
						case *ssa.Go:
							called = x.Common().Value == u
						case *ssa.BinOp:
							continue // comparison with nil
						case *ssa.DebugRef:
							continue
						}
						if called {
							calls++
							if !inHere(f) {
								bad = append(bad, fmt.Sprintf("%s.%s is called in %s at %s", tname, fname, shortKey(funcKey(f)), posString(e.fset, r.Pos())))
							}
						} else {
							bad = append(bad, fmt.Sprintf("the value of %s.%s is copied in %s at %s (it could be called from there)", tname, fname, shortKey(funcKey(f)), posString(e.fset, r.Pos())))
						}
					}
				}
			}
		}
		if calls == 0 && len(bad) == 0 {
			bad = append(bad, "no call through "+spec+" found anywhere")
		}
		goal, why := TTrue, fmt.Sprintf("%d call(s), all here", calls)
		if len(bad) > 0 {
			sort.Strings(bad)
			goal, why = TFalse, strings.Join(bad, "; ")
		}
		name := fmt.Sprintf("%s#frame:%s", e.rootKey, tag)
		s.addObligation("frame", name, tag, fn.Pos(), goal, "calls through "+spec+": "+why)
		if len(bad) > 0 {
			e.obligations[len(e.obligations)-1].Result = &SolverResult{Status: "sat", Solver: "static-program-scan", Output: why}
		}
	}
}

// Static clause
//
//	every_iteration_calls [tag] x: callee
//
// In the innermost loop whose body declares the local variable x, every path from the loop head around to the loop
// head again (one full iteration that goes on to the next element) passes through a call of `callee`: no `continue`
// (or other shortcut) skips the call. Iterations that leave the function or the loop are not constrained. Decided on
// the control-flow graph, block by block.
func (e *Engine) checkEveryIterationCalls(s *State, fn *ssa.Function, c *FuncContract) {
	for _, spec := range strings.Split(c.Flags["every_iteration_calls"], ";;") {
		spec = strings.TrimSpace(spec)
		if spec == "" {
			continue
		}
		tag := ""
		if strings.HasPrefix(spec, "[") {
			if k := strings.Index(spec, "]"); k > 0 {
				tag = spec[1:k]
				spec = strings.TrimSpace(spec[k+1:])
			}
		}
		k := strings.Index(spec, ":")
		if k < 0 {
			e.bail("every_iteration_calls [tag] x: callee")
		}
		varName, callee := strings.TrimSpace(spec[:k]), strings.TrimSpace(spec[k+1:])
		var loop *LoopInfo
		for _, li := range e.loopsOf(fn).Loops {
			has := false
			for b := range li.Blocks {
				for _, in := range b.Instrs {
					if al, ok := in.(*ssa.Alloc); ok && al.Comment == varName {
						has = true
					}
				}
			}
			if has && (loop == nil || len(li.Blocks) < len(loop.Blocks)) {
				loop = li
			}
		}
		why := ""
		if loop == nil {
			why = "no loop declares a local variable " + varName
		} else {
			calls := func(b *ssa.BasicBlock) bool {
				for _, in := range b.Instrs {
					if call, ok := in.(*ssa.Call); ok && calleeShortName(call.Common()) == callee {
						return true
					}
				}
				return false
			}
			found := false
			for b := range loop.Blocks {
				if calls(b) {
					found = true
				}
			}
			if !found {
				why = "the loop over " + varName + " contains no call of " + callee
			} else {
				seen := map[*ssa.BasicBlock]bool{}
				var work []*ssa.BasicBlock
				for _, t := range loop.Header.Succs {
					if loop.Blocks[t] && t != loop.Header {
						work = append(work, t)
					}
				}
				for len(work) > 0 && why == "" {
					b := work[len(work)-1]
					work = work[:len(work)-1]
					if seen[b] || calls(b) {
						continue
					}
					seen[b] = true
					for _, t := range b.Succs {
						if t == loop.Header {
							pos := "?"
							if len(b.Instrs) > 0 {
								pos = posString(e.fset, b.Instrs[len(b.Instrs)-1].Pos())
							}
							why = "an iteration of the loop over " + varName + " can go on to the next element near " + pos + " without calling " + callee
							break
						}
						if loop.Blocks[t] {
							work = append(work, t)
						}
					}
				}
			}
		}
		goal, desc := TTrue, "every iteration that continues calls "+callee
		if why != "" {
			goal, desc = TFalse, why
		}
		name := fmt.Sprintf("%s#frame:%s", e.rootKey, tag)
		s.addObligation("frame", name, tag, fn.Pos(), goal, "loop over "+varName+": "+desc)
		if why != "" {
			e.obligations[len(e.obligations)-1].Result = &SolverResult{Status: "sat", Solver: "static-cfg-analysis", Output: why}
		}
	}
}
