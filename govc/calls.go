package main

import (
	"fmt"
	"go/types"
	"strings"

	"golang.org/x/tools/go/ssa"
)

func ifaceMethodKey(cc *ssa.CallCommon) string {
	rt := cc.Value.Type()
	name := rt.String()
	if n, ok := rt.(*types.Named); ok {
		name = n.Obj().Name()
		if n.Obj().Pkg() != nil {
			name = n.Obj().Pkg().Path() + "." + name
		}
	} else if a, ok := rt.(*types.Alias); ok {
		name = a.Obj().Name()
		if a.Obj().Pkg() != nil {
			name = a.Obj().Pkg().Path() + "." + name
		}
	}
	return name + "." + cc.Method.Name()
}

var purePackages = map[string]bool{
	"fmt": true, "errors": true, "strings": true, "strconv": true, "time": true, "math": true, "unicode": true,
	"unicode/utf8": true, "path": true, "path/filepath": true, "log/slog": true, "log": true, "math/bits": true,
	"hash/crc32": true, "crypto/sha256": true, "crypto/md5": true, "crypto/sha1": true, "encoding/hex": true, "net": true, "net/url": true,
	"encoding/base64": true, "regexp": true, "os": true, "context": true, "slices": true, "maps": true, "cmp": true,
	"github.com/google/uuid": true, "net/netip": true, "crypto/subtle": true, "crypto/rand": true, "reflect": true,
	"crypto/sha512": true, "hash/fnv": true, "unicode/utf16": true, "math/rand": true, "sync/atomic": false,
}

func (e *Engine) isPureExtern(f *ssa.Function) bool {
	if f.Pkg == nil {
		if f.Object() != nil && f.Object().Pkg() != nil {
			return purePackages[f.Object().Pkg().Path()]
		}
		return false
	}
	p := f.Pkg.Pkg.Path()
	if p == "encoding/binary" {
		n := f.Name()
		return !strings.HasPrefix(n, "Put") && !strings.HasPrefix(n, "Append") && n != "Read" && n != "Write"
	}
	if p == "bytes" {
		// package-level functions of bytes never write their arguments; Buffer/Reader methods are not covered here
		return f.Signature.Recv() == nil
	}
	if p == "sort" {
		switch f.Name() {
		case "Search", "SearchInts", "SearchStrings", "IsSorted", "SliceIsSorted":
			return true
		}
		return false
	}
	return purePackages[p]
}

func (e *Engine) externWrites(f *ssa.Function) *WriteSet {
	if f.Pkg == nil {
		return nil
	}
	p := f.Pkg.Pkg.Path()
	w := newWriteSet()
	switch {
	case p == "encoding/binary" && (strings.HasPrefix(f.Name(), "Put") || strings.HasPrefix(f.Name(), "Append")):
		key, _ := e.memKey(types.Typ[types.Uint8])
		w.Heap[key] = true
		return w
	case p == "sync":
		return w
	case p == "container/list":
		e.listKeys()
		w.Heap[gListLen] = true
		w.Heap[gListTid] = true
		return w
	case p == "bufio" && f.Signature.Recv() != nil && strings.Contains(f.Signature.Recv().Type().String(), "Reader"):
		e.ghostKeys()
		w.Heap[gBrPos] = true
		return w
	case p == "bytes" && f.Signature.Recv() != nil && strings.Contains(f.Signature.Recv().Type().String(), "Reader"):
		e.ghostKeys()
		w.Heap[gBrPos] = true
		if f.Name() == "Read" || f.Name() == "ReadAt" {
			// fills the caller's buffer (models_addons.go)
			key, _ := e.memKey(types.Typ[types.Uint8])
			w.Heap[key] = true
		}
		return w
	case p == "bytes" && f.Name() == "NewReader":
		return w
	case (p == "bytes" && f.Signature.Recv() != nil && strings.Contains(f.Signature.Recv().Type().String(), "Buffer")) ||
		(p == "strings" && f.Signature.Recv() != nil && strings.Contains(f.Signature.Recv().Type().String(), "Builder")):
		// methods of bytes.Buffer / strings.Builder mutate only the receiver's own (unmodelled) state
		e.abstract("bytes.Buffer / strings.Builder methods write only their receiver (opaque, trusted)")
		if p == "bytes" {
			e.bufExternWrites(f, w)
		}
		return w
	case p == "encoding/binary" && f.Name() == "Write":
		e.abstract("encoding/binary.Write writes only to its io.Writer argument (opaque, trusted)")
		e.bufExternWrites(f, w)
		return w
	case p == "encoding/binary" && f.Name() == "Read":
		// consumes from the reader; the destination pointer is accounted for at the call site (address passed)
		e.ghostKeys()
		w.Heap[gBrPos] = true
		return w
	case p == "io" && f.Name() == "ReadFull":
		e.ghostKeys()
		w.Heap[gBrPos] = true
		key, _ := e.memKey(types.Typ[types.Uint8])
		w.Heap[key] = true
		return w
	case p == "sort" && (f.Name() == "Strings" || f.Name() == "Ints"):
		if f.Name() == "Strings" {
			key, _ := e.memKey(types.Typ[types.String])
			w.Heap[key] = true
		} else {
			key, _ := e.memKey(types.Typ[types.Int])
			w.Heap[key] = true
		}
		return w
	}
	return nil
}

func (e *Engine) isPureIfaceMethod(key string) bool {
	switch key {
	case "error.Error", "context.Context.Err", "context.Context.Done", "context.Context.Value", "context.Context.Deadline",
		"fmt.Stringer.String", "net.Addr.String", "net.Addr.Network", "hash.Hash.Sum", "hash.Hash32.Sum32":
		return true
	}
	return false
}

// ---------------------------------------------------------------------------

func (e *Engine) execCall(s *State, fr *Frame, x *ssa.Call) ([]*State, bool) {
	cc := x.Common()
	var args []Value
	for _, a := range cc.Args {
		args = append(args, s.get(fr, a))
	}
	fnv := s.get(fr, cc.Value)
	return e.callValue(s, fr, x, cc, fnv, args, x)
}

// callValue performs a call; dst is the Call instruction receiving the result (nil for defers).
func (e *Engine) callValue(s *State, fr *Frame, dst *ssa.Call, cc *ssa.CallCommon, fnv Value, args []Value, site ssa.Instruction) ([]*State, bool) {
	// anchors "before"
	calleeName := calleeShortName(cc)
	if cc.IsInvoke() {
		fr.curRecv = fnv
	}
	fr.callCnt[calleeName]++
	anchor := fmt.Sprintf("%s#%d", calleeName, e.callOrdinal(site))
	e.applyAts(s, fr, anchor, "before", cc, args, nil, site)
	if s.dead {
		// "at callee#n before stop": the call itself is already outside the clauses under proof
		return nil, true
	}

	setResult := func(v Value) {
		if dst != nil {
			fr.regs[dst] = v
		}
		e.applyAts(s, fr, anchor, "after", cc, args, v, site)
	}
	if cc.IsInvoke() {
		recv, err := s.toTerm(fnv)
		if err != nil {
			e.bail("invoke: %v", err)
		}
		if dyn, payload, ok := e.ifaceDynType(recv); ok {
			// static dispatch
			msel := e.prog.MethodSets.MethodSet(dyn).Lookup(cc.Method.Pkg(), cc.Method.Name())
			if msel != nil {
				if f := e.prog.MethodValue(msel); f != nil {
					rv := e.unboxIface(s, payload, dyn)
					return e.callFunction(s, fr, dst, f, append([]Value{rv}, args...), nil, site, anchor, cc)
				}
			}
		}
		key := ifaceMethodKey(cc)
		name := fmt.Sprintf("%s#safety:%s", shortKey(funcKey(fr.fn)), e.siteName(site, "call"))
		if !e.isPureIfaceMethod(key) || true {
			nn := Not(Eq(App("i-type", SInt, recv), IntLit(0)))
			s.addObligation("safety", name, "", site.Pos(), nn, "method call on nil interface ("+key+")")
			s.assume(nn)
		}
		if c := e.cs.Funcs[key]; c != nil {
			rv := e.modularCall(s, fr, c, key, cc.Signature(), append([]Value{recv}, args...), site, anchor, nil)
			setResult(rv)
			return nil, false
		}
		if v, ok := e.modelIfaceCall(s, fr, key, cc, recv, args, site); ok {
			setResult(v)
			return nil, false
		}
		rv := e.unknownCall(s, fr, key, cc.Signature(), e.isPureIfaceMethod(key), site)
		setResult(rv)
		return nil, false
	}
	switch f := fnv.(type) {
	case *Builtin:
		mergeN0 := 0 // merge_coord.go
		if s.assumes != nil {
			mergeN0 = s.assumes.n
		}
		rv, succ, done := e.callBuiltin(s, fr, dst, f.Name, cc, args, site)
		if done {
			if f.Name == "append" && len(succ) == 2 && e.mergeOn() { // merge_coord.go: in-place / reallocating append rejoined
				if m := e.mergeStates(mergeN0, succ); m != nil {
					return []*State{m}, true
				}
			}
			return succ, true
		}
		setResult(rv)
		return nil, false
	case *FuncRef:
		return e.callFunction(s, fr, dst, f.Fn, args, nil, site, anchor, cc)
	case *Closure:
		return e.callFunction(s, fr, dst, f.Fn, args, f.Bindings, site, anchor, cc)
	case Term:
		// unknown function value
		if v, ok := litValue(f); ok && v.IsInt64() {
			if fn, ok := e.idFuncs[int(v.Int64())]; ok {
				return e.callFunction(s, fr, dst, fn, args, nil, site, anchor, cc)
			}
			if cl, ok := e.idClosures[int(v.Int64())]; ok {
				return e.callFunction(s, fr, dst, cl.Fn, args, cl.Bindings, site, anchor, cc)
			}
			if v.Sign() == 0 {
				name := fmt.Sprintf("%s#safety:%s", shortKey(funcKey(fr.fn)), e.siteName(site, "call"))
				s.addObligation("safety", name, "", site.Pos(), TFalse, "call of nil function value")
				s.dead = true
				return nil, true
			}
		}
		if key, ok := fieldCallKey(cc.Value); ok {
			if c := e.cs.Funcs[key]; c != nil {
				rv := e.modularCall(s, fr, c, key, cc.Signature(), args, site, anchor, nil)
				setResult(rv)
				return nil, false
			}
		}
		rv := e.unknownCall(s, fr, "func value "+cc.Value.Name()+" in "+fr.fn.Name(), cc.Signature(), false, site)
		setResult(rv)
		return nil, false
	}
	e.bail("call of unsupported value %T", fnv)
	return nil, true
}

func calleeShortName(cc *ssa.CallCommon) string {
	if cc.IsInvoke() {
		return cc.Method.Name()
	}
	switch f := cc.Value.(type) {
	case *ssa.Function:
		return f.Name()
	case *ssa.Builtin:
		return f.Name()
	case *ssa.MakeClosure:
		return f.Fn.Name()
	case *ssa.UnOp:
		// a function value loaded from a captured variable, parameter cell or local: the variable's name
		// (an SSA register name would change with every edit of the function)
		if n := loadedVarName(f); n != "" {
			return n
		}
	}
	return cc.Value.Name()
}

func (e *Engine) callFunction(s *State, fr *Frame, dst *ssa.Call, f *ssa.Function, args []Value, bindings []Value, site ssa.Instruction, anchor string, cc *ssa.CallCommon) ([]*State, bool) {
	key := funcKey(f)
	setResult := func(v Value) {
		if dst != nil {
			fr.regs[dst] = v
		}
		e.applyAts(s, fr, anchor, "after", cc, args, v, site)
	}
	// built-in models first
	if v, handled := e.modelOps(s, fr, dst, key, f, args, site); handled {
		setResult(v)
		return nil, false
	}
	if v, succ, handled, done := e.modelBufio(s, fr, dst, key, f, args, site); handled {
		if done {
			return succ, true
		}
		setResult(v)
		return nil, false
	}
	if v, handled := e.modelList(s, fr, dst, key, f, args, site); handled {
		setResult(v)
		return nil, false
	}
	if coordModelsOn() {
		// sort / time models of the coordinator checks (models_coord.go): property-scoped, because other checks were
		// validated with their own treatment of time.Time (spec/time_ops.spec) and sort.Slice (bufmodel.go)
		if v, handled := e.modelCoordCall(s, fr, key, f, args, site); handled {
			setResult(v)
			return nil, false
		}
	}
	if v, handled := e.modelBuf(s, fr, dst, key, f, args, site); handled {
		setResult(v)
		return nil, false
	}
	if v, succ, handled, done := e.modelAddons(s, fr, dst, key, f, args, site); handled {
		if done {
			return succ, true
		}
		setResult(v)
		return nil, false
	}
	if v, succ, handled, done := e.modelCall(s, fr, dst, key, f, args, site); handled {
		if done {
			return succ, true
		}
		setResult(v)
		return nil, false
	}
	// a site-local "at callee#n havoc" of the root wins over the callee's own contract: the call is replaced by an
	// arbitrary result and a havoc of the callee's write set (over-approximation; the callee's requires are the
	// business of the checks that own that contract)
	if f.Blocks != nil && isFirstParty(f) && e.atHavoc(fr, anchor) {
		rv := e.modularCall(s, fr, havocContract(key), key, f.Signature, args, site, anchor, f)
		setResult(rv)
		return nil, false
	}
	c := e.cs.Funcs[key]
	if c != nil && c.Flags["inline"] == "" && (len(c.Ensures) > 0 || len(c.Requires) > 0 || len(c.RepInv) > 0 || c.Flags["modular"] != "" || c.Flags["trusted"] != "" || f.Blocks == nil) {
		rv := e.modularCall(s, fr, c, key, f.Signature, args, site, anchor, f)
		setResult(rv)
		return nil, false
	}
	if f.Blocks == nil {
		rv := e.unknownCall(s, fr, key, f.Signature, e.isPureExtern(f), site)
		setResult(rv)
		return nil, false
	}
	if !isFirstParty(f) && !e.inlineOK(f) {
		rv := e.unknownCall(s, fr, key, f.Signature, e.isPureExtern(f), site)
		setResult(rv)
		return nil, false
	}
	// inline
	if len(s.frames) > 24 {
		e.bail("inline depth exceeded at %s (recursion?)", key)
	}
	for _, fr2 := range s.frames {
		if fr2.fn == f {
			e.abstract("recursive call of " + shortKey(key) + " treated as unknown call")
			rv := e.unknownCall(s, fr, key, f.Signature, false, site)
			setResult(rv)
			return nil, false
		}
	}
	e.funcsTouched[key] = true
	nf := &Frame{fn: f, regs: map[ssa.Value]Value{}, callCnt: map[string]int{}, ghosts: map[string]Value{}, params: map[string]Value{}, callSite: dst, contract: c}
	if dst == nil {
		nf.callSite = nil
	}
	for i, p := range f.Params {
		if i < len(args) {
			nf.regs[p] = args[i]
			nf.params[p.Name()] = args[i]
		}
	}
	for i, fv := range f.FreeVars {
		if i < len(bindings) {
			nf.regs[fv] = bindings[i]
			nf.params[fv.Name()] = bindings[i]
		}
	}
	nf.block = f.Blocks[0]
	nf.entry = s.snapshot()
	nf.entry.params = nf.params
	s.frames = append(s.frames, nf)
	e.initGhosts(s, nf)
	if dst == nil {
		// deferred call: result ignored; mark so Return does not bind
		nf.callSite = nil
	}
	if e.mergeOn() && dst != nil { // merge_coord.go: run the callee to its returns and merge them
		return e.inlineMerged(s, len(s.frames)-1, fr)
	}
	return nil, false
}

func (e *Engine) inlineOK(f *ssa.Function) bool {
	if f.Pkg == nil {
		return false
	}
	switch f.Pkg.Pkg.Path() {
	case "sync":
		return false
	}
	return false
}

// afterCall is invoked when an inlined callee returns.
func (e *Engine) afterCall(s *State, caller *Frame, call *ssa.Call, f *ssa.Function, rv Value) {
	name := calleeShortName(call.Common())
	anchor := fmt.Sprintf("%s#%d", name, e.callOrdinal(call))
	var args []Value
	for _, a := range call.Common().Args {
		if v, ok := caller.regs[a]; ok {
			args = append(args, v)
		} else {
			args = append(args, nil)
		}
	}
	e.applyAts(s, caller, anchor, "after", call.Common(), args, rv, call)
}

// unknownCall: results arbitrary; heap havocked unless pure.
func (e *Engine) unknownCall(s *State, fr *Frame, key string, sig *types.Signature, pure bool, site ssa.Instruction) Value {
	if pure {
		e.abstract("call to " + shortKey(key) + ": result arbitrary, no side effects (pure external)")
	} else {
		e.abstract("call to " + shortKey(key) + ": result arbitrary, whole heap havocked (unknown external)")
		w := newWriteSet()
		w.setAll("calls.go:319")
		e.havocWrites(s, fr, w, "call."+sanitize(shortKey(key)))
	}
	return e.freshResults(s, sig, shortKey(key))
}

func (e *Engine) freshResults(s *State, sig *types.Signature, hint string) Value {
	res := sig.Results()
	switch res.Len() {
	case 0:
		return nil
	case 1:
		return s.fresh("ret."+hint, res.At(0).Type())
	}
	tv := &Tuple{}
	for i := 0; i < res.Len(); i++ {
		tv.Vs = append(tv.Vs, s.fresh(fmt.Sprintf("ret%d.%s", i, hint), res.At(i).Type()))
	}
	return tv
}

// modularCall: assert requires, havoc frame, assume ensures.
func (e *Engine) modularCall(s *State, fr *Frame, c *FuncContract, key string, sig *types.Signature, args []Value, site ssa.Instruction, anchor string, f *ssa.Function) Value {
	e.funcsTouched["contract:"+key] = true
	// bind parameter names
	vars := map[string]Value{}
	vtypes := map[string]types.Type{}
	names := e.paramNames(c, sig, f)
	ptypes := e.paramTypes(sig, f)
	for i, n := range names {
		if i < len(args) && n != "" && n != "_" {
			vars[n] = args[i]
			vtypes[n] = ptypes[i]
		}
	}
	// the receiver of a method is always reachable as "recv" (its declared name is unknown for code outside the repository)
	if sig.Recv() != nil && len(args) > 0 && len(ptypes) > 0 {
		if _, ok := vars["recv"]; !ok {
			vars["recv"] = args[0]
			vtypes["recv"] = ptypes[0]
		}
	}
	// implicit: non-nullable pointer params non-nil
	for i, n := range names {
		if i >= len(args) {
			break
		}
		if pv, ok := args[i].(*Ptr); ok && pv.Kind == pkObj && !c.Nullable[n] && f != nil && c.Flags["site_havoc"] == "" {
			if v, ok := litValue(pv.Ref); ok && v.Sign() != 0 {
				continue
			}
			name := fmt.Sprintf("%s#requires@%s:nonnil.%s", shortKey(funcKey(fr.fn)), anchor, n)
			g := Not(Eq(pv.Ref, IntLit(0)))
			s.addObligation("requires", name, "", site.Pos(), g, "pointer argument "+n+" of "+shortKey(key)+" must be non-nil")
			s.assume(g)
		}
	}
	env := &Env{s: s, fr: fr, vars: vars, vtypes: vtypes, pkg: e.pkgOfKey(key, f), noLocals: true}
	for i, r := range c.Requires {
		t, err := e.evalBool(env, r.Expr)
		if err != nil {
			e.bail("requires of %s %q: %v", shortKey(key), r.Src, err)
		}
		name := fmt.Sprintf("%s#requires@%s:%d", shortKey(funcKey(fr.fn)), anchor, i+1)
		if r.Tag != "" {
			name = fmt.Sprintf("%s#requires@%s:%s", shortKey(funcKey(fr.fn)), anchor, r.Tag)
		}
		s.addObligation("requires", name, r.Tag, site.Pos(), t, r.Src)
		s.assume(t)
	}
	e.repInvAtCall(s, fr, c, key, env, site, anchor, f)
	old := s.snapshot()
	// havoc
	w := newWriteSet()
	if c.Flags["pure"] != "" {
	} else if c.Flags["preserves"] != "" {
		w.setAllExcept("preserves clause of "+shortKey(key), e.preservedKeys(c))
	} else if c.Flags["assigns"] != "" {
		for _, a := range c.Assigns {
			e.resolveAssign(s, env, a, w)
		}
	} else if f != nil && f.Blocks != nil {
		e.funcWrites(f, w, nil)
	} else {
		w.setAll("calls.go:393")
	}
	// readers advanced by the callee: exactly the ones passed as arguments
	for idx := range w.Readers {
		done := false
		if idx < len(args) {
			if p, ok := args[idx].(*Ptr); ok && p.Kind == pkObj {
				if !w.All && !w.Heap[gBrPos] {
					e.havocReaderPos(s, p.Ref, "call."+sanitize(shortKey(key)))
				}
				done = true
			}
		}
		if !done {
			e.ghostKeys()
			w.Heap[gBrPos] = true
		}
	}
	w.Readers = map[int]bool{}
	e.havocWrites(s, fr, w, "call."+sanitize(shortKey(key)))
	rv := e.freshResults(s, sig, shortKey(key))
	if c.Flags["fresh_result"] != "" {
		// constructor contract: every pointer result is a newly allocated object (distinct from all existing ones)
		rv = e.freshenPointerResults(rv)
	}
	rv = e.coordFreshResult(s, c, sig, rv) // models_coord.go: `returns_fresh`
	// bind results
	var results []Value
	if tv, ok := rv.(*Tuple); ok {
		results = tv.Vs
	} else if rv != nil {
		results = []Value{rv}
	}
	res := sig.Results()
	for i := 0; i < res.Len() && i < len(results); i++ {
		n := res.At(i).Name()
		if i < len(c.Results) && c.Results[i].Name != "" {
			n = c.Results[i].Name
		}
		if n != "" && n != "_" {
			vars[n] = results[i]
			vtypes[n] = res.At(i).Type()
		}
		if i == 0 {
			vars["result"] = results[i]
			vtypes["result"] = res.At(i).Type()
		}
		vars[fmt.Sprintf("result%d", i)] = results[i]
		vtypes[fmt.Sprintf("result%d", i)] = res.At(i).Type()
		if _, ok := vars["err"]; !ok && types.Identical(res.At(i).Type(), types.Universe.Lookup("error").Type()) {
			vars["err"] = results[i]
			vtypes["err"] = res.At(i).Type()
		}
	}
	env.old = old
	for _, en := range c.Ensures {
		t, err := e.evalBool(env, en.Expr)
		if err != nil {
			// postconditions phrased over the callee's own ghost variables are not visible to callers
			ghostRef := false
			for _, g := range c.Ghosts {
				if strings.Contains(err.Error(), "\""+g.Name+"\"") {
					ghostRef = true
				}
			}
			if ghostRef {
				continue
			}
			e.bail("ensures of %s %q: %v", shortKey(key), en.Src, err)
		}
		s.assume(t)
	}
	return rv
}

func (e *Engine) pkgOfKey(key string, f *ssa.Function) *types.Package {
	if f != nil && f.Pkg != nil {
		return f.Pkg.Pkg
	}
	return nil
}

func (e *Engine) paramNames(c *FuncContract, sig *types.Signature, f *ssa.Function) []string {
	var names []string
	if f != nil && len(f.Params) > 0 {
		for _, p := range f.Params {
			names = append(names, p.Name())
		}
		if len(c.Params) > 0 {
			off := 0
			if sig.Recv() != nil {
				off = 1
			}
			for i, p := range c.Params {
				if off+i < len(names) {
					names[off+i] = p.Name
				}
			}
		}
		return names
	}
	if sig.Recv() != nil {
		names = append(names, "recv")
	} else if c.Extern && strings.Count(c.Key, ".") >= 2 && len(c.Params) < sig.Params().Len()+1 {
		// interface method: first arg is receiver
	}
	if len(c.Params) > 0 {
		// interface method contracts get "recv" first
		if len(c.Params) == sig.Params().Len() && sig.Recv() == nil {
			// might be invoke-mode: args = recv + params
			names = append(names, "recv")
		}
		for _, p := range c.Params {
			names = append(names, p.Name)
		}
		return names
	}
	if sig.Recv() == nil {
		names = append(names, "recv")
	}
	for i := 0; i < sig.Params().Len(); i++ {
		names = append(names, sig.Params().At(i).Name())
	}
	return names
}

func (e *Engine) paramTypes(sig *types.Signature, f *ssa.Function) []types.Type {
	var ts []types.Type
	if f != nil && len(f.Params) > 0 {
		for _, p := range f.Params {
			ts = append(ts, p.Type())
		}
		return ts
	}
	if sig.Recv() != nil {
		ts = append(ts, sig.Recv().Type())
	} else {
		ts = append(ts, types.NewInterfaceType(nil, nil))
	}
	for i := 0; i < sig.Params().Len(); i++ {
		ts = append(ts, sig.Params().At(i).Type())
	}
	return ts
}

// resolveAssign maps an assigns item to heap keys: "T.field", "Mem(elem)", "*".
func (e *Engine) resolveAssign(s *State, env *Env, a string, w *WriteSet) {
	a = strings.TrimSpace(a)
	switch a {
	case "", "nothing":
		return
	case "*":
		w.setAll("calls.go:513")
		return
	}
	if ks, ok := e.ghostAssignKeys(a); ok {
		for _, k := range ks {
			w.Heap[k] = true
		}
		return
	}
	if e.pointeeAssign(s, env, a, w) {
		return
	}
	if strings.HasPrefix(a, "Mem(") {
		el := strings.TrimSuffix(strings.TrimPrefix(a, "Mem("), ")")
		w.Heap["Mem|"+el] = true
		return
	}
	// Type.field
	if k := strings.LastIndex(a, "."); k > 0 {
		tn, fn := a[:k], a[k+1:]
		for key, gt := range e.heapGoType {
			_ = gt
			if strings.HasPrefix(key, "H|") {
				parts := strings.Split(key, "|")
				si := e.tm.structs[parts[1]]
				if si == nil {
					continue
				}
				if !strings.HasSuffix(si.sort, "_"+sanitize(tn)) && !strings.HasSuffix(si.sort, "."+sanitize(tn)) {
					continue
				}
				var idx int
				fmt.Sscanf(parts[2], "%d", &idx)
				if si.st.Field(idx).Name() == fn || fn == "*" {
					w.Heap[key] = true
				}
			}
		}
		// also make sure the key exists for types not yet touched
		if env != nil && env.pkg != nil {
			var obj types.Object
			if strings.Contains(tn, "/") {
				// full import path: path/to/pkg.Type
				k3 := strings.LastIndex(tn, ".")
				for _, imp := range env.pkg.Imports() {
					if k3 > 0 && imp.Path() == tn[:k3] {
						obj = imp.Scope().Lookup(tn[k3+1:])
					}
				}
			} else if k2 := strings.Index(tn, "."); k2 > 0 {
				// imported type: pkgname.Type
				for _, imp := range env.pkg.Imports() {
					if imp.Name() == tn[:k2] {
						if o := imp.Scope().Lookup(tn[k2+1:]); o != nil {
							obj = o
						}
					}
				}
			} else {
				obj = env.pkg.Scope().Lookup(tn)
			}
			resolved := false
			if obj != nil {
				if st, ok := obj.Type().Underlying().(*types.Struct); ok {
					for i := 0; i < st.NumFields(); i++ {
						if st.Field(i).Name() == fn || fn == "*" {
							key, _ := e.fieldKey(obj.Type(), i)
							w.Heap[key] = true
							resolved = true
						}
					}
				}
			}
			if !resolved {
				// a frame clause naming an unknown type or field must not pass silently
				e.bail("frame clause item %q does not name a struct field visible from package %s", a, env.pkg.Path())
			}
		}
		return
	}
	e.bail("cannot resolve assigns item %q", a)
}

// ---------------------------------------------------------------------------
// Ghost state and anchors

func (e *Engine) initGhosts(s *State, fr *Frame) {
	c := fr.contract
	if c == nil {
		return
	}
	for _, g := range c.Ghosts {
		env := &Env{s: s, fr: fr, vars: map[string]Value{}, vtypes: map[string]types.Type{}}
		if fr.fn.Pkg != nil {
			env.pkg = fr.fn.Pkg.Pkg
		}
		if _, isNil := g.Init.(*ENil); isNil {
			// typed zero value (nil error, nil slice, nil pointer)
			if ty, _, err := e.resolveType(env, g.Type); err == nil && ty != nil {
				fr.ghosts[g.Name] = s.zeroValue(ty)
				continue
			}
		}
		tv, err := e.eval(env, g.Init)
		if err != nil {
			e.bail("ghost %s init: %v", g.Name, err)
		}
		fr.ghosts[g.Name] = tv.V
	}
}

func (e *Engine) applyAts(s *State, fr *Frame, anchor, when string, cc *ssa.CallCommon, args []Value, rv Value, site ssa.Instruction) {
	c := fr.contract
	if c == nil || len(c.Ats) == 0 {
		return
	}
	short := anchor[:strings.Index(anchor, "#")]
	for _, at := range c.Ats {
		if at.When != when {
			continue
		}
		if at.Anchor != anchor && at.Anchor != short+"#*" {
			continue
		}
		vars := map[string]Value{}
		vtypes := map[string]types.Type{}
		// bind $0.. as args and $ret
		sig := cc.Signature()
		off := 0
		if cc.IsInvoke() {
			// args exclude receiver in invoke mode; the interface value is bound as "recv"
			if fr.curRecv != nil {
				vars["recv"] = fr.curRecv
				vtypes["recv"] = cc.Value.Type()
			}
		} else if sig.Recv() != nil {
			off = 1
			if len(args) > 0 {
				vars["arg_recv"] = args[0]
				vtypes["arg_recv"] = sig.Recv().Type()
			}
		}
		for i := 0; i < sig.Params().Len(); i++ {
			if off+i < len(args) {
				vars[fmt.Sprintf("arg%d", i)] = args[off+i]
				vtypes[fmt.Sprintf("arg%d", i)] = sig.Params().At(i).Type()
			}
		}
		if rv != nil {
			if tv, ok := rv.(*Tuple); ok {
				for i, v := range tv.Vs {
					vars[fmt.Sprintf("ret%d", i)] = v
					vtypes[fmt.Sprintf("ret%d", i)] = sig.Results().At(i).Type()
				}
			} else if sig.Results().Len() == 1 {
				vars["ret0"] = rv
				vtypes["ret0"] = sig.Results().At(0).Type()
			}
		}
		e.coverHits[shortKey(c.Key)+"@"+at.Anchor] = true
		switch at.Kind {
		case "assert":
			t, err := e.evalClause(s, fr, at.Clause, vars, vtypes)
			if err != nil {
				e.bail("at %s assert %q: %v", anchor, at.Clause.Src, err)
			}
			name := fmt.Sprintf("%s#assert@%s:%s", shortKey(funcKey(fr.fn)), anchor, at.Clause.Tag)
			s.addObligation("assert", name, at.Clause.Tag, site.Pos(), t, at.Clause.Src)
			s.assume(t)
		case "assume":
			t, err := e.evalClause(s, fr, at.Clause, vars, vtypes)
			if err != nil {
				e.bail("at %s assume %q: %v", anchor, at.Clause.Src, err)
			}
			s.assume(t)
		case "stop":
			// the rest of the function is outside the clauses under proof on this root
			if at.Clause.Tag != "" && currentPropID != "" && !strings.HasPrefix(at.Clause.Tag, currentPropID) {
				break
			}
			s.dead = true
		case "cut", "start":
			e.applyCut(s, fr, at, anchor, site, vars, vtypes)
			if s.dead {
				return
			}
			if at.When == "after" {
				// the call's result was replaced by an arbitrary value: later "after" clauses see that one
				if c, ok := site.(*ssa.Call); ok {
					if nv, ok := fr.regs[c]; ok {
						rv = nv
					}
				}
			}
		case "set":
			env := e.mkEnv(s, fr, vars, vtypes)
			tv, err := e.eval(env, at.Clause.Expr)
			if err != nil {
				e.bail("at %s set %s: %v", anchor, at.Target, err)
			}
			fr.ghosts[at.Target] = e.nameGhostArray(s, at.Target, tv.V)
		}
	}
}

// ---------------------------------------------------------------------------
// Builtins

func (e *Engine) callBuiltin(s *State, fr *Frame, dst *ssa.Call, name string, cc *ssa.CallCommon, args []Value, site ssa.Instruction) (Value, []*State, bool) {
	switch name {
	case "len", "cap":
		at := cc.Args[0].Type().Underlying()
		switch u := at.(type) {
		case *types.Slice:
			sel := "s-len"
			if name == "cap" {
				sel = "s-cap"
			}
			return App(sel, SInt, args[0].(Term)), nil, false
		case *types.Basic:
			return App("str.len", SInt, args[0].(Term)), nil, false
		case *types.Array:
			return IntLit(u.Len()), nil, false
		case *types.Pointer:
			if arr, ok := u.Elem().Underlying().(*types.Array); ok {
				return IntLit(arr.Len()), nil, false
			}
		case *types.Map:
			_, _, lk := e.mapHeapKeys(u)
			m, _ := s.toTerm(args[0])
			n := Select(s.heapGet(lk, ArraySort(SInt, SInt)), m)
			s.assume(Ge(n, IntLit(0)))
			s.assume(Implies(Eq(m, IntLit(0)), Eq(n, IntLit(0))))
			return n, nil, false
		case *types.Chan:
			return s.fresh("chanlen", types.Typ[types.Int]), nil, false
		}
		e.bail("len/cap of %s", at)
	case "append":
		return e.builtinAppend(s, fr, dst, cc, args, site)
	case "copy":
		return e.builtinCopy(s, fr, cc, args, site), nil, false
	case "delete":
		e.mapDelete(s, fr, cc, args)
		return nil, nil, false
	case "panic":
		name := fmt.Sprintf("%s#safety:%s", shortKey(funcKey(fr.fn)), e.siteName(site, "panic"))
		s.addObligation("safety", name, "", site.Pos(), TFalse, "explicit panic reachable")
		s.dead = true
		return nil, nil, true
	case "print", "println":
		return nil, nil, false
	case "recover":
		return NilIface, nil, false
	case "min", "max":
		a, b := args[0].(Term), args[1].(Term)
		if name == "min" {
			return Ite(Le(a, b), a, b), nil, false
		}
		return Ite(Ge(a, b), a, b), nil, false
	case "close":
		return nil, nil, false
	case "ssa:wrapnilchk":
		return args[0], nil, false
	case "ssa:deferstack":
		return IntLit(0), nil, false
	case "clear":
		e.bail("clear unsupported")
	}
	e.bail("unsupported builtin %s", name)
	return nil, nil, true
}

func (e *Engine) builtinAppend(s *State, fr *Frame, dst *ssa.Call, cc *ssa.CallCommon, args []Value, site ssa.Instruction) (Value, []*State, bool) {
	st := cc.Args[0].Type().Underlying().(*types.Slice)
	elem := st.Elem()
	sl := args[0].(Term)
	var src Term
	srcIsString := false
	if b := basicOf(cc.Args[1].Type()); b != nil && b.Info()&types.IsString != 0 {
		srcIsString = true
		src = args[1].(Term)
	} else {
		src = args[1].(Term)
	}
	key, sort := e.memKey(elem)
	inner := arrayElemSort(sort)
	ln, cp, off, base := App("s-len", SInt, sl), App("s-cap", SInt, sl), App("s-off", SInt, sl), App("s-base", SInt, sl)
	var n Term
	if srcIsString {
		n = App("str.len", SInt, src)
	} else {
		n = App("s-len", SInt, src)
	}
	n = e.u.Define("appn", n)
	newLen := e.u.Define("applen", Add(ln, n))
	// element accessor of the source at index j (as SMT string with free var j)
	srcAt := func(h Term, j string) string {
		if srcIsString {
			return fmt.Sprintf("(str.to_code (str.at %s %s))", src.S, j)
		}
		return fmt.Sprintf("(select (select %s (s-base %s)) (+ (s-off %s) %s))", h.S, src.S, src.S, j)
	}
	if v, ok := litValue(n); ok && v.Sign() == 0 {
		return sl, nil, false
	}
	fits := Le(newLen, cp)
	// path A: in place
	sA := s
	sB := s.fork()
	var out []*State
	{
		sA.assume(fits)
		h := sA.heapGet(key, sort)
		var narr Term
		if v, ok := litValue(n); ok && v.IsInt64() && v.Int64() <= 4 && !srcIsString {
			arr := Select(h, base)
			for j := int64(0); j < v.Int64(); j++ {
				el := Term{srcAt(h, fmt.Sprint(j)), e.tm.SortOf(elem)}
				arr = Store(arr, Add(Add(off, ln), IntLit(j)), el)
			}
			narr = e.u.Define("apparr", arr)
		} else {
			narr = e.u.Fresh("apparr", inner)
			oldArr := e.u.Define("oldarr", Select(h, base))
			ax := fmt.Sprintf("(forall ((j Int)) (! (= (select %s j) (ite (and (<= (+ %s %s) j) (< j (+ %s %s))) %s (select %s j))) :pattern ((select %s j))))",
				narr.S, off.S, ln.S, off.S, newLen.S, srcAt(h, fmt.Sprintf("(- j (+ %s %s))", off.S, ln.S)), oldArr.S, narr.S)
			sA.assume(Term{ax, SBool})
		}
		sA.heapSet(key, Store(h, base, narr))
		r := e.u.Define("app", App("mk-slice", SSlice, base, off, newLen, cp))
		if dst != nil {
			sA.top().regs[dst] = r
		}
		if e.feasibleAlways(sA) {
			out = append(out, sA)
		}
	}
	{
		sB.assume(Not(fits))
		h := sB.heapGet(key, sort)
		nb := e.newRef()
		ncap := e.u.Fresh("appcap", SInt)
		sB.assume(And(Ge(ncap, newLen), Le(ncap, Term{"4611686018427387904", SInt})))
		narr := e.u.Fresh("apparr", inner)
		oldArr := e.u.Define("oldarr", Select(h, base))
		ax := fmt.Sprintf("(forall ((j Int)) (! (=> (and (<= 0 j) (< j %s)) (= (select %s j) (ite (< j %s) (select %s (+ %s j)) %s))) :pattern ((select %s j))))",
			newLen.S, narr.S, ln.S, oldArr.S, off.S, srcAt(h, fmt.Sprintf("(- j %s)", ln.S)), narr.S)
		sB.assume(Term{ax, SBool})
		if tf := e.elemFactsQuant(narr, elem); tf.S != "true" {
			sB.assume(tf)
		}
		sB.heapSet(key, Store(h, nb, narr))
		r := e.u.Define("app", App("mk-slice", SSlice, nb, IntLit(0), newLen, ncap))
		if dst != nil {
			sB.top().regs[dst] = r
		}
		if e.feasibleAlways(sB) {
			out = append(out, sB)
		}
	}
	// "after" anchors are not applied for append
	return nil, out, true
}

// elemFactsQuant: all elements of a fresh inner array satisfy the element type facts.
func (e *Engine) elemFactsQuant(arr Term, elem types.Type) Term {
	f := e.tm.TypeFacts(Select(arr, Term{"j", SInt}), elem)
	if f.S == "true" {
		return TTrue
	}
	return Term{fmt.Sprintf("(forall ((j Int)) (! %s :pattern ((select %s j))))", f.S, arr.S), SBool}
}

func (e *Engine) feasibleAlways(s *State) bool {
	return e.incCheck(s.assumes.slice()) != "unsat"
}

func (e *Engine) builtinCopy(s *State, fr *Frame, cc *ssa.CallCommon, args []Value, site ssa.Instruction) Value {
	st := cc.Args[0].Type().Underlying().(*types.Slice)
	elem := st.Elem()
	dstS := args[0].(Term)
	src := args[1].(Term)
	srcIsString := false
	if b := basicOf(cc.Args[1].Type()); b != nil && b.Info()&types.IsString != 0 {
		srcIsString = true
	}
	key, sort := e.memKey(elem)
	inner := arrayElemSort(sort)
	h := s.heapGet(key, sort)
	dl := App("s-len", SInt, dstS)
	var sl Term
	if srcIsString {
		sl = App("str.len", SInt, src)
	} else {
		sl = App("s-len", SInt, src)
	}
	n := e.u.Define("copyn", Ite(Le(dl, sl), dl, sl))
	dbase, doff := App("s-base", SInt, dstS), App("s-off", SInt, dstS)
	narr := e.u.Fresh("copyarr", inner)
	oldArr := e.u.Define("oldarr", Select(h, dbase))
	var srcAt string
	if srcIsString {
		srcAt = fmt.Sprintf("(str.to_code (str.at %s (- j %s)))", src.S, doff.S)
	} else {
		srcAt = fmt.Sprintf("(select (select %s (s-base %s)) (+ (s-off %s) (- j %s)))", h.S, src.S, src.S, doff.S)
	}
	ax := fmt.Sprintf("(forall ((j Int)) (! (= (select %s j) (ite (and (<= %s j) (< j (+ %s %s))) %s (select %s j))) :pattern ((select %s j))))",
		narr.S, doff.S, doff.S, n.S, srcAt, oldArr.S, narr.S)
	s.assume(Term{ax, SBool})
	s.heapSet(key, Store(h, dbase, narr))
	return n
}

// allocObligation: allocation sizes must be bounded by the declared alloc bound (C34).
func (e *Engine) allocObligation(s *State, fr *Frame, x *ssa.MakeSlice, n Term) {
	root := s.frames[0]
	c := root.contract
	if c == nil || c.Flags["alloc_bound"] == "" {
		return
	}
	ex, err := ParseExpr(c.Flags["alloc_bound"])
	if err != nil {
		e.bail("alloc_bound: %v", err)
	}
	env := &Env{s: s, fr: root, vars: map[string]Value{}, vtypes: map[string]types.Type{}, entryParams: true}
	b, err := e.evalTerm(env, ex)
	if err != nil {
		e.bail("alloc_bound: %v", err)
	}
	name := fmt.Sprintf("%s#alloc:%s", shortKey(funcKey(fr.fn)), e.siteName(x, "make"))
	s.addObligation("alloc", name, "", x.Pos(), Le(n, b), "allocation size bounded by "+c.Flags["alloc_bound"])
}
