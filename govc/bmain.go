package main

// Additions for the broker / metadata properties (C22, C19, C24, C11):
//
//   * exact models of fmt.Sprintf for constant formats made of literal text, %s (string operand), %d and
//     %0Nd (integer operand), and of path.Join for "simple" trailing elements (trusted, listed in the evidence);
//   * the matching spec builtins fmtd(x), fmtd0(x, N), pathPfx(s), contains(s, sub), pathSimple(s), so that a
//     contract can state the exact key a builder returns;
//   * `//@ lemma [tag] forall x T, ... :: body`: a spec-level statement proved by SMT for all values of its
//     variables (the variables become fresh constants; nothing about any function body is used).
//
// Nothing here changes the meaning of an existing construct: Sprintf calls whose format is not of the
// supported shape keep the old model (arbitrary string).

import (
	"fmt"
	"go/constant"
	"go/types"
	"sort"
	"strconv"
	"strings"

	"golang.org/x/tools/go/ssa"
)

// currentPropID is the property being checked ("" under `govc debug`): property-scoped `stop [Cnn]` cuts apply
// only to their own property.
var currentPropID string

// ---------------------------------------------------------------------------
// fmt verbs and path.Join

// fmtDecimal returns the string the fmt verb %d (width 0) or %0<width>d produces for integer x, as an
// uninterpreted function of x with exactly two trusted facts per application: the text contains neither '/'
// nor ':' (it is made of decimal digits and '-') and x can be recovered from it (injectivity).
func (e *Engine) fmtDecimal(s *State, x Term, width int) (Term, error) {
	fn, inv := "fmt.d", "fmt.d.inv"
	if width > 0 {
		fn, inv = fmt.Sprintf("fmt.d0%d", width), fmt.Sprintf("fmt.d0%d.inv", width)
	}
	e.u.DeclareFun(fn, []string{SInt}, SString)
	e.u.DeclareFun(inv, []string{SString}, SInt)
	e.abstract("model of fmt %d / %0Nd (trusted): the decimal text of an integer contains no '/', ':' and is not empty, \".\" or \"..\", and it determines the integer")
	if s.quant > 0 {
		return Term{}, fmt.Errorf("fmtd under a quantifier is not supported (use a lemma's top-level forall variables)")
	}
	// the application is named by a constant (the string solvers handle constants inside concatenations far better
	// than uninterpreted applications); the constant is shared by all uses of the same application in this root
	r := e.pureConst(s, "fmtd", App(fn, SString, x))
	s.assume(Not(App("str.contains", SBool, r, StrLit("/"))))
	s.assume(Not(App("str.contains", SBool, r, StrLit(":"))))
	s.assume(Ge(App("str.len", SInt, r), IntLit(1)))
	s.assume(Not(Eq(r, StrLit("."))))
	s.assume(Not(Eq(r, StrLit(".."))))
	s.assume(Eq(App(inv, SInt, r), x))
	return r, nil
}

var pureConsts = map[*Universe]map[string]Term{}

// pureConst returns a constant c with c == app assumed in s (one constant per application text and root).
func (e *Engine) pureConst(s *State, hint string, app Term) Term {
	m := pureConsts[e.u]
	if m == nil {
		// one live universe at a time: drop the tables of finished roots
		for k := range pureConsts {
			delete(pureConsts, k)
		}
		m = map[string]Term{}
		pureConsts[e.u] = m
	}
	c, ok := m[app.S]
	if !ok {
		c = e.u.Fresh(hint, app.Sort)
		m[app.S] = c
	}
	s.assume(Eq(c, app))
	return c
}

func (e *Engine) pathPfxTerm(s *State, first Term) Term {
	e.u.DeclareFun("path.joinpfx", []string{SString}, SString)
	app := App("path.joinpfx", SString, first)
	if s.quant > 0 {
		return app
	}
	return e.pureConst(s, "pathpfx", app)
}

func pathSimpleTerm(t Term) Term {
	return And(Not(Eq(t, StrLit(""))), Not(Eq(t, StrLit("."))), Not(Eq(t, StrLit(".."))), Not(App("str.contains", SBool, t, StrLit("/"))))
}

// pathJoinTerm models path.Join(first, rest...): when every element after the first is simple (not empty,
// not "." or "..", no '/'), lexical cleaning cannot remove or merge those elements, so the result is
// pfx(first) ++ rest[0] ++ "/" ++ ... ++ rest[n-1], where pfx(first) (what Clean leaves of the first element,
// followed by a separator when one is needed) is a deterministic, otherwise unspecified function of first.
// In every other case the result is an unspecified deterministic function of the elements.
func (e *Engine) pathJoinTerm(s *State, elems []Term) Term {
	e.abstract("model of path.Join (trusted): with simple trailing elements (non-empty, no '/', not '.' or '..') the result is pfx(first)+e1+\"/\"+...+en for a deterministic function pfx of the first element; otherwise an unspecified function of the elements (checked against the real path.Join by modeltests/pathjoin_model_test.go)")
	if len(elems) == 0 {
		return StrLit("")
	}
	var sorts []string
	for range elems {
		sorts = append(sorts, SString)
	}
	other := fmt.Sprintf("path.join%d", len(elems))
	e.u.DeclareFun(other, sorts, SString)
	if len(elems) == 1 {
		return App(other, SString, elems...)
	}
	parts := []Term{e.pathPfxTerm(s, elems[0])}
	var simple []Term
	for i, el := range elems[1:] {
		if i > 0 {
			parts = append(parts, StrLit("/"))
		}
		parts = append(parts, el)
		simple = append(simple, pathSimpleTerm(el))
	}
	return Ite(And(simple...), App("str.++", SString, parts...), App(other, SString, elems...))
}

// variadicElems reads the n elements of a freshly built variadic slice argument.
func (e *Engine) variadicElems(s *State, sl Value, elem types.Type) ([]Value, bool) {
	t, ok := sl.(Term)
	if !ok || t.Sort != SSlice {
		return nil, false
	}
	n, ok := litSmall(App("s-len", SInt, t))
	if !ok {
		return nil, false
	}
	var out []Value
	for i := int64(0); i < n; i++ {
		// keep literal indices literal so that read-over-write resolves syntactically
		idx := simplifyAdd(Add(App("s-off", SInt, t), IntLit(i)))
		v, err := s.load(&Ptr{Kind: pkElem, Ref: App("s-base", SInt, t), Idx: idx, Elem: elem})
		if err != nil {
			return nil, false
		}
		out = append(out, v)
	}
	return out, true
}

// simplifyAdd folds (+ a b) of two literals.
func simplifyAdd(t Term) Term {
	if !strings.HasPrefix(t.S, "(+ ") {
		return t
	}
	sx := sexpParse(t.S)
	if sx == nil || len(sx.kids) != 3 {
		return t
	}
	a, okA := litValue(Term{sx.kids[1].String(), SInt})
	b, okB := litValue(Term{sx.kids[2].String(), SInt})
	if okA && okB && a.IsInt64() && b.IsInt64() {
		return IntLit(a.Int64() + b.Int64())
	}
	return t
}

type fmtPiece struct {
	lit   string
	verb  byte // 0 for literal text, 's' or 'd'
	width int
}

// parseSimpleFormat accepts literal text, %%, %s, %d and %0<digits>d only.
func parseSimpleFormat(f string) ([]fmtPiece, bool) {
	var out []fmtPiece
	var lit strings.Builder
	flush := func() {
		if lit.Len() > 0 {
			out = append(out, fmtPiece{lit: lit.String()})
			lit.Reset()
		}
	}
	for i := 0; i < len(f); i++ {
		c := f[i]
		if c != '%' {
			lit.WriteByte(c)
			continue
		}
		i++
		if i >= len(f) {
			return nil, false
		}
		switch {
		case f[i] == '%':
			lit.WriteByte('%')
		case f[i] == 's':
			flush()
			out = append(out, fmtPiece{verb: 's'})
		case f[i] == 'd':
			flush()
			out = append(out, fmtPiece{verb: 'd'})
		case f[i] == '0':
			j := i + 1
			w := 0
			for j < len(f) && f[j] >= '0' && f[j] <= '9' {
				w = w*10 + int(f[j]-'0')
				j++
			}
			if j >= len(f) || f[j] != 'd' || w <= 0 || w > 64 {
				return nil, false
			}
			flush()
			out = append(out, fmtPiece{verb: 'd', width: w})
			i = j
		default:
			return nil, false
		}
	}
	flush()
	return out, true
}

func plainStringType(t types.Type) bool {
	b, ok := t.(*types.Basic)
	return ok && b.Kind() == types.String
}

func plainIntType(t types.Type) bool {
	b, ok := t.(*types.Basic)
	return ok && b.Info()&types.IsInteger != 0
}

// modelBmain: extra external models; returns handled=false to fall through to the older models.
func (e *Engine) modelBmain(s *State, fr *Frame, key string, f *ssa.Function, args []Value, site ssa.Instruction) (Value, bool) {
	// opt-in: the exact string models apply only under a root whose contract says `exact_strings`; every other root
	// keeps the previous models (Sprintf: arbitrary string, path.Join: unknown pure call), so existing checks see
	// exactly the queries they saw before
	if e.rootContract == nil || e.rootContract.Flags["exact_strings"] != "1" {
		return nil, false
	}
	switch key {
	case "fmt.Sprintf":
		call, ok := site.(*ssa.Call)
		if !ok || len(call.Common().Args) != 2 || len(args) != 2 {
			return nil, false
		}
		fc, ok := call.Common().Args[0].(*ssa.Const)
		if !ok || fc.Value == nil || fc.Value.Kind() != constant.String {
			return nil, false
		}
		pieces, ok := parseSimpleFormat(constant.StringVal(fc.Value))
		if !ok {
			return nil, false
		}
		anyT := call.Common().Args[1].Type().Underlying().(*types.Slice).Elem()
		elems, ok := e.variadicElems(s, args[1], anyT)
		if !ok {
			return nil, false
		}
		nv := 0
		for _, p := range pieces {
			if p.verb != 0 {
				nv++
			}
		}
		if nv != len(elems) {
			return nil, false
		}
		var parts []Term
		k := 0
		for _, p := range pieces {
			if p.verb == 0 {
				parts = append(parts, StrLit(p.lit))
				continue
			}
			it, err := s.toTerm(elems[k])
			k++
			if err != nil {
				return nil, false
			}
			dyn, payload, ok := e.ifaceDynType(e.u.Resolve(it))
			if !ok {
				dyn, payload, ok = e.ifaceDynType(it)
			}
			if !ok {
				return nil, false
			}
			switch p.verb {
			case 's':
				if !plainStringType(dyn) {
					return nil, false
				}
				v, err := s.toTerm(e.unboxIface(s, payload, dyn))
				if err != nil {
					return nil, false
				}
				parts = append(parts, v)
			case 'd':
				if !plainIntType(dyn) {
					return nil, false
				}
				v, err := s.toTerm(e.unboxIface(s, payload, dyn))
				if err != nil {
					return nil, false
				}
				d, err := e.fmtDecimal(s, v, p.width)
				if err != nil {
					return nil, false
				}
				parts = append(parts, d)
			}
		}
		e.abstract("model of fmt.Sprintf for constant formats of literal text, %s (string operand) and %d / %0Nd (integer operand): concatenation of the pieces (trusted)")
		switch len(parts) {
		case 0:
			return StrLit(""), true
		case 1:
			return parts[0], true
		}
		return e.u.Define("sprintf", App("str.++", SString, parts...)), true
	case "path.Join":
		if len(args) != 1 {
			return nil, false
		}
		elems, ok := e.variadicElems(s, args[0], types.Typ[types.String])
		if !ok {
			return nil, false
		}
		var ts []Term
		for _, el := range elems {
			t, err := s.toTerm(el)
			if err != nil {
				return nil, false
			}
			ts = append(ts, t)
		}
		return e.u.Define("pathjoin", e.pathJoinTerm(s, ts)), true
	}
	return nil, false
}

// ---------------------------------------------------------------------------
// spec builtins

func (e *Engine) bmainSpec(env *Env, fun string, args []Expr) (TV, bool, error) {
	strT := types.Typ[types.String]
	boolT := types.Typ[types.Bool]
	terms := func(n int) ([]Term, error) {
		if len(args) != n {
			return nil, fmt.Errorf("%s takes %d argument(s)", fun, n)
		}
		var out []Term
		for _, a := range args {
			t, err := e.evalTerm(env, a)
			if err != nil {
				return nil, err
			}
			out = append(out, t)
		}
		return out, nil
	}
	switch fun {
	case "fmtd":
		ts, err := terms(1)
		if err != nil {
			return TV{}, true, err
		}
		r, err := e.fmtDecimal(env.s, ts[0], 0)
		return TV{r, strT}, true, err
	case "fmtd0":
		if len(args) != 2 {
			return TV{}, true, fmt.Errorf("fmtd0(x, width)")
		}
		w, ok := args[1].(*EInt)
		if !ok || !w.Val.IsInt64() || w.Val.Int64() <= 0 || w.Val.Int64() > 64 {
			return TV{}, true, fmt.Errorf("fmtd0(x, width): width must be a literal in 1..64")
		}
		x, err := e.evalTerm(env, args[0])
		if err != nil {
			return TV{}, true, err
		}
		r, err := e.fmtDecimal(env.s, x, int(w.Val.Int64()))
		return TV{r, strT}, true, err
	case "pathPfx":
		ts, err := terms(1)
		if err != nil {
			return TV{}, true, err
		}
		return TV{e.pathPfxTerm(env.s, ts[0]), strT}, true, nil
	case "pathSimple":
		ts, err := terms(1)
		if err != nil {
			return TV{}, true, err
		}
		return TV{pathSimpleTerm(ts[0]), boolT}, true, nil
	case "mkstruct":
		// mkstruct("pkg.Type", f0, f1, ...): a struct value (e.g. a map key) built from its fields in order
		if len(args) < 1 {
			return TV{}, true, fmt.Errorf("mkstruct(\"T\", fields...)")
		}
		tn, ok := args[0].(*EStr)
		if !ok {
			return TV{}, true, fmt.Errorf("mkstruct: first argument is the type name as a string")
		}
		ty, _, err := e.resolveType(env, tn.Val)
		if err != nil || ty == nil {
			return TV{}, true, fmt.Errorf("mkstruct: %v", err)
		}
		st, ok := ty.Underlying().(*types.Struct)
		if !ok || st.NumFields() != len(args)-1 {
			return TV{}, true, fmt.Errorf("mkstruct: %s is not a struct with %d fields", tn.Val, len(args)-1)
		}
		var fs []Term
		for _, a := range args[1:] {
			t, err := e.evalTerm(env, a)
			if err != nil {
				return TV{}, true, err
			}
			fs = append(fs, t)
		}
		return TV{e.tm.MkStruct(ty, fs), ty}, true, nil
	case "contains":
		ts, err := terms(2)
		if err != nil {
			return TV{}, true, err
		}
		if ts[0].Sort != SString || ts[1].Sort != SString {
			return TV{}, true, fmt.Errorf("contains(s, sub) on strings")
		}
		return TV{App("str.contains", SBool, ts[0], ts[1]), boolT}, true, nil
	}
	return TV{}, false, nil
}

// ---------------------------------------------------------------------------
// lemmas

type Lemma struct {
	Tag    string
	Clause Clause
	Pkg    string
}

// RunLemma turns `lemma [tag] forall x T, ... :: body` into one obligation: the top-level universally
// quantified variables become fresh constants (with their Go type ranges assumed), body is the goal.
func (e *Engine) RunLemma(tag string) (err error) {
	defer func() {
		if r := recover(); r != nil {
			if a, ok := r.(execAbort); ok {
				err = fmt.Errorf("lemma %s: %s", tag, a.msg)
				return
			}
			panic(r)
		}
	}()
	var lm *Lemma
	for _, l := range e.cs.Lemmas {
		if l.Tag == tag {
			lm = l
		}
	}
	if lm == nil {
		return fmt.Errorf("lemma not found: %s", tag)
	}
	e.resetSymbolic()
	e.rootKey = "lemma:" + tag
	e.rootContract = nil
	e.rootInputs = nil
	e.rootHint = nil
	s := &State{eng: e, cells: map[int]Value{}, heap: map[string]Term{}, locks: map[string]bool{}}
	e.stateCounter++
	s.id = e.stateCounter
	env := &Env{s: s, vars: map[string]Value{}, vtypes: map[string]types.Type{}}
	for _, p := range e.prog.AllPackages() {
		if p.Pkg.Path() == lm.Pkg {
			env.pkg = p.Pkg
		}
	}
	body := lm.Clause.Expr
	for {
		q, ok := body.(*EQuant)
		if !ok || !q.Forall {
			break
		}
		for _, qv := range q.Vars {
			ty, sort, err := e.resolveType(env, qv.Type)
			if err != nil {
				return fmt.Errorf("lemma %s: %v", tag, err)
			}
			t := e.u.Fresh("lem."+qv.Name, sort)
			if ty != nil {
				if f := e.tm.TypeFacts(t, ty); f.S != "true" {
					s.assume(f)
				}
			}
			env.vars[qv.Name] = s.fromTerm(t, ty)
			env.vtypes[qv.Name] = ty
			e.rootInputs = append(e.rootInputs, modelInput{Name: qv.Name, Type: qv.Type, Term: t, GoT: ty, Aux: map[string]Term{}})
		}
		body = q.Body
	}
	var goal Term
	ante := TTrue
	if b, ok := body.(*EBinary); ok && b.Op == "==>" {
		if ante, err = e.evalBool(env, b.X); err != nil {
			return fmt.Errorf("lemma %s: %v", tag, err)
		}
		cons, err := e.evalBool(env, b.Y)
		if err != nil {
			return fmt.Errorf("lemma %s: %v", tag, err)
		}
		goal = Implies(ante, cons)
	} else if goal, err = e.evalBool(env, body); err != nil {
		return fmt.Errorf("lemma %s: %v", tag, err)
	}
	pkg := shortKey(lm.Pkg)
	name := fmt.Sprintf("%s#lemma:%s", pkg, tag)
	o := &Obligation{Name: name, Kind: "lemma", Tag: tag, Root: e.rootKey, Pos: fmt.Sprintf("%s:%d", lm.Clause.File, lm.Clause.Line),
		Assumes: s.assumes.slice(), Goal: goal, Desc: "lemma " + lm.Clause.Src, PathID: s.id, InputVals: e.rootInputs, U: e.u}
	e.obligations = append(e.obligations, o)
	// vacuity: the instantiated facts about the model functions together with the lemma's hypothesis must be satisfiable
	oc := &Obligation{Name: name + ".cover", Kind: "cover", Root: e.rootKey, Pos: o.Pos, Assumes: s.assumes.slice(), Goal: Not(ante),
		Desc: "lemma hypothesis satisfiable", PathID: s.id, ExpectSat: true, U: e.u}
	e.obligations = append(e.obligations, oc)
	return nil
}

// ---------------------------------------------------------------------------
// go_inline: fork/join of goroutines that the spawning function joins before it returns

// goInline executes `go closure()` at the spawn point when the spawning function's contract carries the flag
// go_inline. This is the sequential reading of a fork/join region: it is faithful when the spawned bodies write
// pairwise disjoint locations that the spawner does not touch before the join (sync.WaitGroup.Wait), which is
// an assumption listed in the evidence (the data-race freedom of such regions is property C41's subject).
func (e *Engine) goInline(s *State, fr *Frame, x *ssa.Go) ([]*State, bool, bool) {
	cc := x.Common()
	if cc.IsInvoke() {
		return nil, false, false
	}
	var args []Value
	for _, a := range cc.Args {
		args = append(args, s.get(fr, a))
	}
	e.abstract(fmt.Sprintf("go_inline: goroutine spawned at %s runs to completion at the spawn point (fork/join region read sequentially; interleavings with the spawner and with sibling goroutines are not modelled)", posString(e.fset, x.Pos())))
	anchor := fmt.Sprintf("%s#%d", calleeShortName(cc), e.callOrdinal(x))
	switch fv := s.get(fr, cc.Value).(type) {
	case *Closure:
		succ, done := e.callFunction(s, fr, nil, fv.Fn, args, fv.Bindings, x, anchor, cc)
		return succ, done, true
	case *FuncRef:
		succ, done := e.callFunction(s, fr, nil, fv.Fn, args, nil, x, anchor, cc)
		return succ, done, true
	}
	return nil, false, false
}

// ---------------------------------------------------------------------------
// preserves: trusted complement frames

func (w *WriteSet) setAllExcept(why string, ex map[string]bool) {
	if w.All {
		if w.Except == nil {
			return
		}
		for k := range w.Except {
			if !ex[k] {
				delete(w.Except, k)
			}
		}
		return
	}
	w.All = true
	w.Why = why
	w.Except = map[string]bool{}
	for k := range ex {
		w.Except[k] = true
	}
}

// preserved: key k is certainly not written (All with an exception for k, and no explicit write of k).
func (w *WriteSet) preserved(k string) bool {
	return w.All && w.Except != nil && w.Except[k] && !w.Heap[k]
}

// preservedKeys resolves the items of a `preserves` clause: Mem(T) = element memory of []T, Fields(T) = every
// field of struct T; T is a full import path + name (or a basic type).
func (e *Engine) preservedKeys(c *FuncContract) map[string]bool {
	out := map[string]bool{}
	for _, item := range strings.Split(c.Flags["preserves"], ",") {
		item = strings.TrimSpace(item)
		if item == "" {
			continue
		}
		open, close := strings.Index(item, "("), strings.LastIndex(item, ")")
		if open < 0 || close < open {
			e.bail("preserves clause of %s: item %q is not Mem(T) or Fields(T)", shortKey(c.Key), item)
		}
		ty, _, err := e.resolveType(nil, item[open+1:close])
		if err != nil || ty == nil {
			e.bail("preserves clause of %s: %v", shortKey(c.Key), err)
		}
		switch item[:open] {
		case "Mem":
			k, _ := e.memKey(ty)
			out[k] = true
		case "Box":
			// variables of type T that live in the heap (locals captured by closures / whose address is taken)
			k, _ := e.boxKey(ty)
			out[k] = true
		case "Fields":
			st, ok := ty.Underlying().(*types.Struct)
			if !ok {
				e.bail("preserves clause of %s: %s is not a struct", shortKey(c.Key), item)
			}
			for i := 0; i < st.NumFields(); i++ {
				k, _ := e.fieldKey(ty, i)
				out[k] = true
			}
		default:
			e.bail("preserves clause of %s: item %q is not Mem(T), Box(T) or Fields(T)", shortKey(c.Key), item)
		}
	}
	return out
}

// lookupLocalNth resolves "name__n": the n-th local variable called name, counted in source order of the
// declarations (for go/ssa's hidden range variables: the order of the range statements).
func (e *Engine) lookupLocalNth(fr *Frame, name, nth string) (*Ptr, types.Type, bool) {
	n, err := strconv.Atoi(nth)
	if err != nil || n < 1 {
		return nil, nil, false
	}
	var als []*ssa.Alloc
	for _, b := range fr.fn.Blocks {
		for _, in := range b.Instrs {
			if al, ok := in.(*ssa.Alloc); ok && al.Comment == name {
				als = append(als, al)
			}
		}
	}
	// hidden variables have no position of their own: order by the first positioned instruction that uses them
	posOf := func(al *ssa.Alloc) int {
		if al.Pos().IsValid() {
			return int(al.Pos())
		}
		best := 0
		if refs := al.Referrers(); refs != nil {
			for _, r := range *refs {
				if p := int(r.Pos()); p > 0 && (best == 0 || p < best) {
					best = p
				}
			}
		}
		if best == 0 {
			// fall back to the position of the enclosing block's first positioned instruction
			for _, in := range al.Block().Instrs {
				if p := int(in.Pos()); p > 0 {
					return p
				}
			}
		}
		return best
	}
	sort.SliceStable(als, func(i, j int) bool { return posOf(als[i]) < posOf(als[j]) })
	if n > len(als) {
		return nil, nil, false
	}
	al := als[n-1]
	v, live := fr.regs[al]
	if !live {
		return nil, nil, false
	}
	p, ok := v.(*Ptr)
	if !ok {
		return nil, nil, false
	}
	return p, al.Type().(*types.Pointer).Elem(), true
}

// staticOnly: the root carries `static_only Cnn` for the property being checked (or, under `govc debug`, for any
// property): its body is not executed symbolically for this check.
func (e *Engine) staticOnly(c *FuncContract) bool {
	list := strings.Fields(c.Flags["static_only"])
	if len(list) == 0 {
		return false
	}
	if currentPropID == "" {
		return true
	}
	for _, id := range list {
		if id == currentPropID {
			return true
		}
	}
	return false
}

// rootBudgets: per-root solver budget in seconds (contract flag `solver_budget N`). A budget only lengthens the time a
// solver may take before the obligation is reported as undecided; it never turns a time-out into a proof.
var rootBudgets = map[string]int{}

func (e *Engine) noteRootBudget() {
	if e.rootContract == nil {
		return
	}
	if v := e.rootContract.Flags["solver_budget"]; v != "" {
		if n, err := strconv.Atoi(strings.TrimSpace(v)); err == nil && n > 0 && n <= 120 {
			rootBudgets[e.rootKey] = n
		}
	}
}
