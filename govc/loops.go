package main

import (
	"go/token"
	"go/types"
	"sort"
	"strings"

	"golang.org/x/tools/go/ssa"
)

type LoopInfo struct {
	Header  *ssa.BasicBlock
	Blocks  map[*ssa.BasicBlock]bool
	Ordinal int
	minPos  token.Pos
	Writes  *WriteSet
}

type FuncLoops struct {
	ByHeader map[*ssa.BasicBlock]*LoopInfo
	Loops    []*LoopInfo
}

// WriteSet: what a region of code may write.
type WriteSet struct {
	All    bool
	Why    string
	Heap   map[string]bool       // heap keys (field arrays, Box, Mem, Map...)
	Cells  map[*ssa.Alloc]bool   // local (non-heap) cells
	Boxes  map[*ssa.Alloc]bool   // heap allocs of this function written directly
	Params map[int]bool          // writes through pointer parameter i (non-struct deref)
	Globs  map[*ssa.Global]bool
	// Readers: parameters (by index) whose reader position is advanced (reader model)
	Readers      map[int]bool
	ReaderCells  map[*ssa.Alloc]bool
	// BufCells: local variables holding a *bytes.Buffer (created before the region) that the region writes to (buffer model)
	BufCells map[*ssa.Alloc]bool
	freshIn      func(*ssa.Alloc) bool
	regionBlocks map[*ssa.BasicBlock]bool
	// Except (only meaningful with All): heap keys that are preserved although everything else may be written
	// (from trusted `preserves` frame clauses, bmain.go); nil means no exception
	Except map[string]bool
}

func newWriteSet() *WriteSet {
	return &WriteSet{Heap: map[string]bool{}, Cells: map[*ssa.Alloc]bool{}, Boxes: map[*ssa.Alloc]bool{}, Params: map[int]bool{}, Globs: map[*ssa.Global]bool{}, Readers: map[int]bool{}, ReaderCells: map[*ssa.Alloc]bool{}}
}

func (w *WriteSet) setAll(why string) {
	if !w.All {
		w.All = true
		w.Why = why
	}
	w.Except = nil
}

func (w *WriteSet) merge(o *WriteSet) {
	if o.All {
		if o.Except != nil {
			w.setAllExcept(o.Why, o.Except)
		} else {
			w.setAll(o.Why)
		}
	}
	for k := range o.Heap {
		w.Heap[k] = true
	}
	for k := range o.Globs {
		w.Globs[k] = true
	}
}

func (e *Engine) loopsOf(fn *ssa.Function) *FuncLoops {
	if fl, ok := e.loopInfo[fn]; ok {
		return fl
	}
	fl := &FuncLoops{ByHeader: map[*ssa.BasicBlock]*LoopInfo{}}
	e.loopInfo[fn] = fl
	for _, b := range fn.Blocks {
		for _, succ := range b.Succs {
			if succ.Dominates(b) {
				// back edge b -> succ
				li := fl.ByHeader[succ]
				if li == nil {
					li = &LoopInfo{Header: succ, Blocks: map[*ssa.BasicBlock]bool{succ: true}}
					fl.ByHeader[succ] = li
					fl.Loops = append(fl.Loops, li)
				}
				// natural loop: all blocks that reach b without passing header
				var stack []*ssa.BasicBlock
				if !li.Blocks[b] {
					li.Blocks[b] = true
					stack = append(stack, b)
				}
				for len(stack) > 0 {
					x := stack[len(stack)-1]
					stack = stack[:len(stack)-1]
					for _, p := range x.Preds {
						if !li.Blocks[p] {
							li.Blocks[p] = true
							stack = append(stack, p)
						}
					}
				}
			}
		}
	}
	for _, li := range fl.Loops {
		li.minPos = token.NoPos
		for b := range li.Blocks {
			for _, in := range b.Instrs {
				p := in.Pos()
				if p.IsValid() && (!li.minPos.IsValid() || p < li.minPos) {
					li.minPos = p
				}
			}
		}
	}
	sort.SliceStable(fl.Loops, func(i, j int) bool {
		a, b := fl.Loops[i], fl.Loops[j]
		if a.minPos != b.minPos {
			return a.minPos < b.minPos
		}
		if len(a.Blocks) != len(b.Blocks) {
			return len(a.Blocks) > len(b.Blocks)
		}
		return a.Header.Index < b.Header.Index
	})
	for i, li := range fl.Loops {
		li.Ordinal = i + 1
	}
	return fl
}

// addrRoot classifies the target of a store address.
func (e *Engine) classifyAddr(addr ssa.Value, w *WriteSet, fn *ssa.Function) {
	switch a := addr.(type) {
	case *ssa.Alloc:
		if a.Heap {
			if w.freshIn != nil && w.freshIn(a) {
				return // object allocated inside the region: invisible to the state before it
			}
			w.Boxes[a] = true
			e.addAllocHeapKeys(a, w)
		} else {
			w.Cells[a] = true
		}
	case *ssa.FieldAddr:
		// find whether the chain roots at a local cell
		root := a.X
		for {
			if fa, ok := root.(*ssa.FieldAddr); ok {
				root = fa.X
				continue
			}
			break
		}
		if al, ok := root.(*ssa.Alloc); ok && !al.Heap {
			w.Cells[al] = true
			return
		}
		if al, ok := root.(*ssa.Alloc); ok && al.Heap && w.freshIn != nil && w.freshIn(al) {
			return
		}
		// heap field of the outermost struct in the chain that is addressed by a real pointer
		// the engine stores nested struct fields by rewriting the field of the pkObj base
		fa := a
		for {
			if inner, ok := fa.X.(*ssa.FieldAddr); ok {
				fa = inner
				continue
			}
			break
		}
		pt, ok := fa.X.Type().Underlying().(*types.Pointer)
		if !ok {
			w.setAll("loops.go:156")
			return
		}
		key, _ := e.fieldKey(pt.Elem(), fa.Field)
		w.Heap[key] = true
		if ia, ok := fa.X.(*ssa.IndexAddr); ok {
			// pointer into slice of structs: element written through Mem
			e.classifyAddr(ia, w, fn)
		}
	case *ssa.IndexAddr:
		switch xt := a.X.Type().Underlying().(type) {
		case *types.Slice:
			key, _ := e.memKey(xt.Elem())
			w.Heap[key] = true
		case *types.Pointer:
			if arr, ok := xt.Elem().Underlying().(*types.Array); ok {
				key, _ := e.memKey(arr.Elem())
				w.Heap[key] = true
				// if array lives in a struct field the field array is rewritten too
				if fa, ok := a.X.(*ssa.FieldAddr); ok {
					e.classifyAddr(fa, w, fn)
				}
			} else {
				w.setAll("loops.go:179")
			}
		default:
			w.setAll("loops.go:182")
		}
	case *ssa.Global:
		w.Globs[a] = true
	case *ssa.Parameter:
		for i, p := range fn.Params {
			if p == a {
				w.Params[i] = true
			}
		}
		e.addPtrTargetKeys(a.Type(), w)
	case *ssa.FreeVar:
		e.addPtrTargetKeys(a.Type(), w)
	default:
		// loaded pointer, call result, phi...
		e.addPtrTargetKeys(addr.Type(), w)
	}
}

func (e *Engine) addAllocHeapKeys(a *ssa.Alloc, w *WriteSet) {
	e.addPtrTargetKeys(a.Type(), w)
}

func (e *Engine) addPtrTargetKeys(pt types.Type, w *WriteSet) {
	p, ok := pt.Underlying().(*types.Pointer)
	if !ok {
		w.setAll("loops.go:208")
		return
	}
	el := p.Elem()
	switch u := el.Underlying().(type) {
	case *types.Struct:
		for i := 0; i < u.NumFields(); i++ {
			key, _ := e.fieldKey(el, i)
			w.Heap[key] = true
		}
	case *types.Array:
		key, _ := e.memKey(u.Elem())
		w.Heap[key] = true
	default:
		key, _ := e.boxKey(el)
		w.Heap[key] = true
	}
}

// writeSetOfBlocks computes the write set of a set of blocks of fn.
func (e *Engine) writeSetOfBlocks(fn *ssa.Function, blocks map[*ssa.BasicBlock]bool, visiting map[*ssa.Function]bool) *WriteSet {
	w := newWriteSet()
	w.regionBlocks = blocks
	w.freshIn = func(a *ssa.Alloc) bool {
		if a.Parent() != fn {
			return false
		}
		return blocks == nil || blocks[a.Block()]
	}
	for _, b := range fn.Blocks {
		if blocks != nil && !blocks[b] {
			continue
		}
		for _, in := range b.Instrs {
			switch x := in.(type) {
			case *ssa.Store:
				e.classifyAddr(x.Addr, w, fn)
			case *ssa.MapUpdate:
				if mt, ok := x.Map.Type().Underlying().(*types.Map); ok {
					for _, k := range e.mapKeys(mt) {
						w.Heap[k] = true
					}
				} else {
					w.setAll("loops.go:244")
				}
			case *ssa.Call:
				e.callWrites(x.Common(), w, fn, visiting)
			case *ssa.Defer:
				e.callWrites(x.Common(), w, fn, visiting)
			case *ssa.Go:
				// spawned goroutine: not part of this function's sequential effect (logged)
			case *ssa.Next, *ssa.Range:
				e.rangeGhostWrites(in, w) // models_coord.go: ghosts of a map range loop
			case *ssa.Send:
				w.setAll("loops.go:253")
			case *ssa.Select:
			}
		}
	}
	return w
}

func (e *Engine) callWrites(cc *ssa.CallCommon, w *WriteSet, fn *ssa.Function, visiting map[*ssa.Function]bool) {
	// cells whose address is passed
	for _, a := range cc.Args {
		if mi, ok := a.(*ssa.MakeInterface); ok {
			a = mi.X // a pointer passed as interface{} (binary.Read(&x), fmt args)
		}
		if al, ok := a.(*ssa.Alloc); ok {
			if al.Heap {
				w.Boxes[al] = true
				e.addAllocHeapKeys(al, w)
			} else {
				w.Cells[al] = true
			}
		}
	}
	if cc.IsInvoke() {
		key := ifaceMethodKey(cc)
		if c := e.cs.Funcs[key]; c != nil {
			e.contractWrites(c, w)
			return
		}
		if e.isPureIfaceMethod(key) {
			return
		}
		w.setAll("loops.go:282")
		return
	}
	switch f := cc.Value.(type) {
	case *ssa.Builtin:
		switch f.Name() {
		case "append", "copy":
			if f.Name() == "append" && len(cc.Args) > 0 {
				if c, ok := cc.Args[0].(*ssa.Const); ok && c.Value == nil {
					// append(nil, xs...) always allocates: it writes no memory that existed before the call
					return
				}
			}
			if len(cc.Args) > 0 {
				if st, ok := cc.Args[0].Type().Underlying().(*types.Slice); ok {
					key, _ := e.memKey(st.Elem())
					w.Heap[key] = true
				}
			}
		case "delete":
			if mt, ok := cc.Args[0].Type().Underlying().(*types.Map); ok {
				for _, k := range e.mapKeys(mt) {
					w.Heap[k] = true
				}
			}
		case "clear":
			w.setAll("loops.go:302")
		}
		return
	case *ssa.Function:
		if e.contractCallWrites(f, cc, w, fn) {
			return
		}
		inRegion := func(in ssa.Instruction) bool {
			if w.regionBlocks == nil {
				return in.Parent() == fn
			}
			return in.Parent() == fn && w.regionBlocks[in.Block()]
		}
		noteReader := func(v ssa.Value) {
			switch o := originOf(v, fn, inRegion); o.kind {
			case "param":
				w.Readers[o.param] = true
			case "fresh":
			case "cell":
				if w.regionBlocks != nil {
					w.ReaderCells[o.cell] = true // loop region: havoc just that reader (looked up in the frame)
				} else {
					e.ghostKeys()
					w.Heap[gBrPos] = true
				}
			default:
				e.ghostKeys()
				w.Heap[gBrPos] = true
			}
		}
		if funcKey(f) == "golang.org/x/sync/errgroup.Group.Go" && len(cc.Args) == 2 {
			// the group runs the function it is given: its effect is the function's effect
			if mc, ok := cc.Args[1].(*ssa.MakeClosure); ok {
				if cf, ok := mc.Fn.(*ssa.Function); ok {
					e.funcWrites(cf, w, visiting)
					return
				}
			}
			w.setAll("errgroup.Go with a non-literal function")
			return
		}
		switch funcKey(f) {
		case "sort.Slice", "sort.SliceStable", "sort.Strings", "sort.Ints", "sort.Sort", "sort.Stable", "slices.Sort", "slices.SortFunc":
			// sorts its first argument in place: writes that slice's element memory
			if len(cc.Args) > 0 {
				a := cc.Args[0]
				if mi, ok := a.(*ssa.MakeInterface); ok {
					a = mi.X
				}
				if st, ok := a.Type().Underlying().(*types.Slice); ok {
					key, _ := e.memKey(st.Elem())
					w.Heap[key] = true
					return
				}
			}
			w.setAll("sort of a non-slice value")
			return
		}
		switch funcKey(f) {
		case "golang.org/x/sync/errgroup.WithContext", "golang.org/x/sync/errgroup.Group.Wait",
			"golang.org/x/sync/semaphore.Weighted.Acquire", "golang.org/x/sync/semaphore.Weighted.Release", "golang.org/x/sync/semaphore.Weighted.TryAcquire":
			return
		}
		if ai, ok := bufOpArg(f); ok && ai < len(cc.Args) {
			// a buffer-model operation: writes exactly the buffer it is given
			e.noteBufWrite(cc.Args[ai], f, w, fn, inRegion)
			return
		}
		if ai, ok := readerOpArg(f); ok && ai < len(cc.Args) {
			// a reader-model operation: advances exactly the reader it is given
			noteReader(cc.Args[ai])
			if f.Pkg.Pkg.Path() == "io" && len(cc.Args) > 1 {
				if originOf(cc.Args[1], fn, inRegion).kind != "fresh" {
					key, _ := e.memKey(types.Typ[types.Uint8])
					w.Heap[key] = true
				}
			}
			return
		}
		sub := newWriteSet()
		e.funcWrites(f, sub, visiting)
		// the callee advances the readers it receives as parameters: map them to our arguments
		for idx := range sub.Readers {
			if idx < len(cc.Args) {
				noteReader(cc.Args[idx])
			}
		}
		w.merge(sub)
		return
	case *ssa.MakeClosure:
		if cf, ok := f.Fn.(*ssa.Function); ok {
			e.funcWrites(cf, w, visiting)
			// closures write captured variables
			for _, b := range f.Bindings {
				if al, ok := b.(*ssa.Alloc); ok {
					if al.Heap {
						w.Boxes[al] = true
						e.addAllocHeapKeys(al, w)
					}
				}
			}
			return
		}
	}
	// call of a function value loaded from a struct field (callback): its contract, if any, is keyed pkg.Struct.field
	if key, ok := fieldCallKey(cc.Value); ok {
		if c := e.cs.Funcs[key]; c != nil {
			e.contractWrites(c, w)
			return
		}
		w.setAll("call of callback field " + shortKey(key) + " (no contract)")
		return
	}
	if mc := localClosureOf(cc.Value); mc != nil { // models_coord.go: `f := func(){...}; f()` through a local variable
		if cf, ok := mc.Fn.(*ssa.Function); ok {
			e.funcWrites(cf, w, visiting)
			for _, b := range mc.Bindings {
				if al, ok := b.(*ssa.Alloc); ok && al.Heap {
					w.Boxes[al] = true
					e.addAllocHeapKeys(al, w)
				}
			}
			return
		}
	}
	w.setAll("call of unknown function value in " + shortKey(funcKey(fn)))
}

// fieldCallKey recognises a call through a function-typed struct field: v = *(&x.f) or a cell holding it.
func fieldCallKey(v ssa.Value) (string, bool) {
	for i := 0; i < 4; i++ {
		u, ok := v.(*ssa.UnOp)
		if !ok || u.Op != token.MUL {
			return "", false
		}
		switch x := u.X.(type) {
		case *ssa.FieldAddr:
			pt, ok := x.X.Type().Underlying().(*types.Pointer)
			if !ok {
				return "", false
			}
			nt, ok := pt.Elem().(*types.Named)
			if !ok || nt.Obj().Pkg() == nil {
				return "", false
			}
			st := nt.Underlying().(*types.Struct)
			return nt.Obj().Pkg().Path() + "." + nt.Obj().Name() + "." + st.Field(x.Field).Name(), true
		case *ssa.Alloc:
			// cell holding the loaded field (NaiveForm): follow its single store
			var val ssa.Value
			n := 0
			for _, ref := range *x.Referrers() {
				if st, ok := ref.(*ssa.Store); ok && st.Addr == x {
					val = st.Val
					n++
				}
			}
			if n != 1 {
				return "", false
			}
			v = val
		default:
			return "", false
		}
	}
	return "", false
}

func (e *Engine) contractWrites(c *FuncContract, w *WriteSet) {
	if c.Flags["pure"] != "" {
		return
	}
	if c.Flags["preserves"] != "" {
		w.setAllExcept("preserves clause of "+shortKey(c.Key), e.preservedKeys(c))
		return
	}
	if c.Flags["assigns"] != "" {
		for _, a := range c.Assigns {
			if a == "nothing" || a == "" {
				continue
			}
			if a == "*" {
				w.setAll("loops.go:336")
				continue
			}
			if strings.HasPrefix(a, "Pointee(") || strings.HasPrefix(a, "MapOf(") {
				w.setAll("assigns " + a + " (no call site)")
				continue
			}
			if ks, ok := e.staticAssignKeys(a); ok {
				for _, k := range ks {
					w.Heap[k] = true
				}
				continue
			}
			w.Heap[a] = true // resolved later by name matching
		}
		return
	}
	w.setAll("loops.go:343")
}

func (e *Engine) funcWrites(f *ssa.Function, w *WriteSet, visiting map[*ssa.Function]bool) {
	if c := e.contractFor(f); c != nil && (c.Flags["assigns"] != "" || c.Flags["pure"] != "" || c.Flags["preserves"] != "") {
		e.contractWrites(c, w)
		return
	}
	if f.Blocks == nil {
		if e.isPureExtern(f) {
			return
		}
		if ws := e.externWrites(f); ws != nil {
			w.merge(ws)
			return
		}
		w.setAll("call of external " + funcKey(f))
		return
	}
	if !isFirstParty(f) {
		// third-party / stdlib code with bodies: not analysed, same as unknown externals
		if e.isPureExtern(f) {
			return
		}
		if ws := e.externWrites(f); ws != nil {
			w.merge(ws)
			return
		}
		w.setAll("call of external " + funcKey(f))
		return
	}
	if ws, ok := e.writeSets[f]; ok {
		w.merge(ws)
		for k := range ws.Readers {
			w.Readers[k] = true
		}
		return
	}
	if visiting == nil {
		visiting = map[*ssa.Function]bool{}
	}
	if visiting[f] {
		return // recursion: fixpoint approximated by the enclosing computation
	}
	visiting[f] = true
	ws := e.writeSetOfBlocks(f, nil, visiting)
	delete(visiting, f)
	e.writeSets[f] = ws
	w.merge(ws)
	for k := range ws.Readers {
		w.Readers[k] = true
	}
}

func (e *Engine) mapKeys(mt *types.Map) []string {
	d, v, l := e.mapHeapKeys(mt)
	return []string{d, v, l}
}
