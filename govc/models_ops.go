package main

// Models of standard-library functions added for the operator / console properties (C39, C42, C38).
// Every model is part of the trusted base and is listed in the evidence when used.
//
//   strings.Builder   the content is the byte slice in the builder's own buf field; every write allocates a fresh
//                     backing array holding the old content followed by the new bytes (the buffer is private to
//                     the builder, so in-place growth is not observable); String() is string(buf).
//   strings.Trim      with a literal one-byte cutset: the result is the input without its leading and trailing
//                     run of that byte. When the input is the string of a byte slice the result is the string of
//                     the corresponding sub-slice (so element-wise facts about the bytes carry over).
//   fmt.Sprintf       with a literal format made of text, %s, %d and %v only, applied to string / integer
//                     arguments: the concatenation Go produces (integers in decimal).

import (
	"fmt"
	"go/types"
	"strings"

	"golang.org/x/tools/go/ssa"
)

func (e *Engine) modelOps(s *State, fr *Frame, dst *ssa.Call, key string, f *ssa.Function, args []Value, site ssa.Instruction) (Value, bool) {
	// opt-in per root ("exact_strings" in the root function's contract): the checks written before these models
	// existed keep the coarser treatment (arbitrary Sprintf result, opaque Builder) they were validated with
	if e.rootContract == nil || e.rootContract.Flags["exact_strings"] != "ops" {
		return nil, false
	}
	switch key {
	case "strings.Builder.Grow", "strings.Builder.Reset":
		if key == "strings.Builder.Reset" {
			if p, ok := args[0].(*Ptr); ok {
				if bp, ok := e.sbBufPtr(p); ok {
					_ = s.store(bp, NilSlice)
					return nil, true
				}
			}
			return nil, false
		}
		e.trustModel("strings.Builder (content = its buf bytes; writes append to a fresh copy)")
		return nil, true
	case "strings.Builder.Len":
		if buf, _, ok := e.sbLoad(s, args[0]); ok {
			return App("s-len", SInt, buf), true
		}
	case "strings.Builder.String":
		if buf, _, ok := e.sbLoad(s, args[0]); ok {
			e.trustModel("strings.Builder (content = its buf bytes; writes append to a fresh copy)")
			return e.bytesToString(s, buf, types.Typ[types.Uint8]), true
		}
	case "strings.Builder.WriteByte":
		if buf, bp, ok := e.sbLoad(s, args[0]); ok {
			e.trustModel("strings.Builder (content = its buf bytes; writes append to a fresh copy)")
			c := args[1].(Term)
			e.sbAppend(s, bp, buf, []Term{c}, Term{}, false)
			return NilIface, true
		}
	case "strings.Builder.WriteRune":
		if buf, bp, ok := e.sbLoad(s, args[0]); ok {
			e.trustModel("strings.Builder (content = its buf bytes; writes append to a fresh copy)")
			r := args[1].(Term)
			// ASCII: one byte equal to the rune; otherwise 1..4 arbitrary bytes >= 128 (UTF-8 multi-byte sequence)
			sA := s
			_ = sA
			n := e.u.Fresh("runelen", SInt)
			b0 := e.u.Fresh("runeb", SInt)
			ascii := And(Le(IntLit(0), r), Lt(r, IntLit(128)))
			s.assume(Ite(ascii, And(Eq(n, IntLit(1)), Eq(b0, r)), And(Le(IntLit(1), n), Le(n, IntLit(4)), Le(IntLit(128), b0), Le(b0, IntLit(255)))))
			e.sbAppendN(s, bp, buf, n, b0)
			return &Tuple{Vs: []Value{n, NilIface}}, true
		}
	case "strings.Builder.WriteString":
		if buf, bp, ok := e.sbLoad(s, args[0]); ok {
			e.trustModel("strings.Builder (content = its buf bytes; writes append to a fresh copy)")
			str := args[1].(Term)
			e.sbAppend(s, bp, buf, nil, str, true)
			return &Tuple{Vs: []Value{App("str.len", SInt, str), NilIface}}, true
		}
	case "crypto/subtle.ConstantTimeCompare":
		if v, ok := e.modelCTCompare(s, args); ok {
			return v, true
		}
	case "strings.Trim":
		if v, ok := e.modelTrim(s, args); ok {
			return v, true
		}
	case "fmt.Sprintf":
		if v, ok := e.modelSprintf(s, f, args); ok {
			return v, true
		}
	}
	return nil, false
}

// sbBufPtr: pointer to the buf field of a strings.Builder.
func (e *Engine) sbBufPtr(p *Ptr) (*Ptr, bool) {
	st, ok := p.Elem.Underlying().(*types.Struct)
	if !ok {
		return nil, false
	}
	for i := 0; i < st.NumFields(); i++ {
		if st.Field(i).Name() == "buf" {
			return &Ptr{Kind: pkField, Base: p, Field: i, Elem: st.Field(i).Type()}, true
		}
	}
	return nil, false
}

func (e *Engine) sbLoad(s *State, recv Value) (Term, *Ptr, bool) {
	p, ok := recv.(*Ptr)
	if !ok {
		return Term{}, nil, false
	}
	bp, ok := e.sbBufPtr(p)
	if !ok {
		return Term{}, nil, false
	}
	v, err := s.load(bp)
	if err != nil {
		return Term{}, nil, false
	}
	t, ok := v.(Term)
	if !ok || t.Sort != SSlice {
		return Term{}, nil, false
	}
	return t, bp, true
}

// sbAppend stores into the builder a fresh slice holding buf followed by the given bytes (or the bytes of str).
func (e *Engine) sbAppend(s *State, bp *Ptr, buf Term, bytes []Term, str Term, isStr bool) {
	key, sort := e.memKey(types.Typ[types.Uint8])
	inner := arrayElemSort(sort)
	h := s.heapGet(key, sort)
	ln, off, base := App("s-len", SInt, buf), App("s-off", SInt, buf), App("s-base", SInt, buf)
	oldArr := e.u.Define("sbold", Select(h, base))
	nb := e.newRef()
	narr := e.u.Fresh("sbarr", inner)
	var n Term
	var tail string
	if isStr {
		n = App("str.len", SInt, str)
		tail = fmt.Sprintf("(str.to_code (str.at %s (- j %s)))", str.S, ln.S)
	} else {
		n = IntLit(int64(len(bytes)))
		tail = bytes[len(bytes)-1].S
		for i := len(bytes) - 2; i >= 0; i-- {
			tail = fmt.Sprintf("(ite (= j (+ %s %d)) %s %s)", ln.S, i, bytes[i].S, tail)
		}
	}
	newLen := e.u.Define("sblen", Add(ln, n))
	ax := fmt.Sprintf("(forall ((j Int)) (! (=> (and (<= 0 j) (< j %s)) (= (select %s j) (ite (< j %s) (select %s (+ %s j)) %s))) :pattern ((select %s j))))",
		newLen.S, narr.S, ln.S, oldArr.S, off.S, tail, narr.S)
	s.assume(Term{ax, SBool})
	s.assume(Term{fmt.Sprintf("(forall ((j Int)) (! (and (<= 0 (select %s j)) (<= (select %s j) 255)) :pattern ((select %s j))))", narr.S, narr.S, narr.S), SBool})
	s.heapSet(key, Store(h, nb, narr))
	_ = s.store(bp, e.u.Define("sbbuf", App("mk-slice", SSlice, nb, IntLit(0), newLen, newLen)))
}

// sbAppendN: n new bytes; the first is b0, the others (if any) arbitrary bytes >= 128.
func (e *Engine) sbAppendN(s *State, bp *Ptr, buf Term, n, b0 Term) {
	key, sort := e.memKey(types.Typ[types.Uint8])
	inner := arrayElemSort(sort)
	h := s.heapGet(key, sort)
	ln, off, base := App("s-len", SInt, buf), App("s-off", SInt, buf), App("s-base", SInt, buf)
	oldArr := e.u.Define("sbold", Select(h, base))
	nb := e.newRef()
	narr := e.u.Fresh("sbarr", inner)
	newLen := e.u.Define("sblen", Add(ln, n))
	ax := fmt.Sprintf("(forall ((j Int)) (! (=> (and (<= 0 j) (< j %s)) (ite (< j %s) (= (select %s j) (select %s (+ %s j))) (ite (= j %s) (= (select %s j) %s) (and (<= 128 (select %s j)) (<= (select %s j) 255))))) :pattern ((select %s j))))",
		newLen.S, ln.S, narr.S, oldArr.S, off.S, ln.S, narr.S, b0.S, narr.S, narr.S, narr.S)
	s.assume(Term{ax, SBool})
	s.assume(Term{fmt.Sprintf("(forall ((j Int)) (! (and (<= 0 (select %s j)) (<= (select %s j) 255)) :pattern ((select %s j))))", narr.S, narr.S, narr.S), SBool})
	s.heapSet(key, Store(h, nb, narr))
	_ = s.store(bp, e.u.Define("sbbuf", App("mk-slice", SSlice, nb, IntLit(0), newLen, newLen)))
}

// modelTrim: strings.Trim(s, "c") for a literal one-byte cutset.
func (e *Engine) modelTrim(s *State, args []Value) (Value, bool) {
	str, ok := args[0].(Term)
	if !ok {
		return nil, false
	}
	cs, ok := args[1].(Term)
	if !ok {
		return nil, false
	}
	lit, isLit := smtString(cs.S)
	if !isLit || len(lit) != 1 || lit[0] >= 128 {
		return nil, false
	}
	c := IntLit(int64(lit[0]))
	e.trustModel("strings.Trim with a one-byte cutset: the input without its leading and trailing run of that byte")
	lo := e.u.Fresh("trimlo", SInt)
	hi := e.u.Fresh("trimhi", SInt)
	n := App("str.len", SInt, str)
	at := func(i string) string { return fmt.Sprintf("(str.to_code (str.at %s %s))", str.S, i) }
	s.assume(And(Le(IntLit(0), lo), Le(lo, hi), Le(hi, n)))
	s.assume(Term{fmt.Sprintf("(forall ((j Int)) (! (=> (and (<= 0 j) (< j %s)) (= %s %s)) :pattern ((str.at %s j))))", lo.S, at("j"), c.S, str.S), SBool})
	s.assume(Term{fmt.Sprintf("(forall ((j Int)) (! (=> (and (<= %s j) (< j %s)) (= %s %s)) :pattern ((str.at %s j))))", hi.S, n.S, at("j"), c.S, str.S), SBool})
	s.assume(Implies(Lt(lo, hi), And(Not(Eq(Term{at(lo.S), SInt}, c)), Not(Eq(Term{at("(- " + hi.S + " 1)"), SInt}, c)))))
	var r Term
	rs := e.u.Resolve(str)
	if strings.HasPrefix(rs.S, "(b2s.uint8 ") {
		if sx := sexpParse(rs.S); sx != nil && len(sx.kids) == 4 {
			arr := Term{sx.kids[1].String(), ArraySort(SInt, SInt)}
			off := Term{sx.kids[2].String(), SInt}
			r = e.u.Define("trim", App("b2s.uint8", SString, arr, Add(off, lo), Sub(hi, lo)))
			// the same characters as the corresponding stretch of the input
			s.assume(Eq(r, App("str.substr", SString, str, lo, Sub(hi, lo))))
		}
	}
	if r.S == "" {
		r = e.u.Define("trim", App("str.substr", SString, str, lo, Sub(hi, lo)))
	}
	return r, true
}

// modelSprintf: literal format with %s / %d / %v and string or integer arguments.
func (e *Engine) modelSprintf(s *State, f *ssa.Function, args []Value) (Value, bool) {
	ft, ok := args[0].(Term)
	if !ok {
		return nil, false
	}
	format, isLit := smtString(ft.S)
	if !isLit || !strings.HasPrefix(ft.S, "\"") {
		return nil, false
	}
	va, ok := args[1].(Term)
	if !ok || va.Sort != SSlice {
		return nil, false
	}
	base, off, ln, _ := e.u.SliceParts(va)
	nArgs, ok := litValue(ln)
	if !ok || !nArgs.IsInt64() {
		return nil, false
	}
	vt, isSl := f.Signature.Params().At(1).Type().Underlying().(*types.Slice)
	if !isSl {
		return nil, false
	}
	key, sort := e.memKey(vt.Elem())
	h := s.heapGet(key, sort)
	var parts []Term
	argi := int64(0)
	lit := ""
	flush := func() {
		if lit != "" {
			parts = append(parts, StrLit(lit))
			lit = ""
		}
	}
	for i := 0; i < len(format); i++ {
		ch := format[i]
		if ch != '%' {
			lit += string(ch)
			continue
		}
		if i+1 >= len(format) {
			return nil, false
		}
		i++
		verb := format[i]
		if verb == '%' {
			lit += "%"
			continue
		}
		if verb != 's' && verb != 'd' && verb != 'v' {
			return nil, false
		}
		if argi >= nArgs.Int64() {
			return nil, false
		}
		el := Select(Select(h, base), Add(off, IntLit(argi)))
		argi++
		dyn, payload, ok := e.ifaceDynType(e.u.Resolve(el))
		if !ok {
			return nil, false
		}
		b := basicOf(dyn)
		if b == nil {
			return nil, false
		}
		flush()
		val, ok := e.unboxIface(s, payload, dyn).(Term)
		if !ok {
			return nil, false
		}
		switch {
		case b.Info()&types.IsString != 0 && (verb == 's' || verb == 'v'):
			parts = append(parts, val)
		case b.Info()&types.IsInteger != 0 && (verb == 'd' || verb == 'v'):
			parts = append(parts, decimalOf(val))
		default:
			return nil, false
		}
	}
	flush()
	if argi != nArgs.Int64() {
		return nil, false
	}
	e.trustModel("fmt.Sprintf with a literal %s/%d/%v format over strings and integers: the concatenation (integers in decimal)")
	switch len(parts) {
	case 0:
		return StrLit(""), true
	case 1:
		return parts[0], true
	}
	return e.u.Define("sprintf", App("str.++", SString, parts...)), true
}

// ---- []byte(string) provenance --------------------------------------------------------------------------------

type strBytes struct{ arr, str Term }

var stringBytesOf = map[*Engine]map[string]strBytes{}

// noteStringBytes records that the fresh backing array at base holds exactly the bytes of str.
func (e *Engine) noteStringBytes(base, arr, str Term) {
	m := stringBytesOf[e]
	if m == nil {
		m = map[string]strBytes{}
		stringBytesOf[e] = m
	}
	m[base.S] = strBytes{arr, str}
}

// stringOfBytes: the string a byte slice was converted from, if the slice is the whole, still unmodified result
// of a []byte(s) conversion on this path.
func (e *Engine) stringOfBytes(s *State, sl Term) (Term, bool) {
	base, off, ln, _ := e.u.SliceParts(sl)
	sb, ok := stringBytesOf[e][base.S]
	if !ok || off.S != "0" {
		return Term{}, false
	}
	key, sort := e.memKey(types.Typ[types.Uint8])
	if Select(s.heapGet(key, sort), base).S != sb.arr.S {
		return Term{}, false
	}
	if ln.S != App("str.len", SInt, sb.str).S {
		return Term{}, false
	}
	return sb.str, true
}

// modelCTCompare: subtle.ConstantTimeCompare([]byte(a), []byte(b)) is 1 exactly when a == b.
func (e *Engine) modelCTCompare(s *State, args []Value) (Value, bool) {
	x, ok1 := args[0].(Term)
	y, ok2 := args[1].(Term)
	if !ok1 || !ok2 {
		return nil, false
	}
	sx, ok1 := e.stringOfBytes(s, x)
	sy, ok2 := e.stringOfBytes(s, y)
	if !ok1 || !ok2 {
		return nil, false
	}
	e.trustModel("crypto/subtle.ConstantTimeCompare on two []byte(string) conversions: 1 iff the strings are equal")
	return Ite(Eq(sx, sy), IntLit(1), IntLit(0)), true
}
