package main

import (
	"fmt"
	"go/constant"
	"go/token"
	"go/types"
	"strings"

	"golang.org/x/tools/go/ssa"
)

// TV: typed value of a contract expression. T may be nil for spec-only sorts.
type TV struct {
	V Value
	T types.Type
}

type Env struct {
	s           *State
	fr          *Frame
	vars        map[string]Value
	vtypes      map[string]types.Type
	old         *Snapshot
	pkg         *types.Package
	noLocals    bool
	entryParams bool
	inOld       bool
}

func (env *Env) child() *Env {
	n := *env
	n.vars = map[string]Value{}
	n.vtypes = map[string]types.Type{}
	for k, v := range env.vars {
		n.vars[k] = v
	}
	for k, v := range env.vtypes {
		n.vtypes[k] = v
	}
	return &n
}

// evalClause evaluates a clause in the context of frame fr (root or inlined).
func (e *Engine) evalClause(s *State, fr *Frame, c Clause, vars map[string]Value, vtypes map[string]types.Type) (Term, error) {
	return e.evalExprBool(s, fr, c.Expr, vars, vtypes)
}

func (e *Engine) mkEnv(s *State, fr *Frame, vars map[string]Value, vtypes map[string]types.Type) *Env {
	env := &Env{s: s, fr: fr, vars: map[string]Value{}, vtypes: map[string]types.Type{}, old: fr.entry}
	for k, v := range vars {
		env.vars[k] = v
	}
	for k, v := range vtypes {
		env.vtypes[k] = v
	}
	if fr.fn.Pkg != nil {
		env.pkg = fr.fn.Pkg.Pkg
	}
	// results present => ensures context: parameters denote entry values
	if _, ok := vars["result0"]; ok {
		env.entryParams = true
	}
	return env
}

func (e *Engine) evalExprBool(s *State, fr *Frame, x Expr, vars map[string]Value, vtypes map[string]types.Type) (Term, error) {
	return e.evalBool(e.mkEnv(s, fr, vars, vtypes), x)
}

func (e *Engine) evalExprTerm(s *State, fr *Frame, x Expr, vars map[string]Value, vtypes map[string]types.Type) (Term, error) {
	return e.evalTerm(e.mkEnv(s, fr, vars, vtypes), x)
}

func (e *Engine) evalBool(env *Env, x Expr) (Term, error) {
	t, err := e.evalTerm(env, x)
	if err != nil {
		return Term{}, err
	}
	if t.Sort != SBool {
		return Term{}, fmt.Errorf("expected Bool, got %s", t.Sort)
	}
	return t, nil
}

func (e *Engine) evalTerm(env *Env, x Expr) (Term, error) {
	tv, err := e.eval(env, x)
	if err != nil {
		return Term{}, err
	}
	return env.s.toTerm(tv.V)
}

func (e *Engine) lookupLocal(fr *Frame, name string) (*Ptr, types.Type, bool) {
	// most recently allocated cell/alloc with this source name in this frame
	var best *ssa.Alloc
	bestID := int64(-1)
	allocID := func(v Value) int64 {
		p, ok := v.(*Ptr)
		if !ok {
			return -1
		}
		if p.Kind == pkCell {
			return int64(p.Cell)
		}
		if p.Kind == pkObj {
			if n, ok := litValue(p.Ref); ok && n.IsInt64() {
				return n.Int64()
			}
		}
		return -1
	}
	if k := strings.LastIndex(name, "__"); k > 0 && k+2 < len(name) && name[k+2] >= '1' && name[k+2] <= '9' {
		// name__n: the n-th local of that name in source order (nested loops both have a hidden "rangeindex")
		return e.lookupLocalNth(fr, name[:k], name[k+2:])
	}
	for _, b := range fr.fn.Blocks {
		for _, in := range b.Instrs {
			if al, ok := in.(*ssa.Alloc); ok && al.Comment == name {
				if v, live := fr.regs[al]; live {
					// the variable allocated last on this path (run-time order, not source position)
					if id := allocID(v); best == nil || id > bestID {
						best, bestID = al, id
					}
				}
			}
		}
	}
	if best == nil {
		// name_N: the N-th variable called `name` in the function (block order) - tells the hidden `rangeindex`
		// variables of nested / consecutive range loops apart
		if al := e.nthLocal(fr, name); al != nil {
			best = al
		}
	}
	if best == nil {
		return nil, nil, false
	}
	p := fr.regs[best].(*Ptr)
	return p, best.Type().(*types.Pointer).Elem(), true
}

func (e *Engine) eval(env *Env, x Expr) (TV, error) {
	s := env.s
	switch n := x.(type) {
	case *EInt:
		return TV{BigLit(n.Val), types.Typ[types.UntypedInt]}, nil
	case *EStr:
		return TV{StrLit(n.Val), types.Typ[types.String]}, nil
	case *EBool:
		if n.Val {
			return TV{TTrue, types.Typ[types.Bool]}, nil
		}
		return TV{TFalse, types.Typ[types.Bool]}, nil
	case *ENil:
		return TV{IntLit(0), types.Typ[types.UntypedNil]}, nil
	case *EIdent:
		return e.evalIdent(env, n.Name)
	case *EUnary:
		v, err := e.eval(env, n.X)
		if err != nil {
			return TV{}, err
		}
		switch n.Op {
		case "!":
			t, err := s.toTerm(v.V)
			if err != nil {
				return TV{}, err
			}
			return TV{Not(t), types.Typ[types.Bool]}, nil
		case "-":
			t, err := s.toTerm(v.V)
			if err != nil {
				return TV{}, err
			}
			return TV{Sub(IntLit(0), t), v.T}, nil
		case "*":
			p, ok := v.V.(*Ptr)
			if !ok {
				return TV{}, fmt.Errorf("deref of non-pointer")
			}
			lv, err := e.loadIn(env, p)
			if err != nil {
				return TV{}, err
			}
			return TV{lv, p.Elem}, nil
		}
	case *EBinary:
		return e.evalBinary(env, n)
	case *ESel:
		// package-qualified constant?
		if id, ok := n.X.(*EIdent); ok {
			if _, bound := env.vars[id.Name]; !bound && env.pkg != nil {
				for _, imp := range env.pkg.Imports() {
					if imp.Name() == id.Name {
						if obj := imp.Scope().Lookup(n.Name); obj != nil {
							return e.objValue(env, obj)
						}
					}
				}
			}
		}
		v, err := e.eval(env, n.X)
		if err != nil {
			return TV{}, err
		}
		return e.evalField(env, v, n.Name)
	case *EIndex:
		v, err := e.eval(env, n.X)
		if err != nil {
			return TV{}, err
		}
		i, err := e.evalTerm(env, n.I)
		if err != nil {
			return TV{}, err
		}
		return e.evalIndex(env, v, i)
	case *ESlice:
		v, err := e.eval(env, n.X)
		if err != nil {
			return TV{}, err
		}
		t, err := s.toTerm(v.V)
		if err != nil {
			return TV{}, err
		}
		if t.Sort == SString {
			lo := IntLit(0)
			hi := App("str.len", SInt, t)
			if n.Lo != nil {
				if lo, err = e.evalTerm(env, n.Lo); err != nil {
					return TV{}, err
				}
			}
			if n.Hi != nil {
				if hi, err = e.evalTerm(env, n.Hi); err != nil {
					return TV{}, err
				}
			}
			return TV{App("str.substr", SString, t, lo, Sub(hi, lo)), v.T}, nil
		}
		if t.Sort != SSlice {
			return TV{}, fmt.Errorf("slice expression on %s", t.Sort)
		}
		lo := IntLit(0)
		hi := App("s-len", SInt, t)
		if n.Lo != nil {
			if lo, err = e.evalTerm(env, n.Lo); err != nil {
				return TV{}, err
			}
		}
		if n.Hi != nil {
			if hi, err = e.evalTerm(env, n.Hi); err != nil {
				return TV{}, err
			}
		}
		r := App("mk-slice", SSlice, App("s-base", SInt, t), Add(App("s-off", SInt, t), lo), Sub(hi, lo), Sub(App("s-cap", SInt, t), lo))
		return TV{r, v.T}, nil
	case *ECall:
		return e.evalCall(env, n)
	case *EQuant:
		if len(n.Pats) > 0 && s.quant == 0 {
			e.freezeHeapsForPatterns(env)
		}
		s.quant++
		defer func() { s.quant-- }()
		ce := env.child()
		var decls []string
		var guards []Term
		for _, qv := range n.Vars {
			ty, sort, err := e.resolveType(env, qv.Type)
			if err != nil {
				return TV{}, err
			}
			// deterministic by nesting depth: the same clause always renders to the same text
			name := fmt.Sprintf("q_%s_d%d", qv.Name, s.quant)
			decls = append(decls, fmt.Sprintf("(%s %s)", name, sort))
			t := Term{name, sort}
			if ty != nil {
				ce.vars[qv.Name] = s.fromTerm(t, ty)
			} else {
				ce.vars[qv.Name] = t // spec-level sort (Int / mathint / array): no Go type, no range guard
			}
			ce.vtypes[qv.Name] = ty
			if ty != nil {
				if f := e.tm.TypeFacts(t, ty); f.S != "true" {
					guards = append(guards, f)
				}
			}
		}
		body, err := e.evalBool(ce, n.Body)
		if err != nil {
			return TV{}, err
		}
		q := "exists"
		if n.Forall {
			q = "forall"
			body = Implies(And(guards...), body)
		} else {
			body = And(append(guards, body)...)
		}
		if len(n.Pats) > 0 {
			// explicit instantiation patterns
			var ps []string
			for _, group := range n.Pats {
				var ts []string
				for _, pe := range group {
					pt, err := e.evalTerm(ce, pe)
					if err != nil {
						return TV{}, fmt.Errorf("quantifier pattern: %v", err)
					}
					ts = append(ts, pt.S)
				}
				ps = append(ps, ":pattern ("+strings.Join(ts, " ")+")")
				// z3 matches (+ a q) syntactically and may have normalised the ground term to (+ q a): offer both
				if sw := swapPlusInPatterns(ts); sw != nil {
					ps = append(ps, ":pattern ("+strings.Join(sw, " ")+")")
				}
			}
			return TV{Term{fmt.Sprintf("(%s (%s) (! %s %s))", q, strings.Join(decls, " "), body.S, strings.Join(ps, " ")), SBool}, types.Typ[types.Bool]}, nil
		}
		return TV{Term{fmt.Sprintf("(%s (%s) %s)", q, strings.Join(decls, " "), body.S), SBool}, types.Typ[types.Bool]}, nil
	case *ELet:
		v, err := e.eval(env, n.Val)
		if err != nil {
			return TV{}, err
		}
		ce := env.child()
		if t, ok := v.V.(Term); ok {
			if s.quant == 0 {
				v.V = e.u.Define("let."+n.Name, t)
			}
		}
		ce.vars[n.Name] = v.V
		ce.vtypes[n.Name] = v.T
		return e.eval(ce, n.Body)
	}
	return TV{}, fmt.Errorf("cannot evaluate %T", x)
}

func (e *Engine) evalIdent(env *Env, name string) (TV, error) {
	s := env.s
	if v, ok := env.vars[name]; ok {
		return TV{v, env.vtypes[name]}, nil
	}
	if env.fr != nil {
		if g, ok := env.fr.ghosts[name]; ok {
			if ty := e.ghostDeclType(env, name); ty != nil {
				return TV{g, ty}, nil
			}
			// a ghost declared with a slice / pointer / struct type keeps that type (indexing, field access);
			// scalar and spec-sort ghosts stay untyped as before
			if env.fr.contract != nil {
				for _, gd := range env.fr.contract.Ghosts {
					if gd.Name == name {
						if ty, _, err := e.resolveType(env, gd.Type); err == nil && ty != nil {
							switch ty.Underlying().(type) {
							case *types.Slice, *types.Pointer, *types.Struct:
								return TV{g, ty}, nil
							}
						}
					}
				}
			}
			return TV{g, nil}, nil
		}
		// parameters
		if env.entryParams || env.inOld {
			if v, ok := env.fr.params[name]; ok {
				return TV{v, e.paramType(env.fr.fn, name)}, nil
			}
		}
		if !env.noLocals {
			if p, ty, ok := e.lookupLocal(env.fr, name); ok {
				v, err := s.load(p)
				if err != nil {
					return TV{}, err
				}
				return TV{v, ty}, nil
			}
		}
		if v, ok := env.fr.params[name]; ok {
			return TV{v, e.paramType(env.fr.fn, name)}, nil
		}
	}
	// package scope
	if env.pkg != nil {
		if obj := env.pkg.Scope().Lookup(name); obj != nil {
			return e.objValue(env, obj)
		}
	}
	if obj := types.Universe.Lookup(name); obj != nil {
		return e.objValue(env, obj)
	}
	return TV{}, fmt.Errorf("unresolved identifier %q", name)
}

func (e *Engine) paramType(fn *ssa.Function, name string) types.Type {
	for _, p := range fn.Params {
		if p.Name() == name {
			return p.Type()
		}
	}
	for _, p := range fn.FreeVars {
		if p.Name() == name {
			return p.Type()
		}
	}
	return nil
}

func (e *Engine) objValue(env *Env, obj types.Object) (TV, error) {
	switch o := obj.(type) {
	case *types.Const:
		c := ssa.NewConst(o.Val(), o.Type())
		if o.Val().Kind() == constant.Int {
			c = ssa.NewConst(o.Val(), types.Default(o.Type()))
			return TV{env.s.constValue(c), o.Type()}, nil
		}
		return TV{env.s.constValue(c), o.Type()}, nil
	case *types.Var:
		// package-level variable
		if env.fr != nil && env.fr.fn.Pkg != nil {
			for _, p := range e.prog.AllPackages() {
				if p.Pkg == o.Pkg() {
					if g, ok := p.Members[o.Name()].(*ssa.Global); ok {
						v, err := e.loadIn(env, &Ptr{Kind: pkGlobal, Glob: g, Elem: o.Type()})
						if err != nil {
							return TV{}, err
						}
						return TV{v, o.Type()}, nil
					}
				}
			}
		}
	case *types.Nil:
		return TV{IntLit(0), types.Typ[types.UntypedNil]}, nil
	}
	return TV{}, fmt.Errorf("cannot use %s in a contract", obj)
}

// loadIn loads through p in the heap selected by env (current or old).
func (e *Engine) loadIn(env *Env, p *Ptr) (Value, error) {
	s := env.s
	if env.inOld && env.old != nil {
		restore := s.enterOld(env.old)
		v, err := s.load(p)
		restore()
		return v, err
	}
	return s.load(p)
}

func (e *Engine) heapIn(env *Env, key, sort string) Term {
	s := env.s
	if env.inOld && env.old != nil {
		if t, ok := env.old.heap[key]; ok {
			return t
		}
		return e.heapLazy(s, key, sort, lazySeq(key, env.old.pending, env.old.allSeq, env.old.allPrev, env.old.allExcept))
	}
	return s.heapGet(key, sort)
}

func (e *Engine) evalField(env *Env, v TV, name string) (TV, error) {
	if v.T == nil {
		return TV{}, fmt.Errorf("field %s of untyped value", name)
	}
	t := v.T
	if p, ok := t.Underlying().(*types.Pointer); ok {
		ptr, ok := v.V.(*Ptr)
		if !ok {
			if tm, ok2 := v.V.(Term); ok2 {
				ptr = &Ptr{Kind: pkObj, Ref: tm, Elem: p.Elem()}
			} else {
				return TV{}, fmt.Errorf("field of non-pointer value %T", v.V)
			}
		}
		st, ok := p.Elem().Underlying().(*types.Struct)
		if !ok {
			return TV{}, fmt.Errorf("field %s of pointer to non-struct", name)
		}
		idx, emb := findField(st, name)
		if idx < 0 {
			return TV{}, fmt.Errorf("no field %s in %s", name, p.Elem())
		}
		if emb != nil {
			// promoted through embedded field(s)
			cur := TV{ptr, t}
			for _, step := range emb {
				var err error
				cur, err = e.evalField(env, cur, step)
				if err != nil {
					return TV{}, err
				}
			}
			return e.evalField(env, cur, name)
		}
		fp := &Ptr{Kind: pkField, Base: ptr, Field: idx, Elem: st.Field(idx).Type()}
		lv, err := e.loadIn(env, fp)
		if err != nil {
			return TV{}, err
		}
		return TV{lv, st.Field(idx).Type()}, nil
	}
	if st, ok := t.Underlying().(*types.Struct); ok {
		idx, emb := findField(st, name)
		if idx < 0 {
			return TV{}, fmt.Errorf("no field %s in %s", name, t)
		}
		if emb != nil {
			cur := v
			for _, step := range emb {
				var err error
				cur, err = e.evalField(env, cur, step)
				if err != nil {
					return TV{}, err
				}
			}
			return e.evalField(env, cur, name)
		}
		tm, err := env.s.toTerm(v.V)
		if err != nil {
			return TV{}, err
		}
		ft := st.Field(idx).Type()
		return TV{env.s.fromTerm(e.tm.FieldOf(t, tm, idx), ft), ft}, nil
	}
	return TV{}, fmt.Errorf("field %s of %s", name, t)
}

// findField returns the index of a direct field, or the path of embedded fields to reach a promoted one.
func findField(st *types.Struct, name string) (int, []string) {
	for i := 0; i < st.NumFields(); i++ {
		if st.Field(i).Name() == name {
			return i, nil
		}
	}
	for i := 0; i < st.NumFields(); i++ {
		f := st.Field(i)
		if !f.Embedded() {
			continue
		}
		ft := f.Type()
		if p, ok := ft.Underlying().(*types.Pointer); ok {
			ft = p.Elem()
		}
		if inner, ok := ft.Underlying().(*types.Struct); ok {
			if idx, path := findField(inner, name); idx >= 0 {
				return idx, append([]string{f.Name()}, path...)
			}
		}
	}
	return -1, nil
}

func (e *Engine) evalIndex(env *Env, v TV, i Term) (TV, error) {
	if v.T == nil {
		// spec-level array
		t, err := env.s.toTerm(v.V)
		if err != nil {
			return TV{}, err
		}
		if strings.HasPrefix(t.Sort, "(Array") {
			return TV{Select(t, i), nil}, nil
		}
		return TV{}, fmt.Errorf("index of untyped value")
	}
	switch u := v.T.Underlying().(type) {
	case *types.Slice:
		sl, err := env.s.toTerm(v.V)
		if err != nil {
			return TV{}, err
		}
		key, sort := e.memKey(u.Elem())
		h := e.heapIn(env, key, sort)
		t := Select(Select(h, App("s-base", SInt, sl)), Add(App("s-off", SInt, sl), i))
		return TV{env.s.fromTerm(t, u.Elem()), u.Elem()}, nil
	case *types.Array:
		t, err := env.s.toTerm(v.V)
		if err != nil {
			return TV{}, err
		}
		return TV{env.s.fromTerm(Select(t, i), u.Elem()), u.Elem()}, nil
	case *types.Basic:
		t, err := env.s.toTerm(v.V)
		if err != nil {
			return TV{}, err
		}
		return TV{App("str.to_code", SInt, App("str.at", SString, t, i)), types.Typ[types.Uint8]}, nil
	case *types.Map:
		m, err := env.s.toTerm(v.V)
		if err != nil {
			return TV{}, err
		}
		dk, vk, _ := e.mapHeapKeys(u)
		domH := e.heapIn(env, dk, e.heapSorts[dk])
		valH := e.heapIn(env, vk, e.heapSorts[vk])
		has := And(Not(Eq(m, IntLit(0))), Select(Select(domH, m), i))
		zero, err := env.s.toTerm(env.s.zeroValue(u.Elem()))
		if err != nil {
			return TV{}, err
		}
		return TV{env.s.fromTerm(Ite(has, Select(Select(valH, m), i), zero), u.Elem()), u.Elem()}, nil
	case *types.Pointer:
		if arr, ok := u.Elem().Underlying().(*types.Array); ok {
			p := v.V.(*Ptr)
			if p.Kind == pkObj {
				key, sort := e.memKey(arr.Elem())
				h := e.heapIn(env, key, sort)
				return TV{env.s.fromTerm(Select(Select(h, p.Ref), i), arr.Elem()), arr.Elem()}, nil
			}
		}
	}
	return TV{}, fmt.Errorf("cannot index %s", v.T)
}

func isIntType(t types.Type) bool {
	if t == nil {
		return false
	}
	b, ok := t.Underlying().(*types.Basic)
	return ok && b.Info()&types.IsInteger != 0
}

func (e *Engine) evalBinary(env *Env, n *EBinary) (TV, error) {
	s := env.s
	boolT := types.Typ[types.Bool]
	switch n.Op {
	case "&&", "||", "==>":
		a, err := e.evalBool(env, n.X)
		if err != nil {
			return TV{}, err
		}
		// short circuit on a literally decided left operand (e.g. declared(x) && ..., declared(x) ==> ...):
		// the right operand may mention locals that do not exist on this path
		if a.S == "false" && n.Op == "&&" {
			return TV{TFalse, boolT}, nil
		}
		if a.S == "false" && n.Op == "==>" {
			return TV{TTrue, boolT}, nil
		}
		if a.S == "true" && n.Op == "||" {
			return TV{TTrue, boolT}, nil
		}
		b, err := e.evalBool(env, n.Y)
		if err != nil {
			return TV{}, err
		}
		switch n.Op {
		case "&&":
			return TV{And(a, b), boolT}, nil
		case "||":
			return TV{Or(a, b), boolT}, nil
		}
		return TV{Implies(a, b), boolT}, nil
	}
	av, err := e.eval(env, n.X)
	if err != nil {
		return TV{}, err
	}
	bv, err := e.eval(env, n.Y)
	if err != nil {
		return TV{}, err
	}
	if n.Op == "==" || n.Op == "!=" {
		r, err := e.specEqual(env, av, bv)
		if err != nil {
			return TV{}, err
		}
		if n.Op == "!=" {
			r = Not(r)
		}
		return TV{r, boolT}, nil
	}
	a, err := s.toTerm(av.V)
	if err != nil {
		return TV{}, err
	}
	b, err := s.toTerm(bv.V)
	if err != nil {
		return TV{}, err
	}
	rt := av.T
	if rt == nil || (isUntyped(rt) && bv.T != nil) {
		rt = bv.T
	}
	if a.Sort == SString && n.Op == "+" {
		return TV{App("str.++", SString, a, b), rt}, nil
	}
	if a.Sort == SReal || b.Sort == SReal {
		// float64 operands: exact real arithmetic (the same abstraction the executor uses); see eval_ops.go
		if tv, ok := e.realBinary(n.Op, a, b); ok {
			return tv, nil
		}
	}
	switch n.Op {
	case "+":
		return TV{Add(a, b), rt}, nil
	case "-":
		return TV{Sub(a, b), rt}, nil
	case "*":
		return TV{Mul(a, b), rt}, nil
	case "/":
		return TV{e.goDiv(a, b), rt}, nil
	case "%":
		return TV{Sub(a, Mul(b, e.goDiv(a, b))), rt}, nil
	case "<":
		if a.Sort == SString {
			return TV{App("str.<", SBool, a, b), boolT}, nil
		}
		return TV{Lt(a, b), boolT}, nil
	case "<=":
		if a.Sort == SString {
			return TV{App("str.<=", SBool, a, b), boolT}, nil
		}
		return TV{Le(a, b), boolT}, nil
	case ">":
		if a.Sort == SString {
			return TV{App("str.<", SBool, b, a), boolT}, nil
		}
		return TV{Gt(a, b), boolT}, nil
	case ">=":
		if a.Sort == SString {
			return TV{App("str.<=", SBool, b, a), boolT}, nil
		}
		return TV{Ge(a, b), boolT}, nil
	case "&":
		bt := basicOf(orInt(rt))
		return TV{e.bitAnd(a, b, bt), rt}, nil
	case "|":
		bt := basicOf(orInt(rt))
		return TV{e.bitOr(a, b, bt), rt}, nil
	case "<<":
		if bvv, ok := litValue(b); ok && bvv.IsInt64() {
			return TV{Mul(a, BigLit(pow2(uint(bvv.Int64())))), rt}, nil
		}
		return TV{Mul(a, App(e.pow2Fun(), SInt, b)), rt}, nil
	case ">>":
		if bvv, ok := litValue(b); ok && bvv.IsInt64() {
			return TV{App("div", SInt, a, BigLit(pow2(uint(bvv.Int64())))), rt}, nil
		}
		return TV{App("div", SInt, a, App(e.pow2Fun(), SInt, b)), rt}, nil
	}
	return TV{}, fmt.Errorf("unsupported operator %s", n.Op)
}

func isUntyped(t types.Type) bool {
	b, ok := t.(*types.Basic)
	return ok && b.Info()&types.IsUntyped != 0
}

func orInt(t types.Type) types.Type {
	if t == nil || isUntyped(t) {
		return types.Typ[types.Int64]
	}
	return t
}

// specEqual: == in specifications. Slices compare extensionally (or to nil).
func (e *Engine) specEqual(env *Env, a, b TV) (Term, error) {
	s := env.s
	_, aNil := a.T.(*types.Basic)
	aNil = aNil && a.T != nil && a.T.(*types.Basic).Kind() == types.UntypedNil
	bNil := false
	if bb, ok := b.T.(*types.Basic); ok && bb.Kind() == types.UntypedNil {
		bNil = true
	}
	if aNil && !bNil {
		a, b = b, a
		aNil, bNil = bNil, aNil
	}
	if bNil {
		// an interior pointer (&x.f, &s[i], &local) is never nil (addons: findNextSegment returns &segments[i])
		if p, ok := a.V.(*Ptr); ok && (p.Kind == pkCell || p.Kind == pkField || p.Kind == pkElem) {
			return TFalse, nil
		}
	}
	at, err := s.toTerm(a.V)
	if err != nil {
		return Term{}, err
	}
	if bNil {
		switch at.Sort {
		case SSlice:
			return Eq(App("s-base", SInt, at), IntLit(0)), nil
		case SIface:
			return Eq(App("i-type", SInt, at), IntLit(0)), nil
		default:
			return Eq(at, IntLit(0)), nil
		}
	}
	bt, err := s.toTerm(b.V)
	if err != nil {
		return Term{}, err
	}
	if at.Sort == SSlice && bt.Sort == SSlice {
		var elem types.Type
		if a.T != nil {
			if st, ok := a.T.Underlying().(*types.Slice); ok {
				elem = st.Elem()
			}
		}
		if elem == nil && b.T != nil {
			if st, ok := b.T.Underlying().(*types.Slice); ok {
				elem = st.Elem()
			}
		}
		if elem == nil {
			return Term{}, fmt.Errorf("slice equality without element type")
		}
		return e.seqEqualIn(env, at, bt, elem), nil
	}
	if at.Sort != bt.Sort {
		return Term{}, fmt.Errorf("== on different sorts %s and %s", at.Sort, bt.Sort)
	}
	return Eq(at, bt), nil
}

func (e *Engine) seqEqualIn(env *Env, a, b Term, elem types.Type) Term {
	key, sort := e.memKey(elem)
	h := e.heapIn(env, key, sort)
	la, lb := App("s-len", SInt, a), App("s-len", SInt, b)
	body := fmt.Sprintf("(forall ((k Int)) (=> (and (<= 0 k) (< k %s)) (= (select (select %s (s-base %s)) (+ (s-off %s) k)) (select (select %s (s-base %s)) (+ (s-off %s) k)))))",
		la.S, h.S, a.S, a.S, h.S, b.S, b.S)
	return And(Eq(la, lb), Term{body, SBool})
}

var basicTypeNames = map[string]types.Type{
	"int": types.Typ[types.Int], "int8": types.Typ[types.Int8], "int16": types.Typ[types.Int16], "int32": types.Typ[types.Int32], "int64": types.Typ[types.Int64],
	"uint": types.Typ[types.Uint], "uint8": types.Typ[types.Uint8], "uint16": types.Typ[types.Uint16], "uint32": types.Typ[types.Uint32], "uint64": types.Typ[types.Uint64],
	"byte": types.Typ[types.Uint8], "rune": types.Typ[types.Int32], "bool": types.Typ[types.Bool], "string": types.Typ[types.String], "uintptr": types.Typ[types.Uintptr],
	"float64": types.Typ[types.Float64],
}

// resolveType maps a type string to a Go type (may be nil) and an SMT sort.
func (e *Engine) resolveType(env *Env, ts string) (types.Type, string, error) {
	ts = strings.TrimSpace(ts)
	if ts == "Int" || ts == "mathint" {
		return nil, SInt, nil
	}
	if t, ok := basicTypeNames[ts]; ok {
		return t, e.tm.SortOf(t), nil
	}
	if strings.HasPrefix(ts, "[") && !strings.HasPrefix(ts, "[]") {
		// array type [N]T
		if k := strings.Index(ts, "]"); k > 1 {
			var n int64
			if _, err := fmt.Sscanf(ts[1:k], "%d", &n); err == nil && n >= 0 {
				el, _, err := e.resolveType(env, ts[k+1:])
				if err != nil {
					return nil, "", err
				}
				if el != nil {
					t := types.NewArray(el, n)
					return t, e.tm.SortOf(t), nil
				}
			}
		}
	}
	if strings.HasPrefix(ts, "[]") {
		el, _, err := e.resolveType(env, ts[2:])
		if err != nil {
			return nil, "", err
		}
		t := types.NewSlice(el)
		return t, SSlice, nil
	}
	if strings.HasPrefix(ts, "*") {
		el, _, err := e.resolveType(env, ts[1:])
		if err != nil {
			return nil, "", err
		}
		t := types.NewPointer(el)
		return t, SInt, nil
	}
	if ts == "error" {
		t := types.Universe.Lookup("error").Type()
		return t, SIface, nil
	}
	if strings.HasPrefix(ts, "(Array") {
		return nil, ts, nil
	}
	if env != nil && env.pkg != nil {
		if k := strings.Index(ts, "."); k > 0 {
			for _, imp := range env.pkg.Imports() {
				if imp.Name() == ts[:k] {
					if obj := imp.Scope().Lookup(ts[k+1:]); obj != nil {
						return obj.Type(), e.tm.SortOf(obj.Type()), nil
					}
				}
			}
		}
		if obj := env.pkg.Scope().Lookup(ts); obj != nil {
			if _, ok := obj.(*types.TypeName); ok {
				return obj.Type(), e.tm.SortOf(obj.Type()), nil
			}
		}
	}
	// full path form pkg/path.Name
	if k := strings.LastIndex(ts, "."); k > 0 {
		for _, p := range e.prog.AllPackages() {
			if p.Pkg.Path() == ts[:k] {
				if obj := p.Pkg.Scope().Lookup(ts[k+1:]); obj != nil {
					return obj.Type(), e.tm.SortOf(obj.Type()), nil
				}
			}
		}
	}
	return nil, "", fmt.Errorf("cannot resolve type %q", ts)
}

func (e *Engine) evalCall(env *Env, n *ECall) (TV, error) {
	s := env.s
	intT := types.Typ[types.Int]
	switch n.Fun {
	case "old":
		if len(n.Args) != 1 {
			return TV{}, fmt.Errorf("old takes one argument")
		}
		ce := env.child()
		ce.inOld = true
		return e.eval(ce, n.Args[0])
	case "len", "cap":
		v, err := e.eval(env, n.Args[0])
		if err != nil {
			return TV{}, err
		}
		t, err := s.toTerm(v.V)
		if err != nil {
			return TV{}, err
		}
		switch t.Sort {
		case SSlice:
			if n.Fun == "cap" {
				return TV{App("s-cap", SInt, t), intT}, nil
			}
			return TV{App("s-len", SInt, t), intT}, nil
		case SString:
			return TV{App("str.len", SInt, t), intT}, nil
		}
		if v.T != nil {
			if mt, ok := v.T.Underlying().(*types.Map); ok {
				_, _, lk := e.mapHeapKeys(mt)
				return TV{Select(e.heapIn(env, lk, ArraySort(SInt, SInt)), t), intT}, nil
			}
			if at, ok := v.T.Underlying().(*types.Array); ok {
				return TV{IntLit(at.Len()), intT}, nil
			}
		}
		return TV{}, fmt.Errorf("len of %s", t.Sort)
	case "ite":
		c, err := e.evalBool(env, n.Args[0])
		if err != nil {
			return TV{}, err
		}
		a, err := e.eval(env, n.Args[1])
		if err != nil {
			return TV{}, err
		}
		b, err := e.eval(env, n.Args[2])
		if err != nil {
			return TV{}, err
		}
		at, err := s.toTerm(a.V)
		if err != nil {
			return TV{}, err
		}
		bt, err := s.toTerm(b.V)
		if err != nil {
			return TV{}, err
		}
		ty := a.T
		if ty == nil || isUntyped(ty) {
			ty = b.T
		}
		return TV{s.fromTerm(Ite(c, at, bt), orNil(ty)), ty}, nil
	case "sameSlice":
		a, err := e.evalTerm(env, n.Args[0])
		if err != nil {
			return TV{}, err
		}
		b, err := e.evalTerm(env, n.Args[1])
		if err != nil {
			return TV{}, err
		}
		return TV{And(Eq(App("s-base", SInt, a), App("s-base", SInt, b)), Eq(App("s-off", SInt, a), App("s-off", SInt, b)), Eq(App("s-len", SInt, a), App("s-len", SInt, b))), types.Typ[types.Bool]}, nil
	case "base", "off":
		a, err := e.evalTerm(env, n.Args[0])
		if err != nil {
			return TV{}, err
		}
		return TV{App("s-"+n.Fun, SInt, a), intT}, nil
	case "be16", "be32", "be64":
		sl, err := e.eval(env, n.Args[0])
		if err != nil {
			return TV{}, err
		}
		at, err := e.evalTerm(env, n.Args[1])
		if err != nil {
			return TV{}, err
		}
		slt, err := s.toTerm(sl.V)
		if err != nil {
			return TV{}, err
		}
		nb := map[string]int{"be16": 2, "be32": 4, "be64": 8}[n.Fun]
		key, sort := e.memKey(types.Typ[types.Uint8])
		h := e.heapIn(env, key, sort)
		arr := Select(h, App("s-base", SInt, slt))
		var r Term = IntLit(0)
		for i := 0; i < nb; i++ {
			r = Add(Mul(r, IntLit(256)), Select(arr, Add(Add(App("s-off", SInt, slt), at), IntLit(int64(i)))))
		}
		return TV{r, types.Typ[types.Uint64]}, nil
	case "string":
		// string(b) for a byte slice: the same deterministic function the executor uses for the conversion
		v, err := e.eval(env, n.Args[0])
		if err != nil {
			return TV{}, err
		}
		t, err := s.toTerm(v.V)
		if err != nil {
			return TV{}, err
		}
		if t.Sort == SString {
			return TV{t, types.Typ[types.String]}, nil
		}
		if t.Sort != SSlice || v.T == nil {
			return TV{}, fmt.Errorf("string() of %s", t.Sort)
		}
		st := v.T.Underlying().(*types.Slice)
		restore := func() {}
		if env.inOld && env.old != nil {
			restore = s.enterOld(env.old)
		}
		r := e.bytesToString(s, t, st.Elem())
		restore()
		return TV{r, types.Typ[types.String]}, nil
	case "boxed":
		// boxed(x, "T", v): interface value x holds a (non-pointer) value of dynamic type T equal to v
		if len(n.Args) != 3 {
			return TV{}, fmt.Errorf("boxed(x, \"T\", v)")
		}
		ts, ok := n.Args[1].(*EStr)
		if !ok {
			return TV{}, fmt.Errorf("boxed(): second argument must be a type string")
		}
		ty, _, err := e.resolveType(env, ts.Val)
		if err != nil {
			return TV{}, err
		}
		x, err := e.evalTerm(env, n.Args[0])
		if err != nil {
			return TV{}, err
		}
		if x.Sort != SIface {
			return TV{}, fmt.Errorf("boxed(): not an interface value")
		}
		v, err := e.evalTerm(env, n.Args[2])
		if err != nil {
			return TV{}, err
		}
		if isPointerLike(ty) {
			return TV{}, fmt.Errorf("boxed(): use as() for pointer-like types")
		}
		key, sort := e.boxKey(ty)
		h := e.heapIn(env, key, sort)
		return TV{And(Eq(App("i-type", SInt, x), IntLit(int64(e.tm.TypeID(ty)))), Eq(Select(h, App("i-val", SInt, x)), v)), types.Typ[types.Bool]}, nil
	case "declared":
		// declared(x): the local variable x has been declared on this path (its cell exists)
		id, ok := n.Args[0].(*EIdent)
		if !ok || len(n.Args) != 1 {
			return TV{}, fmt.Errorf("declared(x): x must be an identifier")
		}
		if env.fr != nil {
			if _, _, ok := e.lookupLocal(env.fr, id.Name); ok {
				return TV{TTrue, types.Typ[types.Bool]}, nil
			}
		}
		return TV{TFalse, types.Typ[types.Bool]}, nil
	case "isNilIface":
		a, err := e.evalTerm(env, n.Args[0])
		if err != nil {
			return TV{}, err
		}
		return TV{Eq(App("i-type", SInt, a), IntLit(0)), types.Typ[types.Bool]}, nil
	case "trimSpace", "toLower", "toUpper":
		// the same uninterpreted functions the executor uses for strings.TrimSpace / ToLower / ToUpper
		a, err := e.evalTerm(env, n.Args[0])
		if err != nil {
			return TV{}, err
		}
		fn := map[string]string{"trimSpace": "str.trimspace", "toLower": "str.tolower", "toUpper": "str.toupper"}[n.Fun]
		e.u.DeclareFun(fn, []string{SString}, SString)
		return TV{App(fn, SString, a), types.Typ[types.String]}, nil
	case "equalFold":
		a, err := e.evalTerm(env, n.Args[0])
		if err != nil {
			return TV{}, err
		}
		b, err := e.evalTerm(env, n.Args[1])
		if err != nil {
			return TV{}, err
		}
		e.u.DeclareFun("str.tolower", []string{SString}, SString)
		return TV{Eq(App("str.tolower", SString, a), App("str.tolower", SString, b)), types.Typ[types.Bool]}, nil
	case "hasPrefix":
		a, err := e.evalTerm(env, n.Args[0])
		if err != nil {
			return TV{}, err
		}
		b, err := e.evalTerm(env, n.Args[1])
		if err != nil {
			return TV{}, err
		}
		return TV{App("str.prefixof", SBool, b, a), types.Typ[types.Bool]}, nil
	case "hasSuffix":
		a, err := e.evalTerm(env, n.Args[0])
		if err != nil {
			return TV{}, err
		}
		b, err := e.evalTerm(env, n.Args[1])
		if err != nil {
			return TV{}, err
		}
		return TV{App("str.suffixof", SBool, b, a), types.Typ[types.Bool]}, nil
	case "has":
		// has(m, k): key k is present in map m
		mv, err := e.eval(env, n.Args[0])
		if err != nil {
			return TV{}, err
		}
		mt, ok := mv.T.Underlying().(*types.Map)
		if !ok {
			return TV{}, fmt.Errorf("has(): not a map")
		}
		m, err := s.toTerm(mv.V)
		if err != nil {
			return TV{}, err
		}
		k, err := e.evalTerm(env, n.Args[1])
		if err != nil {
			return TV{}, err
		}
		dk, _, _ := e.mapHeapKeys(mt)
		domH := e.heapIn(env, dk, e.heapSorts[dk])
		return TV{And(Not(Eq(m, IntLit(0))), Select(Select(domH, m), k)), types.Typ[types.Bool]}, nil
	case "elemHolds":
		// elemHolds(e, "*T"): list element e is non-nil and its Value is a non-nil *T
		ev, err := e.eval(env, n.Args[0])
		if err != nil {
			return TV{}, err
		}
		ep, ok := ev.V.(*Ptr)
		if !ok || ep.Kind != pkObj {
			return TV{}, fmt.Errorf("elemHolds(): not a *list.Element")
		}
		ts, ok := n.Args[1].(*EStr)
		if !ok {
			return TV{}, fmt.Errorf("elemHolds(e, \"T\")")
		}
		ty, _, err := e.resolveType(env, ts.Val)
		if err != nil {
			return TV{}, err
		}
		vp, ok := elementValuePtr(ep)
		if !ok {
			return TV{}, fmt.Errorf("elemHolds(): no Value field")
		}
		val, err := e.loadIn(env, vp)
		if err != nil {
			return TV{}, err
		}
		vt, err := s.toTerm(val)
		if err != nil {
			return TV{}, err
		}
		return TV{And(Not(Eq(ep.Ref, IntLit(0))), Eq(App("i-type", SInt, vt), IntLit(int64(e.tm.TypeID(ty)))), Not(Eq(App("i-val", SInt, vt), IntLit(0)))), types.Typ[types.Bool]}, nil
	case "held":
		// held(mu): mutex at pointer expression is held on this path
		v, err := e.evalAddr(env, n.Args[0])
		if err != nil {
			return TV{}, err
		}
		if s.locks[ptrString(v)] {
			return TV{TTrue, types.Typ[types.Bool]}, nil
		}
		return TV{TFalse, types.Typ[types.Bool]}, nil
	}
	// conversions
	if ty, ok := basicTypeNames[n.Fun]; ok && len(n.Args) == 1 {
		v, err := e.evalTerm(env, n.Args[0])
		if err != nil {
			return TV{}, err
		}
		if bt := basicOf(ty); bt != nil && bt.Info()&types.IsInteger != 0 && v.Sort == SInt {
			return TV{wrapInt(v, bt), ty}, nil
		}
		return TV{v, ty}, nil
	}
	if n.Fun == "mathint" && len(n.Args) == 1 {
		v, err := e.evalTerm(env, n.Args[0])
		return TV{v, nil}, err
	}
	if tv, handled, err := e.brSpec(env, n.Fun, n.Args); handled {
		return tv, err
	}
	if tv, handled, err := e.listSpec(env, n.Fun, n.Args); handled {
		return tv, err
	}
	if tv, handled, err := e.opsSpec(env, n.Fun, n.Args); handled {
		return tv, err
	}
	if tv, handled, err := e.ghostSpec(env, n.Fun, n.Args); handled {
		return tv, err
	}
	if tv, handled, err := e.addonSpec(env, n.Fun, n.Args); handled {
		return tv, err
	}
	if tv, handled, err := e.arraySpec(env, n.Fun, n.Args); handled {
		return tv, err
	}
	if tv, handled, err := e.bufSpec(env, n.Fun, n.Args); handled {
		return tv, err
	}
	if tv, handled, err := e.rangeSpec(env, n.Fun, n.Args); handled { // models_coord.go
		return tv, err
	}
	if tv, handled, err := e.timeSpec(env, n.Fun, n.Args); handled { // models_coord.go
		return tv, err
	}
	if tv, handled, err := e.freshSpec(env, n.Fun, n.Args); handled { // models_coord.go
		return tv, err
	}
	if n.Fun == "as" && len(n.Args) == 2 {
		// as(x, "*T"): the pointer held by interface value x, read as *T (no check: use together with a type fact)
		ts, ok := n.Args[1].(*EStr)
		if !ok {
			return TV{}, fmt.Errorf("as(x, \"T\"): second argument must be a type string")
		}
		ty, _, err := e.resolveType(env, ts.Val)
		if err != nil {
			return TV{}, err
		}
		x, err := e.evalTerm(env, n.Args[0])
		if err != nil {
			return TV{}, err
		}
		if x.Sort != SIface {
			return TV{}, fmt.Errorf("as(): not an interface value")
		}
		return TV{s.fromTerm(App("i-val", SInt, x), ty), ty}, nil
	}
	if tv, handled, err := e.bmainSpec(env, n.Fun, n.Args); handled {
		return tv, err
	}
	// spec functions
	if sf, ok := e.cs.Specs[n.Fun]; ok {
		return e.evalSpecCall(env, sf, n.Args)
	}
	return TV{}, fmt.Errorf("unknown function %q in contract", n.Fun)
}

func orNil(t types.Type) types.Type {
	if t == nil {
		return types.Typ[types.Int]
	}
	return t
}

// evalAddr evaluates an expression denoting a location (x.f) to a pointer.
func (e *Engine) evalAddr(env *Env, x Expr) (*Ptr, error) {
	switch n := x.(type) {
	case *ESel:
		v, err := e.eval(env, n.X)
		if err != nil {
			return nil, err
		}
		p, ok := v.V.(*Ptr)
		if !ok {
			return nil, fmt.Errorf("address of field of non-pointer")
		}
		st, ok := p.Elem.Underlying().(*types.Struct)
		if !ok {
			return nil, fmt.Errorf("address of field of non-struct")
		}
		idx, emb := findField(st, n.Name)
		if idx < 0 || emb != nil {
			return nil, fmt.Errorf("no direct field %s", n.Name)
		}
		return &Ptr{Kind: pkField, Base: p, Field: idx, Elem: st.Field(idx).Type()}, nil
	}
	return nil, fmt.Errorf("not addressable in contract")
}

// evalSpecCall: macro expansion for defined spec functions, UF application otherwise.
func (e *Engine) evalSpecCall(env *Env, sf *SpecFunc, args []Expr) (TV, error) {
	if len(args) != len(sf.Params) {
		return TV{}, fmt.Errorf("spec func %s: want %d args", sf.Name, len(sf.Params))
	}
	var avs []TV
	for _, a := range args {
		v, err := e.eval(env, a)
		if err != nil {
			return TV{}, err
		}
		avs = append(avs, v)
	}
	specEnv := &Env{s: env.s, fr: nil, vars: map[string]Value{}, vtypes: map[string]types.Type{}, old: env.old, pkg: env.pkg, inOld: env.inOld}
	if sf.Pkg != "" {
		// type names inside a spec function resolve in the package that declares it
		for _, p := range e.prog.AllPackages() {
			if p.Pkg.Path() == sf.Pkg {
				specEnv.pkg = p.Pkg
				break
			}
		}
	}
	if sf.Body != nil && !(sf.Opaque && !e.revealed(sf.Name)) {
		for i, p := range sf.Params {
			ty, _, err := e.resolveType(specEnv, p.Type)
			if err != nil {
				return TV{}, fmt.Errorf("spec func %s: %v", sf.Name, err)
			}
			v := avs[i]
			if t, ok := v.V.(Term); ok {
				if env.s.quant == 0 {
					v.V = e.u.Define("sp."+p.Name, t)
				}
				if ty != nil {
					v.V = env.s.fromTerm(v.V.(Term), ty)
				}
			}
			specEnv.vars[p.Name] = v.V
			specEnv.vtypes[p.Name] = ty
		}
		r, err := e.eval(specEnv, sf.Body)
		if err != nil {
			return TV{}, fmt.Errorf("in spec func %s: %v", sf.Name, err)
		}
		rty, _, _ := e.resolveType(specEnv, sf.Ret)
		if rty != nil {
			r.T = rty
		}
		return r, nil
	}
	// uninterpreted
	var sorts []string
	var ats []Term
	for i, p := range sf.Params {
		_, so, err := e.resolveType(specEnv, p.Type)
		if err != nil {
			return TV{}, fmt.Errorf("spec func %s: %v", sf.Name, err)
		}
		sorts = append(sorts, so)
		t, err := env.s.toTerm(avs[i].V)
		if err != nil {
			return TV{}, err
		}
		ats = append(ats, t)
	}
	rty, rs, err := e.resolveType(specEnv, sf.Ret)
	if err != nil {
		return TV{}, fmt.Errorf("spec func %s: %v", sf.Name, err)
	}
	name := "spec." + sf.Name
	e.u.DeclareFun(name, sorts, rs)
	e.attachAxioms(env, sf.Name)
	r := App(name, rs, ats...)
	if rty != nil {
		return TV{env.s.fromTerm(r, rty), rty}, nil
	}
	return TV{r, nil}, nil
}

// attachAxioms instantiates axioms declared "on" a spec function the first time it is used.
func (e *Engine) attachAxioms(env *Env, sym string) {
	if e.specCache["ax:"+sym] {
		return
	}
	e.specCache["ax:"+sym] = true
	for _, ax := range e.cs.Axioms {
		for _, on := range ax.Syms {
			if on == sym {
				axEnv := &Env{s: env.s, vars: map[string]Value{}, vtypes: map[string]types.Type{}, pkg: env.pkg}
				t, err := e.evalBool(axEnv, ax.Clause.Expr)
				if err != nil {
					e.bail("axiom %s: %v", ax.Name, err)
				}
				e.u.AddAxiom("spec."+sym, t)
				e.abstract("axiom " + ax.Name + " (assumed)")
			}
		}
	}
}

var _ = token.NoPos

// revealed: an opaque spec function is expanded only in roots whose contract says "reveal name".
func (e *Engine) revealed(name string) bool {
	if e.rootContract == nil {
		return false
	}
	for _, n := range strings.Split(e.rootContract.Flags["reveal"], ",") {
		if strings.TrimSpace(n) == name {
			return true
		}
	}
	return false
}
