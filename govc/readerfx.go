package main

// Static effect analysis for the reader model: which reader's position a region
// of code advances (a parameter, a reader created inside the region, or some other one).

import (
	"go/token"

	"golang.org/x/tools/go/ssa"
)

type valOrigin struct {
	kind  string // "param" | "fresh" | "cell" | "other"
	param int
	cell  *ssa.Alloc // kind "cell": a local variable of the function holding the value
}

func isNewReaderCall(v ssa.Value) bool {
	c, ok := v.(*ssa.Call)
	if !ok {
		return false
	}
	callee := c.Common().StaticCallee()
	if callee == nil {
		return false
	}
	switch funcKey(callee) {
	case "bytes.NewReader", "bufio.NewReader", "bufio.NewReaderSize":
		return true
	}
	return false
}

// originOf classifies where a pointer/slice value comes from, looking through NaiveForm cells.
func originOf(v ssa.Value, fn *ssa.Function, inRegion func(ssa.Instruction) bool) valOrigin {
	if mi, ok := v.(*ssa.MakeInterface); ok {
		v = mi.X
	}
	if ch, ok := v.(*ssa.ChangeType); ok {
		v = ch.X
	}
	switch x := v.(type) {
	case *ssa.Parameter:
		for i, p := range fn.Params {
			if p == x {
				return valOrigin{kind: "param", param: i}
			}
		}
	case *ssa.Call:
		if isNewReaderCall(x) && inRegion(x) {
			return valOrigin{kind: "fresh"}
		}
	case *ssa.MakeSlice:
		if inRegion(x) {
			return valOrigin{kind: "fresh"}
		}
	case *ssa.UnOp:
		if x.Op != token.MUL {
			break
		}
		al, ok := x.X.(*ssa.Alloc)
		if !ok || al.Referrers() == nil {
			break
		}
		var res *valOrigin
		for _, ref := range *al.Referrers() {
			st, ok := ref.(*ssa.Store)
			if !ok || st.Addr != al {
				continue
			}
			o := originOf(st.Val, fn, inRegion)
			if res == nil {
				res = &o
			} else if *res != o {
				return valOrigin{kind: "other"}
			}
		}
		if res != nil && res.kind != "other" {
			return *res
		}
		if !al.Heap {
			// a local variable whose value was produced outside the region: identify it by its cell
			return valOrigin{kind: "cell", cell: al}
		}
	}
	return valOrigin{kind: "other"}
}

// readerOpArg: for calls that advance a reader of the model, the index of the argument holding the reader.
func readerOpArg(f *ssa.Function) (int, bool) {
	if f.Pkg == nil {
		return 0, false
	}
	p := f.Pkg.Pkg.Path()
	switch {
	case (p == "bufio" || p == "bytes") && f.Signature.Recv() != nil && isReaderType(f.Signature.Recv().Type(), p, "Reader"):
		return 0, true
	case p == "io" && f.Name() == "ReadFull":
		return 0, true
	case p == "encoding/binary" && f.Name() == "Read":
		return 0, true
	}
	return 0, false
}
