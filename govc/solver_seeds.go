package main

// Seed sweep: a last attempt for obligations that no solver of the portfolio decided. Quantifier-heavy queries
// are often unstable (the same query is proved in 2 s with one random seed and not in 60 s with another), so the
// undecided query is raced on z3 5.1 with a few different seeds, with and without array extensionality. Only an
// "unsat" answer is used (it is a proof whatever the seed); everything else leaves the obligation undecided.

import (
	"context"
	"fmt"
	"os"
	"os/exec"
	"path/filepath"
	"strings"
	"time"
)

func solveSeeds(workdir, name, query string, timeoutSec int) SolverResult {
	start := time.Now()
	ctx, cancel := context.WithCancel(context.Background())
	defer cancel()
	file := filepath.Join(workdir, sanitize(name)+".seeds.smt2")
	if err := os.WriteFile(file, []byte(query), 0o644); err != nil {
		return SolverResult{Status: "error", Solver: "seed-sweep", Output: err.Error()}
	}
	defer func() {
		if os.Getenv("GOVC_KEEP") == "" {
			os.Remove(file)
		}
	}()
	type variant struct {
		seed  int
		noext bool
	}
	variants := []variant{{1, false}, {2, true}, {3, false}, {5, true}, {7, false}, {11, true}}
	ch := make(chan SolverResult, len(variants))
	for _, v := range variants {
		v := v
		go func() {
			solverSem <- struct{}{}
			defer func() { <-solverSem }()
			if ctx.Err() != nil {
				ch <- SolverResult{Status: "cancelled"}
				return
			}
			argv := []string{"z3-new", fmt.Sprintf("-T:%d", timeoutSec), fmt.Sprintf("smt.random_seed=%d", v.seed), fmt.Sprintf("sat.random_seed=%d", v.seed)}
			label := fmt.Sprintf("z3-new-5.1.0-seed%d", v.seed)
			if v.noext {
				argv = append(argv, "smt.array.extensional=false")
				label += "-noext"
			}
			argv = append(argv, "-smt2", file)
			cctx, ccancel := context.WithTimeout(ctx, time.Duration(timeoutSec+2)*time.Second)
			defer ccancel()
			out, _ := exec.CommandContext(cctx, argv[0], argv[1:]...).CombinedOutput()
			first := strings.TrimSpace(strings.SplitN(string(out), "\n", 2)[0])
			r := SolverResult{Solver: label, Output: string(out), Status: "unknown"}
			if first == "unsat" {
				r.Status = "unsat"
			}
			ch <- r
		}()
	}
	res := SolverResult{Status: "unknown", Solver: "none"}
	for range variants {
		r := <-ch
		if r.Status == "unsat" && res.Status != "unsat" {
			res = r
			cancel()
		}
	}
	res.Secs = time.Since(start).Seconds()
	return res
}
