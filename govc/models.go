package main

// Built-in models of external (stdlib / third-party) functions. Every model
// is part of the trusted base and is listed in the evidence when used.

import (
	"fmt"
	"go/types"
	"strings"

	"golang.org/x/tools/go/ssa"
)

func (e *Engine) trustModel(key string) {
	e.abstract("model of " + key + " (trusted)")
}

// errorValue returns a fresh non-nil error value.
func (e *Engine) errorValue(s *State, hint string) Term {
	tid := IntLit(int64(e.tm.TypeID(types.NewPointer(types.Universe.Lookup("error").Type()))))
	return App("mk-iface", SIface, tid, e.newRef())
}

func (e *Engine) byteSliceParts(s *State, sl Term) (arr Term, off, ln Term) {
	key, sort := e.memKey(types.Typ[types.Uint8])
	h := s.heapGet(key, sort)
	return Select(h, App("s-base", SInt, sl)), App("s-off", SInt, sl), App("s-len", SInt, sl)
}

func (e *Engine) beRead(s *State, sl Term, n int, at Term) Term {
	arr, off, _ := e.byteSliceParts(s, sl)
	var r Term = IntLit(0)
	for i := 0; i < n; i++ {
		b := Select(arr, Add(Add(off, at), IntLit(int64(i))))
		s.assume(And(Le(IntLit(0), b), Le(b, IntLit(255))))
		r = Add(Mul(r, IntLit(256)), b)
	}
	return r
}

func (e *Engine) leRead(s *State, sl Term, n int, at Term) Term {
	arr, off, _ := e.byteSliceParts(s, sl)
	var r Term = IntLit(0)
	for i := n - 1; i >= 0; i-- {
		b := Select(arr, Add(Add(off, at), IntLit(int64(i))))
		s.assume(And(Le(IntLit(0), b), Le(b, IntLit(255))))
		r = Add(Mul(r, IntLit(256)), b)
	}
	return r
}

func (e *Engine) lenObl(s *State, fr *Frame, site ssa.Instruction, sl Term, n int, what string) {
	name := fmt.Sprintf("%s#safety:%s", shortKey(funcKey(fr.fn)), e.siteName(site, "call"))
	g := Ge(App("s-len", SInt, sl), IntLit(int64(n)))
	s.addObligation("safety", name, "", site.Pos(), g, what+": slice shorter than "+fmt.Sprint(n)+" bytes (index out of range)")
	s.assume(g)
}

// modelCall returns (value, successors, handled, done).
func (e *Engine) modelCall(s *State, fr *Frame, dst *ssa.Call, key string, f *ssa.Function, args []Value, site ssa.Instruction) (Value, []*State, bool, bool) {
	if v, ok := e.modelBmain(s, fr, key, f, args, site); ok {
		return v, nil, true, false
	}
	switch key {
	case "encoding/binary.bigEndian.Uint16", "encoding/binary.bigEndian.Uint32", "encoding/binary.bigEndian.Uint64",
		"encoding/binary.littleEndian.Uint16", "encoding/binary.littleEndian.Uint32", "encoding/binary.littleEndian.Uint64":
		e.trustModel(key)
		n := 2
		if strings.HasSuffix(key, "32") {
			n = 4
		} else if strings.HasSuffix(key, "64") {
			n = 8
		}
		sl := args[1].(Term)
		e.lenObl(s, fr, site, sl, n, shortKey(key))
		var r Term
		if strings.Contains(key, "bigEndian") {
			r = e.beRead(s, sl, n, IntLit(0))
		} else {
			r = e.leRead(s, sl, n, IntLit(0))
		}
		return e.u.Define("be", r), nil, true, false
	case "encoding/binary.bigEndian.PutUint16", "encoding/binary.bigEndian.PutUint32", "encoding/binary.bigEndian.PutUint64":
		e.trustModel(key)
		n := 2
		if strings.HasSuffix(key, "32") {
			n = 4
		} else if strings.HasSuffix(key, "64") {
			n = 8
		}
		sl := args[1].(Term)
		v := args[2].(Term)
		e.lenObl(s, fr, site, sl, n, shortKey(key))
		mkey, msort := e.memKey(types.Typ[types.Uint8])
		h := s.heapGet(mkey, msort)
		base, off := App("s-base", SInt, sl), App("s-off", SInt, sl)
		arr := Select(h, base)
		for i := 0; i < n; i++ {
			shift := pow2(uint(8 * (n - 1 - i)))
			b := App("mod", SInt, App("div", SInt, v, BigLit(shift)), IntLit(256))
			arr = Store(arr, Add(off, IntLit(int64(i))), b)
		}
		s.heapSet(mkey, Store(h, base, e.u.Define("put", arr)))
		return nil, nil, true, false
	case "encoding/binary.Uvarint", "encoding/binary.Varint":
		// exact model of encoding/binary.Uvarint (the 10-step loop unrolled completely)
		e.trustModel(key + " (exact unrolling of the stdlib loop)")
		sl := args[0].(Term)
		arr, off, ln := e.byteSliceParts(s, sl)
		arr = e.u.Define("uvarr", arr)
		off = e.u.Define("uvoff", off)
		ln = e.u.Define("uvlen", ln)
		// build from the last step backwards: (val, n) at step i with accumulator acc_i
		accs := make([]Term, 11)
		accs[0] = IntLit(0)
		bytesT := make([]Term, 11)
		for i := 0; i < 10; i++ {
			bt := e.u.Define(fmt.Sprintf("uvb%d", i), Select(arr, Add(off, IntLit(int64(i)))))
			bytesT[i] = bt
			accs[i+1] = e.u.Define(fmt.Sprintf("uvacc%d", i+1), Add(accs[i], Mul(Sub(bt, IntLit(128)), BigLit(pow2(uint(7*i))))))
		}
		val, n := Term(IntLit(0)), Term(IntLit(-11)) // i == MaxVarintLen64
		for i := 9; i >= 0; i-- {
			bt := bytesT[i]
			done := Lt(bt, IntLit(128))
			var dv, dn Term
			if i == 9 {
				dv = Ite(Gt(bt, IntLit(1)), IntLit(0), Add(accs[i], Mul(bt, BigLit(pow2(uint(7*i))))))
				dn = Ite(Gt(bt, IntLit(1)), IntLit(-10), IntLit(10))
			} else {
				dv = Add(accs[i], Mul(bt, BigLit(pow2(uint(7*i)))))
				dn = IntLit(int64(i + 1))
			}
			exhausted := Ge(IntLit(int64(i)), ln)
			val = e.u.Define(fmt.Sprintf("uvv%d", i), Ite(exhausted, IntLit(0), Ite(done, dv, val)))
			n = e.u.Define(fmt.Sprintf("uvn%d", i), Ite(exhausted, IntLit(0), Ite(done, dn, n)))
		}
		for i := 0; i < 10; i++ {
			s.assume(Implies(Lt(IntLit(int64(i)), ln), And(Le(IntLit(0), bytesT[i]), Le(bytesT[i], IntLit(255)))))
		}
		if key == "encoding/binary.Varint" {
			// ux>>1, complemented when the low bit is set; n as for Uvarint
			half := App("div", SInt, val, IntLit(2))
			val = e.u.Define("varint", Ite(Eq(App("mod", SInt, val, IntLit(2)), IntLit(1)), Sub(IntLit(-1), half), half))
		}
		return &Tuple{Vs: []Value{val, n}}, nil, true, false
	case "fmt.Errorf", "errors.New":
		return e.errorValue(s, "err"), nil, true, false
	case "fmt.Sprintf", "fmt.Sprint":
		e.abstract("fmt.Sprintf: arbitrary string result")
		return s.fresh("sprintf", types.Typ[types.String]), nil, true, false
	case "bytes.Equal":
		e.trustModel(key)
		return e.seqEqual(s, args[0].(Term), args[1].(Term), types.Typ[types.Uint8]), nil, true, false
	case "bytes.HasPrefix":
		e.trustModel(key)
		a, p := args[0].(Term), args[1].(Term)
		pl := App("s-len", SInt, p)
		pre := App("mk-slice", SSlice, App("s-base", SInt, a), App("s-off", SInt, a), pl, pl)
		return And(Ge(App("s-len", SInt, a), pl), e.seqEqual(s, pre, p, types.Typ[types.Uint8])), nil, true, false
	case "strings.HasPrefix":
		return App("str.prefixof", SBool, args[1].(Term), args[0].(Term)), nil, true, false
	case "strings.HasSuffix":
		return App("str.suffixof", SBool, args[1].(Term), args[0].(Term)), nil, true, false
	case "strings.Contains":
		return App("str.contains", SBool, args[0].(Term), args[1].(Term)), nil, true, false
	case "strings.Index":
		return App("str.indexof", SInt, args[0].(Term), args[1].(Term), IntLit(0)), nil, true, false
	case "strings.TrimPrefix":
		a, p := args[0].(Term), args[1].(Term)
		return Ite(App("str.prefixof", SBool, p, a), App("str.substr", SString, a, App("str.len", SInt, p), Sub(App("str.len", SInt, a), App("str.len", SInt, p))), a), nil, true, false
	case "strings.TrimSuffix":
		a, p := args[0].(Term), args[1].(Term)
		return Ite(App("str.suffixof", SBool, p, a), App("str.substr", SString, a, IntLit(0), Sub(App("str.len", SInt, a), App("str.len", SInt, p))), a), nil, true, false
	case "strings.TrimSpace", "strings.ToLower", "strings.ToUpper", "strings.Title":
		fn := "str." + strings.ToLower(strings.TrimPrefix(key, "strings."))
		e.u.DeclareFun(fn, []string{SString}, SString)
		e.trustModel(key + " as an uninterpreted function")
		r := App(fn, SString, args[0].(Term))
		if key == "strings.TrimSpace" {
			s.assume(Le(App("str.len", SInt, r), App("str.len", SInt, args[0].(Term))))
			s.assume(App("str.contains", SBool, args[0].(Term), r))
		}
		return r, nil, true, false
	case "strings.EqualFold":
		e.u.DeclareFun("str.tolower", []string{SString}, SString)
		e.trustModel(key + " as equality of an uninterpreted case folding")
		return Eq(App("str.tolower", SString, args[0].(Term)), App("str.tolower", SString, args[1].(Term))), nil, true, false
	case "sync.Mutex.Lock", "sync.RWMutex.Lock", "sync.RWMutex.RLock":
		e.lockOp(s, fr, args[0], true, site)
		e.lockHavoc(s, args[0], "lock")
		return nil, nil, true, false
	case "sync.Mutex.Unlock", "sync.RWMutex.Unlock", "sync.RWMutex.RUnlock":
		e.lockOp(s, fr, args[0], false, site)
		return nil, nil, true, false
	case "time.Now":
		e.abstract("time.Now: arbitrary time value")
		return s.fresh("now", f.Signature.Results().At(0).Type()), nil, true, false
	case "golang.org/x/sync/errgroup.WithContext":
		e.trustModel("errgroup: Go(f) runs f (modelled sequentially, in call order); Wait returns an arbitrary error or nil")
		rt := f.Signature.Results()
		g := &Ptr{Kind: pkObj, Ref: e.newRef(), Elem: rt.At(0).Type().(*types.Pointer).Elem()}
		ctx := e.u.Fresh("gctx", SIface)
		s.assume(Not(Eq(App("i-type", SInt, ctx), IntLit(0))))
		return &Tuple{Vs: []Value{g, ctx}}, nil, true, false
	case "golang.org/x/sync/errgroup.Group.Go":
		e.abstract("errgroup.Group.Go: the function runs to completion at the call (goroutine interleavings with the caller are not modelled)")
		switch fv := args[1].(type) {
		case *Closure:
			succ, done := e.callFunction(s, fr, nil, fv.Fn, nil, fv.Bindings, site, "errgroup.body#0", dstCommon(site))
			return nil, succ, true, done
		case *FuncRef:
			succ, done := e.callFunction(s, fr, nil, fv.Fn, nil, nil, site, "errgroup.body#0", dstCommon(site))
			return nil, succ, true, done
		}
		return nil, nil, false, false
	case "golang.org/x/sync/errgroup.Group.Wait":
		return s.fresh("groupwait", f.Signature.Results().At(0).Type()), nil, true, false
	case "strconv.FormatInt":
		// opt-in (root flag exact_format_int): strconv.FormatInt(x, 10) is the decimal numeral of x
		if e.rootContract == nil || e.rootContract.Flags["exact_format_int"] == "" {
			return nil, nil, false, false
		}
		if b, ok := args[1].(Term); ok {
			if n, ok := litValue(b); ok && n.IsInt64() && n.Int64() == 10 {
				e.trustModel("strconv.FormatInt(x, 10) as the SMT decimal numeral of x (str.from_int, with a leading '-' for negative x)")
				return decimalOf(args[0].(Term)), nil, true, false
			}
		}
		return nil, nil, false, false
	case "sync.Cond.Wait":
		if mu, _ := e.lockHavocSpec(); mu == "" {
			return nil, nil, false, false
		}
		e.condWaitHavoc(s, args[0])
		return nil, nil, true, false
	case "sync.Cond.Broadcast", "sync.Cond.Signal", "sync.WaitGroup.Add", "sync.WaitGroup.Done", "sync.WaitGroup.Wait",
		"golang.org/x/sync/semaphore.Weighted.Release", "sync.Once.Do":
		if key == "sync.Once.Do" {
			return nil, nil, false, false
		}
		return nil, nil, true, false
	case "golang.org/x/sync/semaphore.Weighted.Acquire":
		return s.fresh("semacquire", f.Signature.Results().At(0).Type()), nil, true, false
	case "golang.org/x/sync/semaphore.Weighted.TryAcquire":
		return s.fresh("semtry", types.Typ[types.Bool]), nil, true, false
	case "sync.NewCond":
		rt := f.Signature.Results().At(0).Type().(*types.Pointer)
		return &Ptr{Kind: pkObj, Ref: e.newRef(), Elem: rt.Elem()}, nil, true, false
	case "errors.Is":
		a, b := args[0].(Term), args[1].(Term)
		r := e.u.Fresh("errorsIs", SBool)
		s.assume(Implies(Eq(a, b), r))
		s.assume(Implies(And(Eq(App("i-type", SInt, a), IntLit(0)), Not(Eq(App("i-type", SInt, b), IntLit(0)))), Not(r)))
		return r, nil, true, false
	case "hash/crc32.Checksum", "hash/crc32.ChecksumIEEE":
		sl := args[0].(Term)
		arr, off, ln := e.byteSliceParts(s, sl)
		e.u.DeclareFun("crc32", []string{ArraySort(SInt, SInt), SInt, SInt}, SInt)
		e.trustModel("crc32 as an uninterpreted function of the byte sequence")
		r := e.u.Define("crc", App("crc32", SInt, arr, off, ln))
		s.assume(e.tm.TypeFacts(r, types.Typ[types.Uint32]))
		return r, nil, true, false
	}
	return nil, nil, false, false
}

func (e *Engine) modelIfaceCall(s *State, fr *Frame, key string, cc *ssa.CallCommon, recv Term, args []Value, site ssa.Instruction) (Value, bool) {
	switch key {
	case "error.Error":
		return s.fresh("errstr", types.Typ[types.String]), true
	}
	return nil, false
}

// seqEqual: extensional equality of two slices as a Bool term.
func (e *Engine) seqEqual(s *State, a, b Term, elem types.Type) Term {
	key, sort := e.memKey(elem)
	h := s.heapGet(key, sort)
	la, lb := App("s-len", SInt, a), App("s-len", SInt, b)
	// literal length on either side: expand elementwise (no quantifier)
	for _, l := range []Term{la, lb} {
		if n, ok := litValue(l); ok && n.IsInt64() && n.Int64() >= 0 && n.Int64() <= 64 {
			arrA, offA := Select(h, App("s-base", SInt, a)), App("s-off", SInt, a)
			arrB, offB := Select(h, App("s-base", SInt, b)), App("s-off", SInt, b)
			cs := []Term{Eq(la, lb)}
			for i := int64(0); i < n.Int64(); i++ {
				cs = append(cs, Eq(Select(arrA, Add(offA, IntLit(i))), Select(arrB, Add(offB, IntLit(i)))))
			}
			return e.u.Define("seqeq", And(cs...))
		}
	}
	body := fmt.Sprintf("(forall ((k Int)) (=> (and (<= 0 k) (< k %s)) (= (select (select %s %s) (+ %s k)) (select (select %s %s) (+ %s k)))))",
		la.S, h.S, App("s-base", SInt, a).S, App("s-off", SInt, a).S, h.S, App("s-base", SInt, b).S, App("s-off", SInt, b).S)
	return e.u.Define("seqeq", And(Eq(la, lb), Term{body, SBool}))
}

// litSmall returns the value of a literal term in [0, 64].
func litSmall(t Term) (int64, bool) {
	if n, ok := litValue(t); ok && n.IsInt64() && n.Int64() >= 0 && n.Int64() <= 64 {
		return n.Int64(), true
	}
	return 0, false
}

// lockOp tracks mutexes held on the current path (used by lockset obligations).
func (e *Engine) lockOp(s *State, fr *Frame, mu Value, lock bool, site ssa.Instruction) {
	p, ok := mu.(*Ptr)
	if !ok {
		return
	}
	id := ptrString(p)
	if lock {
		s.locks[id] = true
	} else {
		delete(s.locks, id)
	}
}

func ptrString(p *Ptr) string {
	switch p.Kind {
	case pkObj:
		return "obj(" + p.Ref.S + ")"
	case pkField:
		return fmt.Sprintf("%s.f%d", ptrString(p.Base), p.Field)
	case pkCell:
		return fmt.Sprintf("cell%d", p.Cell)
	case pkElem:
		return fmt.Sprintf("elem(%s,%s)", p.Ref.S, p.Idx.S)
	case pkGlobal:
		return "glob." + p.Glob.Name()
	}
	return "?"
}

// ---------------------------------------------------------------------------
// Maps

func (e *Engine) mapHeapKeys(mt *types.Map) (dom, val, ln string) {
	k := elemKeyName(mt.Key())
	v := elemKeyName(mt.Elem())
	dom = "MapDom|" + k + "|" + v
	val = "MapVal|" + k + "|" + v
	ln = "MapLen"
	ks, vs := e.tm.SortOf(mt.Key()), e.tm.SortOf(mt.Elem())
	if _, ok := e.heapValKind[dom]; !ok {
		e.heapValKind[dom] = ""
		e.heapValKind[val] = ""
		e.heapGoType[val] = mt.Elem()
		e.heapSorts[dom] = ArraySort(SInt, ArraySort(ks, SBool))
		e.heapSorts[val] = ArraySort(SInt, ArraySort(ks, vs))
	}
	if _, ok := e.heapValKind[ln]; !ok {
		e.heapValKind[ln] = ""
		e.heapSorts[ln] = ArraySort(SInt, SInt)
	}
	return
}

func (e *Engine) mapParts(s *State, mt *types.Map) (domH, valH, lenH Term, dk, vk, lk string) {
	dk, vk, lk = e.mapHeapKeys(mt)
	domH = s.heapGet(dk, e.heapSorts[dk])
	valH = s.heapGet(vk, e.heapSorts[vk])
	lenH = s.heapGet(lk, e.heapSorts[lk])
	return
}

func (e *Engine) execMakeMap(s *State, fr *Frame, x *ssa.MakeMap) {
	mt := x.Type().Underlying().(*types.Map)
	domH, _, lenH, dk, _, lk := e.mapParts(s, mt)
	ref := e.newRef()
	ks := e.tm.SortOf(mt.Key())
	empty := Term{fmt.Sprintf("((as const %s) false)", ArraySort(ks, SBool)), ArraySort(ks, SBool)}
	s.heapSet(dk, Store(domH, ref, empty))
	s.heapSet(lk, Store(lenH, ref, IntLit(0)))
	s.set(fr, x, ref)
}

func (e *Engine) execMapUpdate(s *State, fr *Frame, x *ssa.MapUpdate) {
	mt := x.Map.Type().Underlying().(*types.Map)
	m := s.term(fr, x.Map)
	k := s.term(fr, x.Key)
	v := s.term(fr, x.Value)
	name := fmt.Sprintf("%s#safety:%s", shortKey(funcKey(fr.fn)), e.siteName(x, "mapupdate"))
	nn := Not(Eq(m, IntLit(0)))
	s.addObligation("safety", name, "", x.Pos(), nn, "assignment to entry in nil map")
	s.assume(nn)
	e.applyMapUpdateAnchors(s, fr, x, k, v)
	e.mapLenFacts(s, mt, m, k) // models_coord.go: len >= 0, key present ==> len >= 1
	e.rangeAliasCheck(s, fr, x, m) // models_coord.go: not the map being ranged over
	domH, valH, lenH, dk, vk, lk := e.mapParts(s, mt)
	dom := Select(domH, m)
	had := Select(dom, k)
	s.heapSet(lk, Store(lenH, m, Ite(had, Select(lenH, m), Add(Select(lenH, m), IntLit(1)))))
	s.heapSet(dk, Store(domH, m, Store(dom, k, TTrue)))
	s.heapSet(vk, Store(valH, m, Store(Select(valH, m), k, v)))
}

func (e *Engine) mapDelete(s *State, fr *Frame, cc *ssa.CallCommon, args []Value) {
	mt := cc.Args[0].Type().Underlying().(*types.Map)
	m, _ := s.toTerm(args[0])
	k, _ := s.toTerm(args[1])
	domH, _, lenH, dk, _, lk := e.mapParts(s, mt)
	dom := Select(domH, m)
	had := And(Not(Eq(m, IntLit(0))), Select(dom, k))
	s.heapSet(lk, Store(lenH, m, Ite(had, Sub(Select(lenH, m), IntLit(1)), Select(lenH, m))))
	s.heapSet(dk, Store(domH, m, Store(dom, k, TFalse)))
}

func (e *Engine) execLookup(s *State, fr *Frame, x *ssa.Lookup) {
	switch mt := x.X.Type().Underlying().(type) {
	case *types.Map:
		m := s.term(fr, x.X)
		k := s.term(fr, x.Index)
		domH, valH, _, _, _, _ := e.mapParts(s, mt)
		e.mapLenFacts(s, mt, m, k) // models_coord.go: len >= 0, key present ==> len >= 1
		has := And(Not(Eq(m, IntLit(0))), Select(Select(domH, m), k))
		raw := Select(Select(valH, m), k)
		zero, err := s.toTerm(s.zeroValue(mt.Elem()))
		if err != nil {
			e.bail("lookup: %v", err)
		}
		v := e.u.Define("mapv", Ite(has, raw, zero))
		s.assumeLoaded(v, mt.Elem())
		s.assumeNotFreshLoaded(v, mt.Elem())
		val := s.fromTerm(v, mt.Elem())
		if x.CommaOk {
			s.set(fr, x, &Tuple{Vs: []Value{val, e.u.Define("mapok", has)}})
		} else {
			s.set(fr, x, val)
		}
	default:
		// string index handled by ssa.Index normally; Lookup on string
		str := s.term(fr, x.X)
		idx := s.term(fr, x.Index)
		e.boundsObl(s, fr, x, And(Le(IntLit(0), idx), Lt(idx, App("str.len", SInt, str))), "string index out of range")
		c := e.u.Define("ch", App("str.to_code", SInt, App("str.at", SString, str, idx)))
		s.assume(And(Le(IntLit(0), c), Le(c, IntLit(255))))
		s.set(fr, x, c)
	}
}

// assumeNotFreshLoaded: values read out of maps created before cannot be refs allocated later.
func (s *State) assumeNotFreshLoaded(t Term, ty types.Type) {
	s.assumeNotFresh(t, ty)
}

// Range/Next: iteration over maps and strings. The iterator is an engine value.
type rangeIter struct {
	isMap bool
	mt    *types.Map
	m     Term
	str   Term
	pos   Term
}

func (e *Engine) execRange(s *State, fr *Frame, x *ssa.Range) {
	switch mt := x.X.Type().Underlying().(type) {
	case *types.Map:
		s.set(fr, x, &rangeIter{isMap: true, mt: mt, m: s.term(fr, x.X)})
		e.rangeInit(s, x, mt) // models_coord.go: per-loop ghosts (keys seen, count)
	default:
		s.set(fr, x, &rangeIter{str: s.term(fr, x.X), pos: IntLit(0)})
	}
}

func (e *Engine) execNext(s *State, fr *Frame, x *ssa.Next) ([]*State, bool) {
	it, ok := s.get(fr, x.Iter).(*rangeIter)
	if !ok {
		e.bail("Next on non-iterator")
	}
	tt := x.Type().(*types.Tuple)
	if it.isMap {
		// an arbitrary iteration: either done, or some key in the domain
		okv := e.u.Fresh("rangeok", SBool)
		domH, valH, lenH, _, _, _ := e.mapParts(s, it.mt)
		k := s.fresh("rangekey", it.mt.Key())
		kt, _ := s.toTerm(k)
		s.assume(Implies(okv, And(Not(Eq(it.m, IntLit(0))), Select(Select(domH, it.m), kt))))
		s.assume(Implies(okv, Ge(Select(lenH, it.m), IntLit(1))))
		vt := Select(Select(valH, it.m), kt)
		s.assumeLoaded(vt, it.mt.Elem())
		s.assumeNotFresh(vt, it.mt.Elem())
		v := s.fromTerm(e.u.Define("rangeval", vt), it.mt.Elem())
		e.abstract("range over map: each iteration sees an arbitrary key of the domain (visit-once not modelled)")
		_ = tt
		e.rangeNextFacts(s, fr, x, it, okv, kt) // models_coord.go: at-most-once / all-visited facts where sound
		s.set(fr, x, &Tuple{Vs: []Value{okv, k, v}})
		return nil, false
	}
	// string iteration: arbitrary position, rune arbitrary
	e.abstract("range over string: arbitrary rune positions")
	okv := e.u.Fresh("rangeok", SBool)
	pos := s.fresh("rangepos", types.Typ[types.Int]).(Term)
	s.assume(Implies(okv, And(Le(IntLit(0), pos), Lt(pos, App("str.len", SInt, it.str)))))
	r := s.fresh("rune", types.Typ[types.Rune])
	s.set(fr, x, &Tuple{Vs: []Value{okv, pos, r}})
	return nil, false
}
