package main

import (
	"fmt"
	"os"

	"golang.org/x/tools/go/packages"
	"golang.org/x/tools/go/ssa"
	"golang.org/x/tools/go/ssa/ssautil"
)

func main() {
	dir := os.Args[1]
	pat := os.Args[2]
	fn := os.Args[3]
	cfg := &packages.Config{Mode: packages.LoadAllSyntax, Dir: dir, BuildFlags: []string{"-tags=verif"}}
	pkgs, err := packages.Load(cfg, pat)
	if err != nil {
		panic(err)
	}
	prog, spkgs := ssautil.AllPackages(pkgs, ssa.NaiveForm|ssa.InstantiateGenerics)
	prog.Build()
	for _, p := range spkgs {
		if p == nil {
			continue
		}
		for _, m := range p.Members {
			if f, ok := m.(*ssa.Function); ok && f.Name() == fn {
				f.WriteTo(os.Stdout)
			}
		}
		for _, m := range p.Members {
			if t, ok := m.(*ssa.Type); ok {
				ms := prog.MethodSets.MethodSet(t.Type())
				_ = ms
				for _, T := range []interface{ String() string }{t.Type()} {
					_ = T
				}
			}
		}
	}
	for f := range ssautil.AllFunctions(prog) {
		if f.Name() == fn && f.Pkg != nil && f.Pkg.Pkg.Path() != "" {
			fmt.Println("==", f.String())
			f.WriteTo(os.Stdout)
		}
	}
}
