package main

import (
	"fmt"
	"go/token"
	"go/types"
	"strings"

	"golang.org/x/tools/go/ssa"
)

// repInvAtCall handles the "rep_invariant e" clauses of a callee at a modular call site.
//
// A representation invariant talks about package-private state of the receiver. It is assumed when the method is
// proved as a root, and the method's own "ensures" must re-establish it (that is an ordinary, named obligation).
// Call sites inside methods of the same receiver type must prove it like a precondition. Other callers do not
// assign the private state (other packages cannot name it; inside the package this is a convention that is
// stated as an assumption of the check), so - as in every object-invariant methodology (visible-state
// semantics) - the invariant is not demanded from them; it holds there because the constructor establishes it
// and every method of the type preserves it. That step is recorded as an abstraction in the evidence.
func (e *Engine) repInvAtCall(s *State, fr *Frame, c *FuncContract, key string, env *Env, site ssa.Instruction, anchor string, f *ssa.Function) {
	if len(c.RepInv) == 0 {
		return
	}
	// "inside": the caller is a method (or a closure of a method) of the same receiver type
	inside := f != nil && recvTypeName(f) != "" && recvTypeName(f) == recvTypeName(fr.fn)
	if !inside {
		e.abstract("representation invariant of " + shortKey(key) + " is not demanded from callers that are not methods of its receiver type (the state is private to that type: established by the constructor and preserved by every method, proved on those roots)")
		return
	}
	for i, r := range c.RepInv {
		t, err := e.evalBool(env, r.Expr)
		if err != nil {
			e.bail("rep_invariant of %s %q: %v", shortKey(key), r.Src, err)
		}
		name := fmt.Sprintf("%s#requires@%s:inv%d", shortKey(funcKey(fr.fn)), anchor, i+1)
		if r.Tag != "" {
			name = fmt.Sprintf("%s#requires@%s:%s", shortKey(funcKey(fr.fn)), anchor, r.Tag)
		}
		s.addObligation("requires", name, r.Tag, site.Pos(), t, r.Src)
		s.assume(t)
	}
}

// atHavoc: does the contract of the frame's function say "at <anchor> havoc" (or callee#* havoc)?
func (e *Engine) atHavoc(fr *Frame, anchor string) bool {
	c := fr.contract
	if c == nil {
		return false
	}
	short := anchor
	if k := strings.Index(anchor, "#"); k >= 0 {
		short = anchor[:k]
	}
	for _, at := range c.Ats {
		if at.Kind == "havoc" && (at.Anchor == anchor || at.Anchor == short+"#*") {
			return true
		}
	}
	return false
}

// havocContract: an empty contract; modularCall with it havocs the callee's computed write set and returns fresh results.
func havocContract(key string) *FuncContract {
	return &FuncContract{Key: key, Loops: map[int]*LoopContract{}, Nullable: map[string]bool{}, Flags: map[string]string{"modular": "1", "site_havoc": "1"}}
}

// loadedVarName: for v = *x where x is a captured variable, a parameter or a named local cell, the source name of x.
func loadedVarName(u *ssa.UnOp) string {
	if u.Op != token.MUL {
		return ""
	}
	switch x := u.X.(type) {
	case *ssa.FreeVar:
		return x.Name()
	case *ssa.Parameter:
		return x.Name()
	case *ssa.Alloc:
		return x.Comment
	case *ssa.FieldAddr:
		// a function value held in a struct field (l.onFlush(...)): the field's name
		if pt, ok := x.X.Type().Underlying().(*types.Pointer); ok {
			if st, ok := pt.Elem().Underlying().(*types.Struct); ok && x.Field < st.NumFields() {
				return st.Field(x.Field).Name()
			}
		}
	}
	return ""
}

// recvTypeName: "pkgpath.Type" of a method's receiver (of the enclosing method for a closure), "" for functions.
func recvTypeName(f *ssa.Function) string {
	for f.Parent() != nil {
		f = f.Parent()
	}
	if f.Signature.Recv() == nil {
		return ""
	}
	rt := f.Signature.Recv().Type()
	if p, ok := rt.(*types.Pointer); ok {
		rt = p.Elem()
	}
	if n, ok := rt.(*types.Named); ok && n.Obj().Pkg() != nil {
		return n.Obj().Pkg().Path() + "." + n.Obj().Name()
	}
	return ""
}
