package main

import (
	"fmt"
	"strings"

	"golang.org/x/tools/go/ssa"
)

// repInvAtCall handles the "rep_invariant e" clauses of a callee at a modular call site.
//
// A representation invariant talks about package-private state of the receiver. It is assumed when the method is
// proved as a root, and the method's own "ensures" must re-establish it (that is an ordinary, named obligation).
// Call sites inside the declaring package must prove it like a precondition. Call sites in OTHER packages cannot
// name or write the private state, so - as in every object-invariant methodology (visible-state semantics) - the
// invariant is not demanded from them; it holds there because the constructor establishes it and every method of
// the package preserves it. That step is recorded as an abstraction in the evidence of the calling check.
func (e *Engine) repInvAtCall(s *State, fr *Frame, c *FuncContract, key string, env *Env, site ssa.Instruction, anchor string, f *ssa.Function) {
	if len(c.RepInv) == 0 {
		return
	}
	samePkg := f != nil && f.Pkg != nil && fr.fn.Pkg != nil && f.Pkg.Pkg == fr.fn.Pkg.Pkg
	if !samePkg {
		e.abstract("representation invariant of " + shortKey(key) + " is not demanded from callers outside its package (private state; established by the constructor and preserved by every method, proved in the declaring package's unit)")
		return
	}
	for i, r := range c.RepInv {
		t, err := e.evalBool(env, r.Expr)
		if err != nil {
			e.bail("rep_invariant of %s %q: %v", shortKey(key), r.Src, err)
		}
		name := fmt.Sprintf("%s#requires@%s:inv%d", shortKey(funcKey(fr.fn)), anchor, i+1)
		if r.Tag != "" {
			name = fmt.Sprintf("%s#requires@%s:%s", shortKey(funcKey(fr.fn)), anchor, r.Tag)
		}
		s.addObligation("requires", name, r.Tag, site.Pos(), t, r.Src)
		s.assume(t)
	}
}

// atHavoc: does the contract of the frame's function say "at <anchor> havoc" (or callee#* havoc)?
func (e *Engine) atHavoc(fr *Frame, anchor string) bool {
	c := fr.contract
	if c == nil {
		return false
	}
	short := anchor
	if k := strings.Index(anchor, "#"); k >= 0 {
		short = anchor[:k]
	}
	for _, at := range c.Ats {
		if at.Kind == "havoc" && (at.Anchor == anchor || at.Anchor == short+"#*") {
			return true
		}
	}
	return false
}

// havocContract: an empty contract; modularCall with it havocs the callee's computed write set and returns fresh results.
func havocContract(key string) *FuncContract {
	return &FuncContract{Key: key, Loops: map[int]*LoopContract{}, Nullable: map[string]bool{}, Flags: map[string]string{"modular": "1", "site_havoc": "1"}}
}
