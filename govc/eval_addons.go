package main

import "fmt"

// Spec builtins added for the addons properties (C36 ...). Additive: nothing here changes an existing construct.
//
//   store(a, i, v)      functional update of a spec-level array (ghost map), SMT `store`
//   arbitraryIntMap()   a fresh, unconstrained (Array Int Int): the initial value of a ghost index map.
//                       Ghost variables are not havocked at loop heads; a ghost that is updated inside a loop
//                       must therefore start unconstrained (then "not havocked" and "havocked" coincide) and be
//                       described only by the loop invariant. arbitraryIntMap() is that initial value.

func (e *Engine) addonSpec(env *Env, fun string, args []Expr) (TV, bool, error) {
	switch fun {
	case "store":
		if len(args) != 3 {
			return TV{}, true, fmt.Errorf("store(a, i, v) takes three arguments")
		}
		a, err := e.evalTerm(env, args[0])
		if err != nil {
			return TV{}, true, err
		}
		i, err := e.evalTerm(env, args[1])
		if err != nil {
			return TV{}, true, err
		}
		v, err := e.evalTerm(env, args[2])
		if err != nil {
			return TV{}, true, err
		}
		if len(a.Sort) < 6 || a.Sort[:6] != "(Array" {
			return TV{}, true, fmt.Errorf("store(): first argument is not a spec-level array (%s)", a.Sort)
		}
		return TV{Store(a, i, v), nil}, true, nil
	case "arbitraryIntMap":
		if len(args) != 0 {
			return TV{}, true, fmt.Errorf("arbitraryIntMap() takes no arguments")
		}
		return TV{e.u.Fresh("ghostmap", ArraySort(SInt, SInt)), nil}, true, nil
	}
	return TV{}, false, nil
}
