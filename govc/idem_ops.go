package main

// Static clauses for mutate closures (operator reconciliation, C42):
//
//	writes_unconditionally [tag] v
//	    v is a captured variable holding a pointer to the object the closure renders. Every field path of *v that
//	    the closure assigns on SOME path to a return is assigned on EVERY path to a return (a whole-struct
//	    assignment covers the fields below it). A field that is assigned only under a condition keeps whatever
//	    value the object had before - the rendered object then depends on history, not only on the inputs.
//	    Decided on the SSA control-flow graph by a forward must-analysis (intersection over predecessors).
//	    "v except P1, P2" leaves the named field paths out (to be justified where it is written).
//
//	deterministic [tag] except f1, f2, ...
//	    no call of time.Now / time.Since / time.Until, math/rand, crypto/rand or github.com/google/uuid, and no
//	    iteration over a map, is reachable from the closure through first-party callees - except inside the
//	    listed first-party functions (whose use of a map range is order-insensitive by inspection).

import (
	"fmt"
	"go/token"
	"go/types"
	"sort"
	"strings"

	"golang.org/x/tools/go/ssa"
)

func splitTag(spec string) (string, string) {
	spec = strings.TrimSpace(spec)
	if strings.HasPrefix(spec, "[") {
		if k := strings.Index(spec, "]"); k > 0 {
			return spec[1:k], strings.TrimSpace(spec[k+1:])
		}
	}
	return "", spec
}

// fieldPathFrom: for an address rooted (through FieldAddr steps) at the object *v (v a captured variable or a
// parameter), the dotted field path; ok=false otherwise.
func fieldPathFrom(addr ssa.Value, varName string) (string, bool) {
	var names []string
	cur := addr
	for {
		fa, ok := cur.(*ssa.FieldAddr)
		if !ok {
			break
		}
		pt, ok := fa.X.Type().Underlying().(*types.Pointer)
		if !ok {
			return "", false
		}
		st, ok := pt.Elem().Underlying().(*types.Struct)
		if !ok {
			return "", false
		}
		names = append([]string{st.Field(fa.Field).Name()}, names...)
		cur = fa.X
	}
	if len(names) == 0 {
		return "", false
	}
	// cur must be the object pointer: a load of the captured variable / parameter cell, or the parameter itself
	switch x := cur.(type) {
	case *ssa.UnOp:
		if x.Op == token.MUL && loadedVarName(x) == varName {
			return strings.Join(names, "."), true
		}
	case *ssa.Parameter:
		if x.Name() == varName {
			return strings.Join(names, "."), true
		}
	}
	return "", false
}

func coveredBy(path string, set map[string]bool) bool {
	if set[path] {
		return true
	}
	for k := strings.LastIndex(path, "."); k > 0; k = strings.LastIndex(path[:k], ".") {
		if set[path[:k]] {
			return true
		}
	}
	return false
}

func (e *Engine) checkWritesUnconditionally(s *State, fn *ssa.Function, c *FuncContract) {
	// several clauses may be written on the one line, separated by ";;"
	for _, spec := range strings.Split(c.Flags["writes_unconditionally"], ";;") {
		if strings.TrimSpace(spec) != "" {
			e.checkWritesUnconditionally1(s, fn, spec)
		}
	}
}

func (e *Engine) checkWritesUnconditionally1(s *State, fn *ssa.Function, spec string) {
	tag, rest := splitTag(spec)
	// "v except P1, P2": the listed field paths are left out of the clause (they must be justified in the contract)
	varName := rest
	except := map[string]bool{}
	if k := strings.Index(rest, " except "); k > 0 {
		varName = strings.TrimSpace(rest[:k])
		for _, p := range strings.Split(rest[k+8:], ",") {
			except[strings.TrimSpace(p)] = true
		}
	}
	gen := map[*ssa.BasicBlock]map[string]bool{}
	may := map[string]token.Pos{}
	for _, b := range fn.Blocks {
		g := map[string]bool{}
		for _, in := range b.Instrs {
			if st, ok := in.(*ssa.Store); ok {
				if p, ok := fieldPathFrom(st.Addr, varName); ok {
					g[p] = true
					if _, seen := may[p]; !seen {
						may[p] = st.Pos()
					}
				}
			}
		}
		gen[b] = g
	}
	// must-in / must-out: greatest fixpoint of IN[b] = ∩ OUT[p], OUT[b] = IN[b] ∪ gen[b]; entry IN = ∅
	all := map[string]bool{}
	for p := range may {
		all[p] = true
	}
	out := map[*ssa.BasicBlock]map[string]bool{}
	for _, b := range fn.Blocks {
		o := map[string]bool{}
		for p := range all {
			o[p] = true
		}
		out[b] = o
	}
	changed := true
	for changed {
		changed = false
		for _, b := range fn.Blocks {
			in := map[string]bool{}
			if b.Index != 0 {
				first := true
				for _, p := range b.Preds {
					if first {
						for k := range out[p] {
							in[k] = true
						}
						first = false
					} else {
						for k := range in {
							if !out[p][k] {
								delete(in, k)
							}
						}
					}
				}
			}
			for k := range gen[b] {
				in[k] = true
			}
			if len(in) != len(out[b]) {
				out[b] = in
				changed = true
			}
		}
	}
	// at every return: which may-written paths are not covered
	cond := map[string]bool{}
	nret := 0
	for _, b := range fn.Blocks {
		if len(b.Instrs) == 0 {
			continue
		}
		if _, ok := b.Instrs[len(b.Instrs)-1].(*ssa.Return); !ok {
			continue
		}
		nret++
		for p := range may {
			if !coveredBy(p, out[b]) && !except[p] {
				cond[p] = true
			}
		}
	}
	var bad []string
	for p := range cond {
		bad = append(bad, varName+"."+p+" (assigned at "+posString(e.fset, may[p])+")")
	}
	sort.Strings(bad)
	goal := TTrue
	why := fmt.Sprintf("%d field paths of *%s assigned, each on every path to the %d return(s)", len(may), varName, nret)
	if len(may) == 0 {
		goal = TFalse
		why = "no assignment to a field of *" + varName + " found (wrong variable name?)"
		bad = append(bad, why)
	} else if len(bad) > 0 {
		goal = TFalse
		why = "assigned only on some paths: " + strings.Join(bad, "; ")
	}
	name := fmt.Sprintf("%s#frame:%s", e.rootKey, tag)
	s.addObligation("frame", name, tag, fn.Pos(), goal, "every assigned field of *"+varName+" is assigned unconditionally: "+why)
	if len(bad) > 0 {
		e.obligations[len(e.obligations)-1].Result = &SolverResult{Status: "sat", Solver: "static-must-write-analysis", Output: why}
	}
}

func (e *Engine) checkDeterministic(s *State, fn *ssa.Function, c *FuncContract) {
	spec, ok := c.Flags["deterministic"]
	if !ok || spec == "" {
		return
	}
	tag, rest := splitTag(spec)
	except := map[string]bool{}
	rest = strings.TrimSpace(strings.TrimPrefix(strings.TrimSpace(rest), "except"))
	for _, n := range strings.Split(rest, ",") {
		if n = strings.TrimSpace(n); n != "" && n != "1" {
			except[n] = true
		}
	}
	var bad []string
	seen := map[*ssa.Function]bool{}
	var walk func(f *ssa.Function)
	walk = func(f *ssa.Function) {
		if f == nil || seen[f] || f.Blocks == nil {
			return
		}
		seen[f] = true
		if f != fn && except[f.Name()] {
			return
		}
		for _, b := range f.Blocks {
			for _, in := range b.Instrs {
				switch x := in.(type) {
				case *ssa.Range:
					if _, isMap := x.X.Type().Underlying().(*types.Map); isMap {
						bad = append(bad, "map iteration in "+shortKey(funcKey(f))+" at "+posString(e.fset, x.Pos()))
					}
				case *ssa.MakeClosure:
					if cf, ok := x.Fn.(*ssa.Function); ok {
						walk(cf)
					}
				}
				var cc *ssa.CallCommon
				switch x := in.(type) {
				case *ssa.Call:
					cc = x.Common()
				case *ssa.Defer:
					cc = x.Common()
				case *ssa.Go:
					cc = x.Common()
				}
				if cc == nil || cc.IsInvoke() {
					continue
				}
				callee := cc.StaticCallee()
				if callee == nil {
					continue
				}
				k := funcKey(callee)
				switch {
				case k == "time.Now" || k == "time.Since" || k == "time.Until" ||
					strings.HasPrefix(k, "math/rand.") || strings.HasPrefix(k, "math/rand/v2.") || strings.HasPrefix(k, "crypto/rand.") ||
					strings.HasPrefix(k, "github.com/google/uuid."):
					bad = append(bad, k+" called in "+shortKey(funcKey(f))+" at "+posString(e.fset, in.Pos()))
				case isFirstParty(callee):
					walk(callee)
				}
			}
		}
	}
	walk(fn)
	sort.Strings(bad)
	goal := TTrue
	why := fmt.Sprintf("%d first-party functions reachable, no clock / random source / map iteration among them", len(seen))
	if len(bad) > 0 {
		goal = TFalse
		why = strings.Join(bad, "; ")
	}
	name := fmt.Sprintf("%s#calls:%s", e.rootKey, tag)
	s.addObligation("frame", name, tag, fn.Pos(), goal, "no source of nondeterminism reachable: "+why)
	if len(bad) > 0 {
		e.obligations[len(e.obligations)-1].Result = &SolverResult{Status: "sat", Solver: "static-call-analysis", Output: why}
	}
}

// reads_only [tag] v: P1, P2, ...
//
//	The closure renders the object *v from its inputs only: it reads no field of *v except the listed field paths
//	(and what lies below them). A decision that depends on the object's CURRENT content (what the API server stored
//	last time) makes the rendered object depend on history - reconciling twice gives different results.
func (e *Engine) checkReadsOnly(s *State, fn *ssa.Function, c *FuncContract) {
	for _, spec := range strings.Split(c.Flags["reads_only"], ";;") {
		if strings.TrimSpace(spec) == "" {
			continue
		}
		tag, rest := splitTag(spec)
		varName := rest
		allowed := map[string]bool{}
		if k := strings.Index(rest, ":"); k > 0 {
			varName = strings.TrimSpace(rest[:k])
			for _, p := range strings.Split(rest[k+1:], ",") {
				if p = strings.TrimSpace(p); p != "" {
					allowed[p] = true
				}
			}
		}
		// fields the closure itself has assigned on every path so far may be read back (that is not the live value)
		mustIn := mustWrittenIn(fn, varName)
		var bad []string
		n := 0
		for _, b := range fn.Blocks {
			written := map[string]bool{}
			for k := range mustIn[b] {
				written[k] = true
			}
			for _, in := range b.Instrs {
				if st, ok := in.(*ssa.Store); ok {
					if p, ok := fieldPathFrom(st.Addr, varName); ok {
						written[p] = true
					}
					continue
				}
				ld, ok := in.(*ssa.UnOp)
				if !ok || ld.Op != token.MUL {
					continue
				}
				p, ok := fieldPathFrom(ld.X, varName)
				if !ok {
					continue
				}
				n++
				if !coveredBy(p, allowed) && !coveredBy(p, written) {
					bad = append(bad, varName+"."+p+" at "+posString(e.fset, ld.Pos()))
				}
			}
		}
		sort.Strings(bad)
		goal := TTrue
		why := fmt.Sprintf("%d reads of fields of *%s, all within the allowed paths", n, varName)
		if len(bad) > 0 {
			goal = TFalse
			why = "reads " + strings.Join(bad, "; ")
		}
		name := fmt.Sprintf("%s#frame:%s", e.rootKey, tag)
		s.addObligation("frame", name, tag, fn.Pos(), goal, "reads of *"+varName+" only within the allowed paths: "+why)
		if len(bad) > 0 {
			e.obligations[len(e.obligations)-1].Result = &SolverResult{Status: "sat", Solver: "static-frame-analysis", Output: why}
		}
	}
}

// mustWrittenIn: for every block, the field paths of *varName assigned on every path from the entry to the block's start.
func mustWrittenIn(fn *ssa.Function, varName string) map[*ssa.BasicBlock]map[string]bool {
	gen := map[*ssa.BasicBlock]map[string]bool{}
	all := map[string]bool{}
	for _, b := range fn.Blocks {
		g := map[string]bool{}
		for _, in := range b.Instrs {
			if st, ok := in.(*ssa.Store); ok {
				if p, ok := fieldPathFrom(st.Addr, varName); ok {
					g[p] = true
					all[p] = true
				}
			}
		}
		gen[b] = g
	}
	out := map[*ssa.BasicBlock]map[string]bool{}
	in := map[*ssa.BasicBlock]map[string]bool{}
	for _, b := range fn.Blocks {
		o := map[string]bool{}
		for p := range all {
			o[p] = true
		}
		out[b] = o
		in[b] = map[string]bool{}
	}
	changed := true
	for changed {
		changed = false
		for _, b := range fn.Blocks {
			cur := map[string]bool{}
			if b.Index != 0 {
				first := true
				for _, p := range b.Preds {
					if first {
						for k := range out[p] {
							cur[k] = true
						}
						first = false
					} else {
						for k := range cur {
							if !out[p][k] {
								delete(cur, k)
							}
						}
					}
				}
			}
			in[b] = map[string]bool{}
			for k := range cur {
				in[b][k] = true
			}
			for k := range gen[b] {
				cur[k] = true
			}
			if len(cur) != len(out[b]) {
				out[b] = cur
				changed = true
			}
		}
	}
	return in
}
