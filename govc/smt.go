package main

// SMT term layer: terms are S-expression strings with a sort; every derived
// value is given a globally unique name through a define-fun so that term
// strings stay small. Queries are sliced to the cone of influence of the
// goal and the path assumptions.

import (
	"bytes"
	"context"
	"fmt"
	"math/big"
	"os"
	"os/exec"
	"path/filepath"
	"sort"
	"strings"
	"sync"
	"time"
)

type Term struct {
	S    string
	Sort string
}

func (t Term) String() string { return t.S }

const (
	SInt    = "Int"
	SBool   = "Bool"
	SString = "String"
	SSlice  = "Slice"
	SIface  = "Iface"
	SReal   = "Real"
)

var (
	TTrue  = Term{"true", SBool}
	TFalse = Term{"false", SBool}
)

func IntLit(n int64) Term {
	if n < 0 {
		return Term{fmt.Sprintf("(- %d)", -n), SInt}
	}
	return Term{fmt.Sprintf("%d", n), SInt}
}

func BigLit(n *big.Int) Term {
	if n.Sign() < 0 {
		return Term{"(- " + new(big.Int).Neg(n).String() + ")", SInt}
	}
	return Term{n.String(), SInt}
}

func litValue(t Term) (*big.Int, bool) {
	s := t.S
	neg := false
	if strings.HasPrefix(s, "(- ") && strings.HasSuffix(s, ")") {
		s = s[3 : len(s)-1]
		neg = true
	}
	if s == "" {
		return nil, false
	}
	for _, c := range s {
		if c < '0' || c > '9' {
			return nil, false
		}
	}
	v, ok := new(big.Int).SetString(s, 10)
	if !ok {
		return nil, false
	}
	if neg {
		v.Neg(v)
	}
	return v, true
}

func StrLit(s string) Term {
	var b strings.Builder
	b.WriteByte('"')
	for i := 0; i < len(s); i++ {
		c := s[i]
		switch {
		case c == '"':
			b.WriteString(`""`)
		case c == '\\':
			b.WriteString(`\u{5c}`)
		case c >= 0x20 && c < 0x7f:
			b.WriteByte(c)
		default:
			fmt.Fprintf(&b, `\u{%x}`, c)
		}
	}
	b.WriteByte('"')
	return Term{b.String(), SString}
}

// selector simplification: (sel (ctor a b c)) => the selected argument, looking through named definitions
var currentUniverse *Universe
var selectorInfo = map[string]struct {
	ctor string
	idx  int
}{
	"s-base": {"mk-slice", 0}, "s-off": {"mk-slice", 1}, "s-len": {"mk-slice", 2}, "s-cap": {"mk-slice", 3},
	"i-type": {"mk-iface", 0}, "i-val": {"mk-iface", 1},
}

func App(op, sort string, args ...Term) Term {
	if len(args) == 1 {
		if si, ok := selectorInfo[op]; ok {
			r := args[0]
			if currentUniverse != nil && !strings.HasPrefix(r.S, "(") {
				r = currentUniverse.Resolve(r)
			}
			if strings.HasPrefix(r.S, "("+si.ctor+" ") {
				if sx := sexpParse(r.S); sx != nil && len(sx.kids) > si.idx+1 {
					return Term{sx.kids[si.idx+1].String(), sort}
				}
			}
		}
	}
	var b strings.Builder
	b.WriteByte('(')
	b.WriteString(op)
	for _, a := range args {
		b.WriteByte(' ')
		b.WriteString(a.S)
	}
	b.WriteByte(')')
	return Term{b.String(), sort}
}

func Not(a Term) Term {
	switch a.S {
	case "true":
		return TFalse
	case "false":
		return TTrue
	}
	if strings.HasPrefix(a.S, "(not ") {
		return Term{a.S[5 : len(a.S)-1], SBool}
	}
	return App("not", SBool, a)
}

func And(as ...Term) Term {
	var xs []Term
	for _, a := range as {
		if a.S == "true" {
			continue
		}
		if a.S == "false" {
			return TFalse
		}
		xs = append(xs, a)
	}
	if len(xs) == 0 {
		return TTrue
	}
	if len(xs) == 1 {
		return xs[0]
	}
	return App("and", SBool, xs...)
}

func Or(as ...Term) Term {
	var xs []Term
	for _, a := range as {
		if a.S == "false" {
			continue
		}
		if a.S == "true" {
			return TTrue
		}
		xs = append(xs, a)
	}
	if len(xs) == 0 {
		return TFalse
	}
	if len(xs) == 1 {
		return xs[0]
	}
	return App("or", SBool, xs...)
}

func Implies(a, b Term) Term {
	if a.S == "true" {
		return b
	}
	if a.S == "false" || b.S == "true" {
		return TTrue
	}
	return App("=>", SBool, a, b)
}

func Eq(a, b Term) Term {
	if a.S == b.S {
		return TTrue
	}
	if x, ok := litValue(a); ok {
		if y, ok := litValue(b); ok {
			if x.Cmp(y) == 0 {
				return TTrue
			}
			return TFalse
		}
	}
	return App("=", SBool, a, b)
}

func Ite(c, a, b Term) Term {
	if c.S == "true" {
		return a
	}
	if c.S == "false" {
		return b
	}
	if a.S == b.S {
		return a
	}
	return App("ite", a.Sort, c, a, b)
}

func arith(op string, a, b Term) Term {
	if x, ok := litValue(a); ok {
		if y, ok := litValue(b); ok {
			r := new(big.Int)
			switch op {
			case "+":
				return BigLit(r.Add(x, y))
			case "-":
				return BigLit(r.Sub(x, y))
			case "*":
				return BigLit(r.Mul(x, y))
			}
		}
	}
	if op == "+" || op == "-" {
		if y, ok := litValue(b); ok && y.Sign() == 0 {
			return a
		}
	}
	if op == "+" {
		if x, ok := litValue(a); ok && x.Sign() == 0 {
			return b
		}
	}
	if op == "*" {
		if y, ok := litValue(b); ok && y.Cmp(big.NewInt(1)) == 0 {
			return a
		}
		if x, ok := litValue(a); ok && x.Cmp(big.NewInt(1)) == 0 {
			return b
		}
	}
	return App(op, SInt, a, b)
}

func Add(a, b Term) Term { return arith("+", a, b) }
func Sub(a, b Term) Term { return arith("-", a, b) }
func Mul(a, b Term) Term { return arith("*", a, b) }

func cmp(op string, a, b Term) Term {
	if x, ok := litValue(a); ok {
		if y, ok := litValue(b); ok {
			c := x.Cmp(y)
			var r bool
			switch op {
			case "<":
				r = c < 0
			case "<=":
				r = c <= 0
			case ">":
				r = c > 0
			case ">=":
				r = c >= 0
			}
			if r {
				return TTrue
			}
			return TFalse
		}
	}
	return App(op, SBool, a, b)
}

func Lt(a, b Term) Term { return cmp("<", a, b) }
func Le(a, b Term) Term { return cmp("<=", a, b) }
func Gt(a, b Term) Term { return cmp(">", a, b) }
func Ge(a, b Term) Term { return cmp(">=", a, b) }

func Select(arr, idx Term) Term {
	es := arrayElemSort(arr.Sort)
	// read-over-write with syntactically decidable indices (concrete refs / identical terms)
	cur := arr
	for depth := 0; depth < 64; depth++ {
		r := cur
		if currentUniverse != nil && !strings.HasPrefix(r.S, "(") {
			r = currentUniverse.Resolve(r)
		}
		if !strings.HasPrefix(r.S, "(store ") {
			break
		}
		sx := sexpParse(r.S)
		if sx == nil || len(sx.kids) != 4 {
			break
		}
		i := sx.kids[2].String()
		if i == idx.S {
			return Term{sx.kids[3].String(), es}
		}
		a, okA := litValue(Term{i, SInt})
		b, okB := litValue(idx)
		if okA && okB && a.Cmp(b) != 0 {
			cur = Term{sx.kids[1].String(), arr.Sort}
			continue
		}
		break
	}
	return App("select", es, cur, idx)
}

func Store(arr, idx, v Term) Term {
	return App("store", arr.Sort, arr, idx, v)
}

func ArraySort(k, v string) string { return "(Array " + k + " " + v + ")" }

// arrayElemSort parses "(Array K V)" and returns V.
func arrayElemSort(s string) string {
	if !strings.HasPrefix(s, "(Array ") {
		panic("not an array sort: " + s)
	}
	inner := s[7 : len(s)-1]
	// K is either an atom or a parenthesised sort
	depth := 0
	for i := 0; i < len(inner); i++ {
		switch inner[i] {
		case '(':
			depth++
		case ')':
			depth--
		case ' ':
			if depth == 0 {
				return inner[i+1:]
			}
		}
	}
	panic("bad array sort: " + s)
}

func arrayKeySort(s string) string {
	inner := s[7 : len(s)-1]
	depth := 0
	for i := 0; i < len(inner); i++ {
		switch inner[i] {
		case '(':
			depth++
		case ')':
			depth--
		case ' ':
			if depth == 0 {
				return inner[:i]
			}
		}
	}
	panic("bad array sort: " + s)
}

// ---------------------------------------------------------------------------
// Global symbol table

type symDef struct {
	id    int
	name  string
	sort  string
	body  string // "" for declared constants / functions
	decl  string // full declaration line (declare-fun / define-fun / declare-datatypes ...)
	deps  []string
	axiom bool // assertion that must accompany the symbol when it is used
}

type Universe struct {
	mu      sync.Mutex
	syms    map[string]*symDef
	order   []*symDef
	counter int
	// sort declarations (datatypes), emitted first, in order
	sortDecls []string
	sortSeen  map[string]bool
	sortOwner map[string]int // symbol (sort name, ctor, selector) -> index into sortDecls
	// axioms attached to function symbols: emitted when the symbol is used
	axioms map[string][]string
	// abstractStrings: rewrite every query with opaque strings (strabs_coord.go; root contract flag `opaque_strings`)
	abstractStrings bool
}

func NewUniverse() *Universe {
	return &Universe{syms: map[string]*symDef{}, sortSeen: map[string]bool{}, axioms: map[string][]string{}, sortOwner: map[string]int{}}
}

func sanitize(h string) string {
	var b strings.Builder
	for _, c := range h {
		switch {
		case c >= 'a' && c <= 'z', c >= 'A' && c <= 'Z', c >= '0' && c <= '9', c == '_', c == '.':
			b.WriteRune(c)
		default:
			b.WriteByte('_')
		}
	}
	s := b.String()
	if s == "" || (s[0] >= '0' && s[0] <= '9') {
		s = "x" + s
	}
	return s
}

func (u *Universe) freshName(hint string) string {
	u.counter++
	return fmt.Sprintf("%s!%d", sanitize(hint), u.counter)
}

// Fresh declares a new unconstrained constant.
func (u *Universe) Fresh(hint, sort string) Term {
	u.mu.Lock()
	defer u.mu.Unlock()
	n := u.freshName(hint)
	d := &symDef{id: len(u.order), name: n, sort: sort, decl: fmt.Sprintf("(declare-fun %s () %s)", n, sort)}
	u.syms[n] = d
	u.order = append(u.order, d)
	return Term{n, sort}
}

// Define names a term. Small terms are returned unchanged.
func (u *Universe) Define(hint string, t Term) Term {
	if len(t.S) < 40 && !strings.Contains(t.S, "forall") {
		return t
	}
	return u.DefineAlways(hint, t)
}

// DefineAlways names a term even when it is small (used for model read-back).
func (u *Universe) DefineAlways(hint string, t Term) Term {
	u.mu.Lock()
	defer u.mu.Unlock()
	n := u.freshName(hint)
	d := &symDef{id: len(u.order), name: n, sort: t.Sort, body: t.S,
		decl: fmt.Sprintf("(define-fun %s () %s %s)", n, t.Sort, t.S), deps: symbolsOf(t.S)}
	u.syms[n] = d
	u.order = append(u.order, d)
	return Term{n, t.Sort}
}

// DeclareFun declares an uninterpreted function (idempotent).
func (u *Universe) DeclareFun(name string, args []string, ret string) {
	u.mu.Lock()
	defer u.mu.Unlock()
	if _, ok := u.syms[name]; ok {
		return
	}
	d := &symDef{id: len(u.order), name: name, sort: ret,
		decl: fmt.Sprintf("(declare-fun %s (%s) %s)", name, strings.Join(args, " "), ret)}
	u.syms[name] = d
	u.order = append(u.order, d)
}

// DefineFun defines a macro function (idempotent).
func (u *Universe) DefineFun(name string, params []Term, ret string, body Term) {
	u.mu.Lock()
	defer u.mu.Unlock()
	if _, ok := u.syms[name]; ok {
		return
	}
	var ps []string
	for _, p := range params {
		ps = append(ps, fmt.Sprintf("(%s %s)", p.S, p.Sort))
	}
	d := &symDef{id: len(u.order), name: name, sort: ret, body: body.S,
		decl: fmt.Sprintf("(define-fun %s (%s) %s %s)", name, strings.Join(ps, " "), ret, body.S), deps: symbolsOf(body.S)}
	u.syms[name] = d
	u.order = append(u.order, d)
}

func (u *Universe) AddAxiom(sym string, ax Term) {
	u.mu.Lock()
	defer u.mu.Unlock()
	u.axioms[sym] = append(u.axioms[sym], ax.S)
}

func (u *Universe) DeclareSort(name, decl string) {
	u.mu.Lock()
	defer u.mu.Unlock()
	if u.sortSeen[name] {
		return
	}
	u.sortSeen[name] = true
	u.sortDecls = append(u.sortDecls, decl)
	for _, tok := range symbolsOf(decl) {
		if _, ok := u.sortOwner[tok]; !ok {
			switch tok {
			case "declare-datatypes", "Int", "Bool", "String", "Real", "Array":
			default:
				u.sortOwner[tok] = len(u.sortDecls) - 1
			}
		}
	}
}

func (u *Universe) Has(name string) bool {
	u.mu.Lock()
	defer u.mu.Unlock()
	_, ok := u.syms[name]
	return ok
}

// symbolsOf returns identifier-like tokens of an S-expression.
func symbolsOf(s string) []string {
	var out []string
	seen := map[string]bool{}
	i := 0
	for i < len(s) {
		c := s[i]
		if c == '"' {
			i++
			for i < len(s) {
				if s[i] == '"' {
					if i+1 < len(s) && s[i+1] == '"' {
						i += 2
						continue
					}
					break
				}
				i++
			}
			i++
			continue
		}
		if c == '(' || c == ')' || c == ' ' || c == '\n' || c == '\t' {
			i++
			continue
		}
		j := i
		for j < len(s) && s[j] != '(' && s[j] != ')' && s[j] != ' ' && s[j] != '\n' && s[j] != '\t' {
			j++
		}
		tok := s[i:j]
		i = j
		if tok[0] >= '0' && tok[0] <= '9' {
			continue
		}
		if !seen[tok] {
			seen[tok] = true
			out = append(out, tok)
		}
	}
	return out
}

// Query renders an SMT-LIB2 script: assumptions /\ not goal.
func (u *Universe) Query(assumes []Term, goal Term, getValues []Term) string {
	u.mu.Lock()
	defer u.mu.Unlock()
	need := map[string]bool{}
	var axs []string
	axSeen := map[string]bool{}
	var work []string
	push := func(s string) {
		for _, tok := range symbolsOf(s) {
			if _, ok := u.syms[tok]; ok && !need[tok] {
				need[tok] = true
				work = append(work, tok)
			}
		}
	}
	for _, a := range assumes {
		push(a.S)
	}
	push(goal.S)
	for _, g := range getValues {
		push(g.S)
	}
	for len(work) > 0 {
		n := work[len(work)-1]
		work = work[:len(work)-1]
		d := u.syms[n]
		if d.body != "" {
			push(d.body)
		}
		for _, ax := range u.axioms[n] {
			if !axSeen[ax] {
				axSeen[ax] = true
				axs = append(axs, ax)
				push(ax)
			}
		}
	}
	var ds []*symDef
	for n := range need {
		ds = append(ds, u.syms[n])
	}
	sort.Slice(ds, func(i, j int) bool { return ds[i].id < ds[j].id })
	var b bytes.Buffer
	// sort declarations actually referenced (transitively)
	sortNeed := map[int]bool{}
	var swork []int
	scan := func(s string) {
		for _, tok := range symbolsOf(s) {
			if i, ok := u.sortOwner[tok]; ok && !sortNeed[i] {
				sortNeed[i] = true
				swork = append(swork, i)
			}
		}
	}
	for _, d := range ds {
		scan(d.decl)
	}
	for _, ax := range axs {
		scan(ax)
	}
	for _, a := range assumes {
		scan(a.S)
	}
	scan(goal.S)
	for len(swork) > 0 {
		i := swork[len(swork)-1]
		swork = swork[:len(swork)-1]
		scan(u.sortDecls[i])
	}
	for i, sd := range u.sortDecls {
		if sortNeed[i] {
			b.WriteString(sd)
			b.WriteByte('\n')
		}
	}
	for _, d := range ds {
		b.WriteString(d.decl)
		b.WriteByte('\n')
	}
	for _, ax := range axs {
		fmt.Fprintf(&b, "(assert %s)\n", ax)
	}
	for _, a := range assumes {
		if a.S == "true" {
			continue
		}
		fmt.Fprintf(&b, "(assert %s)\n", a.S)
	}
	fmt.Fprintf(&b, "(assert (not %s))\n", goal.S)
	b.WriteString("(check-sat)\n")
	if len(getValues) > 0 {
		b.WriteString("(get-value (")
		for _, g := range getValues {
			b.WriteString(g.S)
			b.WriteByte(' ')
		}
		b.WriteString("))\n")
	}
	if u.abstractStrings {
		return abstractStrings(b.String())
	}
	return b.String()
}

// ---------------------------------------------------------------------------
// Solver race

type SolverResult struct {
	Status string // unsat | sat | unknown | timeout | error
	Solver string
	Output string
	Secs   float64
	Values map[string]string
}

type solverSpec struct {
	name string
	argv func(file string, timeoutSec int) []string
	pre  string
}

var solvers = []solverSpec{
	{"z3-new-5.1.0", func(f string, t int) []string {
		return []string{"z3-new", fmt.Sprintf("-T:%d", t), "-smt2", f}
	}, ""},
	// the same solver without array extensionality axioms (they make z3 5.1 diverge on heaps of arrays of
	// arrays): a weaker theory, so its "unsat" is sound; its "sat" is not used (see unsatOnly)
	{"z3-new-5.1.0-noext", func(f string, t int) []string {
		return []string{"z3-new", fmt.Sprintf("-T:%d", t), "smt.array.extensional=false", "-smt2", f}
	}, ""},
	{"z3-4.8.12", func(f string, t int) []string {
		return []string{"/usr/bin/z3", fmt.Sprintf("-T:%d", t), "-smt2", f}
	}, ""},
	{"cvc5-1.0", func(f string, t int) []string {
		return []string{"cvc5", fmt.Sprintf("--tlimit=%d", t*1000), "--lang=smt2", "--produce-models", "--strings-exp", f}
	}, "(set-logic ALL)\n"},
}

// unsatOnly: solver configurations that decide a weaker theory; only their "unsat" answers count
var unsatOnly = map[string]bool{"z3-new-5.1.0-noext": true}

var solverSem = make(chan struct{}, 16)

// Solve races the solver portfolio on one query. First definitive answer wins.
func Solve(workdir, name, query string, timeoutSec int, useSolvers []string) SolverResult {
	if len(useSolvers) == 0 {
		// stage 1: the fastest solver alone with a short budget; most obligations end here
		t1 := 3
		if timeoutSec < t1 {
			t1 = timeoutSec
		}
		r := solveRace(workdir, name, query, t1, []string{"z3-new"})
		if r.Status == "unsat" || r.Status == "sat" {
			return r
		}
	}
	return solveRace(workdir, name, query, timeoutSec, useSolvers)
}

func solveRace(workdir, name, query string, timeoutSec int, useSolvers []string) SolverResult {
	start := time.Now()
	ctx, cancel := context.WithCancel(context.Background())
	defer cancel()
	type res struct{ r SolverResult }
	ch := make(chan SolverResult, len(solvers))
	n := 0
	for _, sp := range solvers {
		if len(useSolvers) > 0 {
			ok := false
			for _, u := range useSolvers {
				if strings.HasPrefix(sp.name, u) {
					ok = true
				}
			}
			if !ok {
				continue
			}
		}
		n++
		sp := sp
		go func() {
			solverSem <- struct{}{}
			defer func() { <-solverSem }()
			if ctx.Err() != nil {
				ch <- SolverResult{Status: "cancelled", Solver: sp.name}
				return
			}
			file := filepath.Join(workdir, sanitize(name)+"."+sanitize(sp.name)+".smt2")
			q := query
			if sp.pre != "" {
				q = "(set-option :produce-models true)\n" + sp.pre + q
			}
			if err := os.WriteFile(file, []byte(q), 0o644); err != nil {
				ch <- SolverResult{Status: "error", Solver: sp.name, Output: err.Error()}
				return
			}
			argv := sp.argv(file, timeoutSec)
			cctx, ccancel := context.WithTimeout(ctx, time.Duration(timeoutSec+2)*time.Second)
			defer ccancel()
			t0 := time.Now()
			cmd := exec.CommandContext(cctx, argv[0], argv[1:]...)
			out, _ := cmd.CombinedOutput()
			r := SolverResult{Solver: sp.name, Output: string(out), Secs: time.Since(t0).Seconds()}
			first := strings.TrimSpace(strings.SplitN(string(out), "\n", 2)[0])
			for strings.HasPrefix(first, "WARNING:") { // e.g. "'if' cannot be used in patterns": the solver drops that pattern and goes on
				rest := strings.SplitN(string(out), "\n", 2)
				if len(rest) < 2 {
					break
				}
				out = []byte(rest[1])
				first = strings.TrimSpace(strings.SplitN(string(out), "\n", 2)[0])
			}
			switch {
			case first == "unsat":
				r.Status = "unsat"
			case first == "sat" && unsatOnly[sp.name]:
				r.Status = "unknown"
			case first == "sat":
				r.Status = "sat"
				r.Values = parseGetValue(string(out))
			case first == "unknown":
				r.Status = "unknown"
			case strings.Contains(first, "timeout") || cctx.Err() != nil:
				r.Status = "timeout"
			default:
				r.Status = "error"
			}
			if os.Getenv("GOVC_KEEP") == "" {
				os.Remove(file)
			}
			ch <- r
		}()
	}
	var all []SolverResult
	var best *SolverResult
	for i := 0; i < n; i++ {
		r := <-ch
		all = append(all, r)
		if r.Status == "unsat" || r.Status == "sat" {
			if best == nil {
				rr := r
				best = &rr
				cancel()
			}
		}
	}
	if best != nil {
		best.Secs = time.Since(start).Seconds()
		return *best
	}
	// no definitive answer
	st := "unknown"
	var outs []string
	allErr := true
	for _, r := range all {
		if r.Status == "timeout" {
			st = "timeout"
		}
		if r.Status != "error" {
			allErr = false
		}
		outs = append(outs, r.Solver+": "+r.Status+" "+firstLines(r.Output, 3))
	}
	if allErr {
		st = "error"
	}
	return SolverResult{Status: st, Solver: "none", Output: strings.Join(outs, "\n"), Secs: time.Since(start).Seconds()}
}

func firstLines(s string, n int) string {
	ls := strings.Split(strings.TrimSpace(s), "\n")
	if len(ls) > n {
		ls = ls[:n]
	}
	return strings.Join(ls, " | ")
}

// parseGetValue parses "((a 1) (b (- 2)) ...)" after the first line.
func parseGetValue(out string) map[string]string {
	m := map[string]string{}
	i := strings.Index(out, "\n")
	if i < 0 {
		return m
	}
	s := strings.TrimSpace(out[i+1:])
	if !strings.HasPrefix(s, "((") {
		return m
	}
	// parse list of pairs
	toks := sexpParse(s)
	if toks == nil {
		return m
	}
	for _, p := range toks.kids {
		if len(p.kids) == 2 {
			m[p.kids[0].String()] = p.kids[1].String()
		}
	}
	return m
}

type sexp struct {
	atom string
	kids []*sexp
	list bool
}

func (s *sexp) String() string {
	if !s.list {
		return s.atom
	}
	var parts []string
	for _, k := range s.kids {
		parts = append(parts, k.String())
	}
	return "(" + strings.Join(parts, " ") + ")"
}

func sexpParse(s string) *sexp {
	pos := 0
	var parse func() *sexp
	parse = func() *sexp {
		for pos < len(s) && (s[pos] == ' ' || s[pos] == '\n' || s[pos] == '\t' || s[pos] == '\r') {
			pos++
		}
		if pos >= len(s) {
			return nil
		}
		if s[pos] == '(' {
			pos++
			n := &sexp{list: true}
			for {
				for pos < len(s) && (s[pos] == ' ' || s[pos] == '\n' || s[pos] == '\t' || s[pos] == '\r') {
					pos++
				}
				if pos >= len(s) {
					return n
				}
				if s[pos] == ')' {
					pos++
					return n
				}
				k := parse()
				if k == nil {
					return n
				}
				n.kids = append(n.kids, k)
			}
		}
		if s[pos] == '"' {
			j := pos + 1
			for j < len(s) {
				if s[j] == '"' {
					if j+1 < len(s) && s[j+1] == '"' {
						j += 2
						continue
					}
					break
				}
				j++
			}
			a := s[pos : j+1]
			pos = j + 1
			return &sexp{atom: a}
		}
		j := pos
		for j < len(s) && s[j] != '(' && s[j] != ')' && s[j] != ' ' && s[j] != '\n' && s[j] != '\t' && s[j] != '\r' {
			j++
		}
		a := s[pos:j]
		pos = j
		return &sexp{atom: a}
	}
	return parse()
}

// mentionsQuantified reports whether a term refers (directly) to a defined symbol whose body is quantified.
func (u *Universe) mentionsQuantified(s string) bool {
	if !strings.Contains(s, "!") {
		return false
	}
	u.mu.Lock()
	defer u.mu.Unlock()
	for _, tok := range symbolsOf(s) {
		if d, ok := u.syms[tok]; ok && d.body != "" && (strings.Contains(d.body, "(forall") || strings.Contains(d.body, "(exists")) {
			return true
		}
	}
	return false
}

// Resolve looks through a named definition.
func (u *Universe) Resolve(t Term) Term {
	for i := 0; i < 8; i++ {
		if strings.HasPrefix(t.S, "(") {
			return t
		}
		u.mu.Lock()
		d, ok := u.syms[t.S]
		u.mu.Unlock()
		if !ok || d.body == "" || strings.Contains(d.decl, "(define-fun "+d.name+" ((") {
			return t
		}
		t = Term{d.body, d.sort}
	}
	return t
}

// SliceParts destructures a slice term when it is (or names) a mk-slice constructor application.
func (u *Universe) SliceParts(t Term) (base, off, ln, cp Term) {
	r := u.Resolve(t)
	if strings.HasPrefix(r.S, "(mk-slice ") {
		if sx := sexpParse(r.S); sx != nil && len(sx.kids) == 5 {
			return Term{sx.kids[1].String(), SInt}, Term{sx.kids[2].String(), SInt}, Term{sx.kids[3].String(), SInt}, Term{sx.kids[4].String(), SInt}
		}
	}
	return App("s-base", SInt, t), App("s-off", SInt, t), App("s-len", SInt, t), App("s-cap", SInt, t)
}
