package main

import (
	"regexp"
	"fmt"
	"go/constant"
	"go/token"
	"go/types"
	"math/big"
	"os"
	"sort"
	"strings"
	"time"

	"golang.org/x/tools/go/ssa"
)

// ---------------------------------------------------------------------------
// Running a root function

type execAbort struct{ msg string }

func (e *Engine) bail(format string, args ...interface{}) {
	panic(execAbort{fmt.Sprintf(format, args...)})
}

// RunRoot symbolically executes fn from an arbitrary state satisfying its
// requires and collects obligations.
func (e *Engine) RunRoot(fn *ssa.Function) (err error) {
	defer func() {
		if r := recover(); r != nil {
			if a, ok := r.(execAbort); ok {
				err = fmt.Errorf("%s: %s", shortKey(funcKey(fn)), a.msg)
				return
			}
			panic(r)
		}
	}()
	e.resetSymbolic()
	e.rootKey = shortKey(funcKey(fn))
	e.rootContract = e.contractFor(fn)
	e.rootFn = fn
	e.noteRootBudget()
	e.tm.noStrLen = e.rootContract != nil && (e.rootContract.Flags["nostrlen"] != "" || e.rootContract.Flags["opaque_strings"] != "")
	e.u.abstractStrings = e.rootContract != nil && e.rootContract.Flags["opaque_strings"] != ""
	e.rootInputs = nil
	e.registerReplayTarget(fn, e.modDir)
	e.funcsTouched[funcKey(fn)] = true
	s := &State{eng: e, cells: map[int]Value{}, heap: map[string]Term{}, locks: map[string]bool{}}
	e.stateCounter++
	s.id = e.stateCounter
	fr := &Frame{fn: fn, regs: map[ssa.Value]Value{}, callCnt: map[string]int{}, ghosts: map[string]Value{}, params: map[string]Value{}, isRoot: true}
	fr.contract = e.contractFor(fn)
	// parameters
	for i, p := range fn.Params {
		v := s.fresh("arg."+p.Name(), p.Type())
		fr.regs[p] = v
		fr.params[p.Name()] = v
		// pointer params non-nil unless nullable
		if pv, ok := v.(*Ptr); ok {
			nullable := fr.contract != nil && fr.contract.Nullable[p.Name()]
			if !nullable {
				s.assume(Not(Eq(pv.Ref, IntLit(0))))
			}
			_ = i
		}
		if t, ok := v.(Term); ok {
			if t.Sort == SIface && !(fr.contract != nil && fr.contract.Nullable[p.Name()]) && !types.Identical(p.Type(), types.Universe.Lookup("error").Type()) {
				s.assume(Not(Eq(App("i-type", SInt, t), IntLit(0))))
			}
			mi := modelInput{Name: p.Name(), Type: p.Type().String(), Term: t, GoT: p.Type(), Aux: map[string]Term{}}
			if t.Sort == SSlice {
				mi.Aux["len"] = e.u.DefineAlways("m.len."+p.Name(), App("s-len", SInt, t))
				for k, bt := range e.replayByteTerms(s, mi, 96) {
					mi.Aux[k] = e.u.DefineAlways("m."+k, bt)
				}
			}
			e.rootInputs = append(e.rootInputs, mi)
		} else if pv, ok := v.(*Ptr); ok {
			e.rootInputs = append(e.rootInputs, modelInput{Name: p.Name(), Type: p.Type().String(), Term: pv.Ref, GoT: p.Type()})
		}
	}
	for _, fv := range fn.FreeVars {
		v := s.fresh("free."+fv.Name(), fv.Type())
		fr.regs[fv] = v
		fr.params[fv.Name()] = v
		if pv, ok := v.(*Ptr); ok {
			s.assume(Not(Eq(pv.Ref, IntLit(0))))
		}
	}
	s.frames = []*Frame{fr}
	fr.entry = s.snapshot()
	fr.entry.params = fr.params
	e.initGhosts(s, fr)
	// type invariants of receiver
	// requires
	if fr.contract != nil {
		for _, c := range fr.contract.Requires {
			t, err := e.evalClause(s, fr, c, nil, nil)
			if err != nil {
				return fmt.Errorf("%s: requires %q: %v", e.rootKey, c.Src, err)
			}
			s.assume(t)
		}
		for _, c := range fr.contract.RepInv {
			t, err := e.evalClause(s, fr, c, nil, nil)
			if err != nil {
				return fmt.Errorf("%s: rep_invariant %q: %v", e.rootKey, c.Src, err)
			}
			s.assume(t)
		}
		if len(fr.contract.Requires) > 0 || len(fr.contract.RepInv) > 0 {
			// vacuity: requires must be satisfiable
			s.addCover("cover", e.rootKey+"#cover:requires", fn.Pos(), "requires satisfiable")
		}
	}
	if fr.contract != nil {
		e.checkDominated(s, fn, fr.contract)
		e.checkWritesUnconditionally(s, fn, fr.contract)
		e.checkReadsOnly(s, fn, fr.contract)
		e.checkDeterministic(s, fn, fr.contract)
		e.checkIfaceCallsOnly(s, fn, fr.contract)
		e.checkDirectCallsOnly(s, fn, fr.contract)
		e.checkNeverCalls(s, fn, fr.contract)
		e.checkAppendOnly(s, fn, fr.contract)
		e.checkNoEarlyExit(s, fn, fr.contract)
		e.checkFieldCalledOnlyHere(s, fn, fr.contract)
		e.checkEveryIterationCalls(s, fn, fr.contract)
		e.checkSpawnNeverWrites(s, fr, fn, fr.contract)
		e.checkGuarded(s, fn, fr.contract)
		e.checkOnlyCallers(s, fn, fr.contract)
		if e.staticOnly(fr.contract) {
			return nil
		}
		if e.frameOnlyApplies(fr.contract) && fr.contract.Flags["never_writes"] == "" {
			return nil
		}
	}
	// static frame clauses: never_writes [tag] T.f, T.g ... (checked on the transitive write set of the function)
	if fr.contract != nil && fr.contract.Flags["never_writes"] != "" {
		spec := fr.contract.Flags["never_writes"]
		tag := ""
		if strings.HasPrefix(spec, "[") {
			if k := strings.Index(spec, "]"); k > 0 {
				tag = spec[1:k]
				spec = strings.TrimSpace(spec[k+1:])
			}
		}
		ws := newWriteSet()
		e.funcWrites(fn, ws, nil)
		forbidden := newWriteSet()
		env := e.mkEnv(s, fr, nil, nil)
		for _, item := range strings.Split(spec, ",") {
			e.resolveAssign(s, env, strings.TrimSpace(item), forbidden)
		}
		ok := !ws.All
		why := ""
		if ws.All {
			why = "write set is unbounded: " + ws.Why
			// unbounded except for keys preserved by trusted frame clauses: fine when every forbidden key is preserved
			ok = len(forbidden.Heap) > 0
			for k := range forbidden.Heap {
				if !ws.preserved(k) {
					ok = false
				}
			}
		}
		for k := range forbidden.Heap {
			if ws.Heap[k] {
				ok = false
				why = "may write " + k
			}
		}
		goal := TTrue
		if !ok {
			goal = TFalse
		}
		name := fmt.Sprintf("%s#frame:%s", e.rootKey, tag)
		s.addObligation("frame", name, tag, fn.Pos(), goal, "never writes "+spec+" "+why)
		if !ok {
			// a definite answer of the static analysis: record it as refuted
			e.obligations[len(e.obligations)-1].Result = &SolverResult{Status: "sat", Solver: "static-frame-analysis", Output: why}
		}
		if e.frameOnlyApplies(fr.contract) {
			return nil
		}
	}
	e.rootHint = nil
	if fr.contract != nil && fr.contract.Flags["replay_hint"] != "" {
		if hx, err := ParseExpr(fr.contract.Flags["replay_hint"]); err == nil {
			if ht, err := e.evalExprBool(s, fr, hx, nil, nil); err == nil {
				ht = e.u.DefineAlways("replayhint", ht)
				e.rootHint = &ht
			} else {
				return fmt.Errorf("%s: replay_hint: %v", e.rootKey, err)
			}
		} else {
			return fmt.Errorf("%s: replay_hint: %v", e.rootKey, err)
		}
	}
	if len(fn.Blocks) == 0 {
		return fmt.Errorf("%s: no body", e.rootKey)
	}
	fr.block = fn.Blocks[0]
	cutEntryAssumes = s.assumes // cut.go: the facts that hold at entry
	cutSeen = map[ssa.Instruction]bool{}
	return e.runStates([]*State{s})
}

func (s *State) addCover(kind, name string, pos token.Pos, desc string) {
	o := &Obligation{Name: name, Kind: kind, Root: s.eng.rootKey, Pos: posString(s.eng.fset, pos),
		Assumes: s.assumes.slice(), Goal: TFalse, Desc: desc, PathID: s.id, ExpectSat: true, U: s.eng.u}
	s.eng.obligations = append(s.eng.obligations, o)
}

func (e *Engine) runStates(work []*State) error {
	started := time.Now()
	budget := 120 * time.Second
	if v := os.Getenv("GOVC_ROOT_BUDGET"); v != "" {
		if d, err := time.ParseDuration(v); err == nil {
			budget = d
		}
	}
	for len(work) > 0 {
		s := work[len(work)-1]
		work = work[:len(work)-1]
		e.statesRun++
		if e.statesRun > e.maxStates {
			return fmt.Errorf("path explosion (> %d states) in %s", e.maxStates, e.rootKey)
		}
		if time.Since(started) > budget {
			return fmt.Errorf("exploration budget (%s) exceeded in %s after %d states: split the function with contracts", budget, e.rootKey, e.statesRun)
		}
		succ := e.runUntilBranch(s)
		if cutDropPending {
			// "at <anchor> start" (cut.go): the paths still pending lead to the same anchor or leave the function
			// before it; nothing that is claimed depends on them
			work = work[:0]
			cutDropPending = false
		}
		work = append(work, succ...)
	}
	return nil
}

// runUntilBranch executes s until it terminates or forks.
func (e *Engine) runUntilBranch(s *State) []*State {
	for {
		if s.dead || len(s.frames) == 0 {
			return nil
		}
		fr := s.top()
		if fr.idx >= len(fr.block.Instrs) {
			e.bail("fell off block %d of %s", fr.block.Index, fr.fn.Name())
		}
		in := fr.block.Instrs[fr.idx]
		fr.idx++
		succ, done := e.step(s, fr, in)
		if done {
			return succ
		}
	}
}

func (s *State) get(fr *Frame, v ssa.Value) Value {
	switch x := v.(type) {
	case *ssa.Const:
		return s.constValue(x)
	case *ssa.Function:
		return &FuncRef{x}
	case *ssa.Builtin:
		return &Builtin{x.Name()}
	case *ssa.Global:
		el := x.Type().(*types.Pointer).Elem()
		return &Ptr{Kind: pkGlobal, Glob: x, Elem: el}
	}
	if r, ok := fr.regs[v]; ok {
		return r
	}
	s.eng.bail("unbound SSA value %s (%T) in %s", v.Name(), v, fr.fn.Name())
	return nil
}

func (s *State) constValue(c *ssa.Const) Value {
	t := c.Type()
	if c.Value == nil {
		return s.zeroValue(t)
	}
	switch u := t.Underlying().(type) {
	case *types.Basic:
		switch {
		case u.Info()&types.IsBoolean != 0:
			if constant.BoolVal(c.Value) {
				return TTrue
			}
			return TFalse
		case u.Info()&types.IsInteger != 0:
			v, ok := constant.Val(constant.ToInt(c.Value)).(*big.Int)
			if !ok {
				if i64, exact := constant.Int64Val(constant.ToInt(c.Value)); exact {
					return IntLit(i64)
				}
				s.eng.bail("bad int const %v", c.Value)
			}
			return BigLit(v)
		case u.Info()&types.IsString != 0:
			return StrLit(constant.StringVal(c.Value))
		case u.Info()&types.IsFloat != 0:
			f, _ := constant.Float64Val(c.Value)
			r := new(big.Rat).SetFloat64(f)
			if r == nil {
				return Term{"0.0", SReal}
			}
			return Term{fmt.Sprintf("(/ %s.0 %s.0)", ratNum(r), r.Denom().String()), SReal}
		}
	}
	return s.zeroValue(t)
}

func ratNum(r *big.Rat) string {
	n := r.Num()
	if n.Sign() < 0 {
		return "(- " + new(big.Int).Neg(n).String() + ")"
	}
	return n.String()
}

func (s *State) term(fr *Frame, v ssa.Value) Term {
	val := s.get(fr, v)
	t, err := s.toTerm(val)
	if err != nil {
		s.eng.bail("%s: %v (value %s at %s)", fr.fn.Name(), err, v.Name(), posString(s.eng.fset, v.Pos()))
	}
	return t
}

func (s *State) ptr(fr *Frame, v ssa.Value) *Ptr {
	val := s.get(fr, v)
	if p, ok := val.(*Ptr); ok {
		return p
	}
	if t, ok := val.(Term); ok {
		if pt, ok := v.Type().Underlying().(*types.Pointer); ok {
			return &Ptr{Kind: pkObj, Ref: t, Elem: pt.Elem()}
		}
	}
	s.eng.bail("%s: expected pointer for %s, got %T", fr.fn.Name(), v.Name(), val)
	return nil
}

func (s *State) set(fr *Frame, v ssa.Value, val Value) { fr.regs[v] = val }

// nilCheck emits the obligation that pointer p is non-nil.
func (s *State) nilCheck(fr *Frame, in ssa.Instruction, p *Ptr, what string) {
	root := p
	for root.Kind == pkField || root.Kind == pkArrElem {
		root = root.Base
	}
	if root.Kind != pkObj {
		return
	}
	if v, ok := litValue(root.Ref); ok {
		if v.Sign() != 0 {
			return
		}
	}
	name := fmt.Sprintf("%s#safety:%s", shortKey(funcKey(in.Parent())), s.eng.siteName(in, "nil"))
	goal := Not(Eq(root.Ref, IntLit(0)))
	s.addObligation("safety", name, "", in.Pos(), goal, "nil dereference ("+what+")")
	s.assume(goal)
}

func basicOf(t types.Type) *types.Basic {
	b, _ := t.Underlying().(*types.Basic)
	return b
}

// ---------------------------------------------------------------------------
// step: returns (successors, done). done=false means continue with same state.

func (e *Engine) step(s *State, fr *Frame, in ssa.Instruction) ([]*State, bool) {
	switch x := in.(type) {
	case *ssa.DebugRef:
		return nil, false
	case *ssa.Alloc:
		e.execAlloc(s, fr, x)
		return nil, false
	case *ssa.Store:
		p := s.ptr(fr, x.Addr)
		s.nilCheck(fr, x, p, "store")
		v := s.get(fr, x.Val)
		if err := s.store(p, v); err != nil {
			e.bail("%s: store at %s: %v", fr.fn.Name(), posString(e.fset, x.Pos()), err)
		}
		return nil, false
	case *ssa.UnOp:
		return e.execUnOp(s, fr, x)
	case *ssa.BinOp:
		e.execBinOp(s, fr, x)
		return nil, false
	case *ssa.Convert:
		e.execConvert(s, fr, x)
		return nil, false
	case *ssa.ChangeType:
		s.set(fr, x, s.get(fr, x.X))
		return nil, false
	case *ssa.ChangeInterface:
		s.set(fr, x, s.get(fr, x.X))
		return nil, false
	case *ssa.MakeInterface:
		s.set(fr, x, e.makeInterface(s, fr, x.X.Type(), s.get(fr, x.X)))
		return nil, false
	case *ssa.TypeAssert:
		return e.execTypeAssert(s, fr, x)
	case *ssa.FieldAddr:
		p := s.ptr(fr, x.X)
		s.nilCheck(fr, x, p, "field address")
		st := p.Elem.Underlying().(*types.Struct)
		s.set(fr, x, &Ptr{Kind: pkField, Base: p, Field: x.Field, Elem: st.Field(x.Field).Type()})
		return nil, false
	case *ssa.Field:
		v := s.get(fr, x.X)
		t, ok := v.(Term)
		if !ok {
			e.bail("Field of non-term %T", v)
		}
		st := x.X.Type().Underlying().(*types.Struct)
		s.set(fr, x, s.fromTerm(e.tm.FieldOf(x.X.Type(), t, x.Field), st.Field(x.Field).Type()))
		return nil, false
	case *ssa.IndexAddr:
		e.execIndexAddr(s, fr, x)
		return nil, false
	case *ssa.Index:
		e.execIndex(s, fr, x)
		return nil, false
	case *ssa.Slice:
		e.execSlice(s, fr, x)
		return nil, false
	case *ssa.MakeSlice:
		e.execMakeSlice(s, fr, x)
		return nil, false
	case *ssa.MakeMap:
		e.execMakeMap(s, fr, x)
		return nil, false
	case *ssa.MapUpdate:
		e.execMapUpdate(s, fr, x)
		return nil, false
	case *ssa.Lookup:
		e.execLookup(s, fr, x)
		return nil, false
	case *ssa.Range:
		e.execRange(s, fr, x)
		return nil, false
	case *ssa.Next:
		return e.execNext(s, fr, x)
	case *ssa.Extract:
		tv, ok := s.get(fr, x.Tuple).(*Tuple)
		if !ok {
			e.bail("extract from non-tuple")
		}
		s.set(fr, x, tv.Vs[x.Index])
		return nil, false
	case *ssa.Phi:
		for i, p := range fr.block.Preds {
			if p == fr.prev {
				s.set(fr, x, s.get(fr, x.Edges[i]))
				return nil, false
			}
		}
		e.bail("phi: no matching predecessor")
	case *ssa.MakeClosure:
		c := &Closure{Fn: x.Fn.(*ssa.Function)}
		for _, b := range x.Bindings {
			c.Bindings = append(c.Bindings, s.get(fr, b))
		}
		s.set(fr, x, c)
		return nil, false
	case *ssa.Call:
		return e.execCall(s, fr, x)
	case *ssa.Defer:
		d := deferred{call: x.Common(), site: x}
		if !x.Common().IsInvoke() {
			d.fn = s.get(fr, x.Common().Value)
		} else {
			d.fn = s.get(fr, x.Common().Value)
		}
		for _, a := range x.Common().Args {
			d.args = append(d.args, s.get(fr, a))
		}
		fr.defers = append(fr.defers, d)
		return nil, false
	case *ssa.RunDefers:
		return e.execRunDefers(s, fr, x)
	case *ssa.Go:
		if fr.contract != nil && fr.contract.Flags["go_inline"] != "" {
			// opt-in fork/join model (bmain.go): the spawned closure runs to completion at the spawn point
			if succ, done, ok := e.goInline(s, fr, x); ok {
				return succ, done
			}
		}
		e.abstract(fmt.Sprintf("goroutine spawned at %s: body not part of the spawning function's contract", posString(e.fset, x.Pos())))
		{
			// "at callee#n before ..." clauses also apply to go statements (arguments are evaluated by the spawner)
			cc := x.Common()
			var args []Value
			for _, a := range cc.Args {
				args = append(args, s.get(fr, a))
			}
			anchor := fmt.Sprintf("%s#%d", calleeShortName(cc), e.callOrdinal(x))
			e.applyAts(s, fr, anchor, "before", cc, args, nil, x)
		}
		return nil, false
	case *ssa.Jump:
		return e.transfer(s, fr, fr.block.Succs[0], in)
	case *ssa.If:
		c := s.term(fr, x.Cond)
		if c.S == "true" {
			return e.transfer(s, fr, fr.block.Succs[0], in)
		}
		if c.S == "false" {
			return e.transfer(s, fr, fr.block.Succs[1], in)
		}
		mergeN0, mergeDepth, mergeBlk := 0, len(s.frames), fr.block // merge_coord.go
		if s.assumes != nil {
			mergeN0 = s.assumes.n
		}
		s2 := s.fork()
		s.assume(c)
		s.trace = append(s.trace, fmt.Sprintf("%s:T", posString(e.fset, x.Cond.Pos())))
		s2.assume(Not(c))
		s2.trace = append(s2.trace, fmt.Sprintf("%s:F", posString(e.fset, x.Cond.Pos())))
		var out []*State
		if e.feasible(s) {
			out = append(out, e.transferAll(s, s.top(), fr.block.Succs[0], in)...)
		}
		if e.feasible(s2) {
			fr2 := s2.top()
			out = append(out, e.transferAll(s2, fr2, fr2.block.Succs[1], in)...)
		}
		if e.mergeOn() { // merge_coord.go: opt-in path merging at the join of this branch
			if j := e.mergeTarget(mergeBlk.Parent(), mergeBlk); j != nil {
				return e.execIfMerged(mergeN0, mergeDepth, mergeBlk.Parent(), j, out), true
			}
		}
		return out, true
	case *ssa.Return:
		return e.execReturn(s, fr, x)
	case *ssa.Panic:
		name := fmt.Sprintf("%s#safety:%s", shortKey(funcKey(fr.fn)), e.siteName(x, "panic"))
		s.addObligation("safety", name, "", x.Pos(), TFalse, "explicit panic reachable")
		s.dead = true
		return nil, true
	case *ssa.Send:
		e.abstract("channel send at " + posString(e.fset, x.Pos()) + ": no effect modelled")
		return nil, false
	case *ssa.Select:
		e.execSelect(s, fr, x)
		return nil, false
	case *ssa.MakeChan:
		s.set(fr, x, e.newRef())
		return nil, false
	case *ssa.SliceToArrayPointer:
		e.bail("SliceToArrayPointer unsupported at %s", posString(e.fset, x.Pos()))
	case *ssa.MultiConvert:
		e.bail("MultiConvert unsupported")
	}
	e.bail("unsupported instruction %T at %s", in, posString(e.fset, in.Pos()))
	return nil, true
}

// transferAll wraps transfer, returning resulting states (the state itself continues).
func (e *Engine) transferAll(s *State, fr *Frame, to *ssa.BasicBlock, in ssa.Instruction) []*State {
	succ, done := e.transfer(s, fr, to, in)
	if done {
		return succ
	}
	return []*State{s}
}

// feasible does a cheap check of the path condition when the path count is large.
func (e *Engine) feasible(s *State) bool {
	if e.statesRun < 4 {
		return true
	}
	return e.incCheck(s.assumes.slice()) != "unsat"
}

// transfer moves control to block `to`, applying the loop rule at headers.
func (e *Engine) transfer(s *State, fr *Frame, to *ssa.BasicBlock, in ssa.Instruction) ([]*State, bool) {
	fl := e.loopsOf(fr.fn)
	from := fr.block
	// leaving loops
	for len(fr.loops) > 0 {
		top := fr.loops[len(fr.loops)-1]
		if top.loop.Blocks[to] {
			break
		}
		fr.loops = fr.loops[:len(fr.loops)-1]
	}
	if li, ok := fl.ByHeader[to]; ok {
		// is it a back edge of an active loop?
		if len(fr.loops) > 0 && fr.loops[len(fr.loops)-1].loop == li && li.Blocks[from] && fr.loops[len(fr.loops)-1].frame == len(s.frames) {
			lc := fr.loops[len(fr.loops)-1]
			fr.prev = from
			fr.block = to
			fr.idx = 0
			e.applyLoopStepAnchors(s, fr, lc, in)
			e.checkInvariants(s, fr, lc, "invariant.step", in.Pos())
			s.dead = true
			return nil, true
		}
		// entry from outside
		fr.prev = from
		fr.block = to
		fr.idx = 0
		lc := &loopCtx{loop: li, frame: len(s.frames)}
		if c := e.contractFor(fr.fn); c != nil {
			lc.inv = c.Loops[li.Ordinal]
		}
		lc.fnKey = shortKey(funcKey(fr.fn))
		e.checkInvariants(s, fr, lc, "invariant.init", in.Pos())
		e.havocLoop(s, fr, li)
		e.havocDeclaredLoopGhosts(s, fr, li) // "loop N modifies g" (explicit declaration); havocLoop covers ghosts named in an invariant
		e.assumeInvariants(s, fr, lc)
		fr.loops = append(fr.loops, lc)
		return nil, false
	}
	fr.prev = from
	fr.block = to
	fr.idx = 0
	return nil, false
}

func (e *Engine) loopName(lc *loopCtx) string {
	return fmt.Sprintf("%s#loop%d", lc.fnKey, lc.loop.Ordinal)
}

func (e *Engine) checkInvariants(s *State, fr *Frame, lc *loopCtx, kind string, pos token.Pos) {
	if lc.inv == nil {
		return
	}
	for i, c := range lc.inv.Invariants {
		t, err := e.evalClause(s, fr, c, nil, nil)
		if err != nil {
			e.bail("%s invariant %q: %v", e.loopName(lc), c.Src, err)
		}
		name := fmt.Sprintf("%s.%s:%d", e.loopName(lc), kind, i+1)
		if c.Tag != "" {
			name += ":" + c.Tag
		}
		s.addObligation(kind, name, c.Tag, pos, t, c.Src)
		if !e.leanInvariants(fr) {
			s.assume(t)
		}
	}
	if lc.inv.Decreases != nil {
		t, err := e.evalExprTerm(s, fr, lc.inv.Decreases.Expr, nil, nil)
		if err != nil {
			e.bail("%s decreases: %v", e.loopName(lc), err)
		}
		if kind == "invariant.step" && lc.decr0 != nil {
			goal := And(Le(IntLit(0), *lc.decr0), Lt(t, *lc.decr0))
			s.addObligation("decreases", e.loopName(lc)+".decreases", "", pos, goal, lc.inv.Decreases.Src)
		}
	}
}

func (e *Engine) assumeInvariants(s *State, fr *Frame, lc *loopCtx) {
	if lc.inv == nil {
		return
	}
	for _, c := range lc.inv.Invariants {
		t, err := e.evalClause(s, fr, c, nil, nil)
		if err != nil {
			e.bail("%s invariant %q: %v", e.loopName(lc), c.Src, err)
		}
		s.assume(t)
	}
	if lc.inv.Decreases != nil {
		t, err := e.evalExprTerm(s, fr, lc.inv.Decreases.Expr, nil, nil)
		if err == nil {
			d := e.u.Define("decr0", t)
			lc.decr0 = &d
		}
	}
	if len(lc.inv.Invariants) > 0 {
		s.addCover("cover", e.loopName(lc)+"#cover:invariant", lc.loop.minPos, "loop invariant satisfiable in an arbitrary iteration")
	}
}

// havocLoop forgets everything the loop body may write.
func (e *Engine) havocLoop(s *State, fr *Frame, li *LoopInfo) {
	if li.Writes == nil {
		li.Writes = e.writeSetOfBlocks(fr.fn, li.Blocks, nil)
	}
	e.havocWrites(s, fr, li.Writes, fmt.Sprintf("loop%d", li.Ordinal))
	e.havocLoopGhosts(s, fr, li)
}

// havocLoopGhosts forgets every ghost variable that a "set" clause anchored inside the loop body may assign:
// in the arbitrary iteration its value is whatever earlier iterations left (constrained only by the invariants).
func (e *Engine) havocLoopGhosts(s *State, fr *Frame, li *LoopInfo) {
	if os.Getenv("GOVC_NO_GHOSTHAVOC") != "" {
		return
	}
	c := fr.contract
	if c == nil || len(c.Ats) == 0 || len(c.Ghosts) == 0 {
		return
	}
	anchors := map[string]bool{}
	mapOrd := 0
	for _, b := range fr.fn.Blocks {
		for _, in := range b.Instrs {
			if _, ok := in.(*ssa.MapUpdate); ok {
				mapOrd++
				if li.Blocks[b] {
					anchors[fmt.Sprintf("mapupdate#%d", mapOrd)] = true
				}
				continue
			}
			if !li.Blocks[b] {
				continue
			}
			if cc := dstCommon(in); cc != nil {
				name := calleeShortName(cc)
				anchors[fmt.Sprintf("%s#%d", name, e.callOrdinal(in))] = true
				anchors[name+"#*"] = true
			}
		}
	}
	// Two readings of a ghost assigned inside a loop body coexist: (a) loop-carried - the ghost is related to program
	// variables by an invariant of this loop (it is mentioned there): it is havocked at the cut like every variable
	// the body writes; (b) iteration-local - not mentioned in any invariant of the loop: it keeps its value from
	// before the loop in the arbitrary iteration, i.e. it records what ONE iteration did ("at loopstep#n assert").
	// Reading such a ghost after the loop tells nothing about earlier iterations.
	lc := c.Loops[li.Ordinal]
	mentioned := func(name string) bool {
		if lc == nil {
			return false
		}
		re := regexp.MustCompile(`(^|[^A-Za-z0-9_])` + regexp.QuoteMeta(name) + `($|[^A-Za-z0-9_])`)
		for _, inv := range lc.Invariants {
			if re.MatchString(inv.Src) {
				return true
			}
		}
		return false
	}
	for _, at := range c.Ats {
		if at.Kind != "set" || !anchors[at.Anchor] || !mentioned(at.Target) {
			continue
		}
		for _, g := range c.Ghosts {
			if g.Name != at.Target {
				continue
			}
			env := &Env{s: s, fr: fr, vars: map[string]Value{}, vtypes: map[string]types.Type{}}
			if fr.fn.Pkg != nil {
				env.pkg = fr.fn.Pkg.Pkg
			}
			ty, sort, err := e.resolveType(env, g.Type)
			if err != nil {
				e.bail("ghost %s: %v", g.Name, err)
			}
			if ty != nil {
				fr.ghosts[g.Name] = s.fresh("ghost."+g.Name, ty)
			} else {
				fr.ghosts[g.Name] = e.u.Fresh("ghost."+g.Name, sort)
			}
		}
	}
}

// havocReaderPos forgets the position of one reader of the model (its length and data stay).
func (e *Engine) havocReaderPos(s *State, ref Term, hint string) {
	e.ghostKeys()
	np := e.u.Fresh(hint+".readerpos", SInt)
	e.brSetPos(s, ref, np)
	v := e.brGet(s, ref)
	s.assume(And(Le(IntLit(0), np), Le(np, v.ln)))
}

func (e *Engine) havocWrites(s *State, fr *Frame, w *WriteSet, hint string) {
	if !w.All && !w.Heap[gBrPos] {
		for al := range w.ReaderCells {
			if pv, ok := fr.regs[al].(*Ptr); ok && pv.Kind == pkCell {
				if rp, ok := s.cells[pv.Cell].(*Ptr); ok && rp.Kind == pkObj {
					e.havocReaderPos(s, rp.Ref, hint)
					continue
				}
			}
			e.ghostKeys()
			s.havocHeapKey(gBrPos, hint)
		}
		for idx := range w.Readers {
			if idx < len(fr.fn.Params) {
				if p, ok := fr.regs[fr.fn.Params[idx]].(*Ptr); ok && p.Kind == pkObj {
					e.havocReaderPos(s, p.Ref, hint)
					continue
				}
			}
			e.ghostKeys()
			s.havocHeapKey(gBrPos, hint)
			if false {
			}
		}
	}
	e.havocBufCells(s, fr, w, hint)
	// deterministic order (map iteration order would change the numbering of fresh symbols from run to run,
	// and with it the solvers' behaviour on quantified queries)
	cellList := make([]*ssa.Alloc, 0, len(w.Cells))
	for al := range w.Cells {
		cellList = append(cellList, al)
	}
	sort.Slice(cellList, func(i, j int) bool {
		a, b := cellList[i], cellList[j]
		if a.Pos() != b.Pos() {
			return a.Pos() < b.Pos()
		}
		if a.Comment != b.Comment {
			return a.Comment < b.Comment
		}
		return a.Name() < b.Name()
	})
	for _, al := range cellList {
		pv, ok := fr.regs[al]
		if !ok {
			continue // not yet allocated on this path
		}
		p := pv.(*Ptr)
		if p.Kind != pkCell {
			continue
		}
		elem := al.Type().(*types.Pointer).Elem()
		s.cells[p.Cell] = s.havocValue(hint+"."+al.Comment, elem, s.cells[p.Cell])
	}
	if w.All {
		e.abstract("havoc of the whole heap at " + hint + " in " + shortKey(funcKey(fr.fn)) + " (cause: " + w.Why + ")")
		for _, k := range sortedKeys(e.heapSorts) {
			if w.preserved(k) {
				continue
			}
			s.havocHeapKey(k, hint)
		}
		for k := range s.heap {
			if _, ok := e.heapSorts[k]; !ok && !w.preserved(k) {
				s.havocHeapKey(k, hint)
			}
		}
		// arrays no path has touched yet
		var except map[string]bool
		if w.Except != nil {
			except = map[string]bool{}
			for k := range w.Except {
				if !w.Heap[k] {
					except[k] = true
				}
			}
		}
		s.noteHavocAll(except)
		return
	}
	for _, k := range sortedKeys(w.Heap) {
		if _, ok := e.heapValKind[k]; ok {
			s.havocHeapKey(k, hint)
		}
	}
	for g := range w.Globs {
		key := "Glob|" + g.Pkg.Pkg.Path() + "." + g.Name()
		s.havocHeapKey(key, hint)
	}
}

func (s *State) havocValue(hint string, ty types.Type, old Value) Value {
	switch old.(type) {
	case *Closure, *FuncRef:
		// function-valued locals reassigned in loops: keep (rare); conservative would be unknown
		return s.fresh(hint, ty)
	}
	return s.fresh(hint, ty)
}

func (s *State) havocHeapKey(key, hint string) {
	e := s.eng
	var sort string
	if cur, ok := s.heap[key]; ok {
		sort = cur.Sort
	} else if so, ok := e.heapSorts[key]; ok {
		sort = so
	} else {
		// not materialized on any path yet: remember the havoc (see State.pending)
		s.havocSeq++
		if s.pending == nil {
			s.pending = map[string]int{}
		}
		s.pending[key] = s.havocSeq
		return
	}
	if strings.HasPrefix(key, "Glob|") {
		gt := e.heapGoType[key]
		if gt != nil {
			v := s.fresh("glob."+hint, gt)
			t, _ := s.toTerm(v)
			s.heap[key] = t
			return
		}
	}
	n := e.u.Fresh(hint+"."+key, sort)
	s.heap[key] = n
	if ax, ok := e.closednessAxiom(n, key, IntLit(int64(e.refCounter))); ok {
		s.assume(ax)
	}
	if ax, ok := e.typedAxiom(n, key); ok {
		s.assume(ax)
	}
}

// ---------------------------------------------------------------------------
// Individual instructions

func (e *Engine) execAlloc(s *State, fr *Frame, x *ssa.Alloc) {
	elem := x.Type().(*types.Pointer).Elem()
	if arr, ok := elem.Underlying().(*types.Array); ok {
		base := e.newRef()
		key, sort := e.memKey(arr.Elem())
		zero := e.tm.Zero(elem)
		s.heapSet(key, Store(s.heapGet(key, sort), base, zero))
		s.set(fr, x, &Ptr{Kind: pkObj, Ref: base, Elem: elem})
		return
	}
	if !x.Heap {
		e.refCounter++
		id := e.refCounter
		s.cells[id] = s.zeroValue(elem)
		s.set(fr, x, &Ptr{Kind: pkCell, Cell: id, Elem: elem})
		return
	}
	ref := e.newRef()
	p := &Ptr{Kind: pkObj, Ref: ref, Elem: elem}
	zv := s.zeroValue(elem)
	if err := s.store(p, zv); err != nil {
		e.bail("alloc: %v", err)
	}
	e.bufAllocHook(s, ref, elem)
	s.set(fr, x, p)
}

func (e *Engine) execUnOp(s *State, fr *Frame, x *ssa.UnOp) ([]*State, bool) {
	switch x.Op {
	case token.MUL:
		p := s.ptr(fr, x.X)
		s.nilCheck(fr, x, p, "load")
		v, err := s.load(p)
		if err != nil {
			e.bail("%s: load at %s: %v", fr.fn.Name(), posString(e.fset, x.Pos()), err)
		}
		s.set(fr, x, v)
	case token.NOT:
		s.set(fr, x, Not(s.term(fr, x.X)))
	case token.SUB:
		t := s.term(fr, x.X)
		if b := basicOf(x.Type()); b != nil && b.Info()&types.IsInteger != 0 {
			s.set(fr, x, e.u.Define("neg", wrapInt(Sub(IntLit(0), t), b)))
		} else {
			s.set(fr, x, App("-", t.Sort, t))
		}
	case token.XOR:
		t := s.term(fr, x.X)
		b := basicOf(x.Type())
		if b == nil {
			e.bail("^ on non-basic")
		}
		if isUnsigned(b) {
			_, hi, _ := intRange(b)
			s.set(fr, x, Sub(BigLit(hi), t))
		} else {
			s.set(fr, x, Sub(IntLit(-1), t))
		}
	case token.ARROW:
		e.abstract("channel receive at " + posString(e.fset, x.Pos()) + ": arbitrary value")
		if x.CommaOk {
			tv := &Tuple{}
			tv.Vs = append(tv.Vs, s.fresh("recv", x.Type().(*types.Tuple).At(0).Type()), s.fresh("recvok", types.Typ[types.Bool]))
			s.set(fr, x, tv)
		} else {
			s.set(fr, x, s.fresh("recv", x.Type()))
		}
	default:
		e.bail("unsupported unop %s", x.Op)
	}
	return nil, false
}

func pow2(n uint) *big.Int { return new(big.Int).Lsh(big.NewInt(1), n) }

func (e *Engine) execBinOp(s *State, fr *Frame, x *ssa.BinOp) {
	xt := x.X.Type()
	switch x.Op {
	case token.EQL, token.NEQ:
		r := e.valuesEqual(s, fr, s.get(fr, x.X), s.get(fr, x.Y), xt)
		if x.Op == token.NEQ {
			r = Not(r)
		}
		s.set(fr, x, r)
		return
	}
	a, b := s.term(fr, x.X), s.term(fr, x.Y)
	bt := basicOf(xt)
	if bt == nil {
		e.bail("binop %s on non-basic type %s", x.Op, xt)
	}
	switch {
	case bt.Info()&types.IsString != 0:
		switch x.Op {
		case token.ADD:
			s.set(fr, x, e.u.Define("cat", App("str.++", SString, a, b)))
		case token.LSS:
			s.set(fr, x, App("str.<", SBool, a, b))
		case token.LEQ:
			s.set(fr, x, App("str.<=", SBool, a, b))
		case token.GTR:
			s.set(fr, x, App("str.<", SBool, b, a))
		case token.GEQ:
			s.set(fr, x, App("str.<=", SBool, b, a))
		default:
			e.bail("string binop %s", x.Op)
		}
		return
	case bt.Info()&types.IsBoolean != 0:
		switch x.Op {
		case token.LAND, token.AND:
			s.set(fr, x, And(a, b))
		case token.LOR, token.OR:
			s.set(fr, x, Or(a, b))
		default:
			e.bail("bool binop %s", x.Op)
		}
		return
	case bt.Info()&types.IsFloat != 0:
		var r Term
		switch x.Op {
		case token.ADD:
			r = App("+", SReal, a, b)
		case token.SUB:
			r = App("-", SReal, a, b)
		case token.MUL:
			r = App("*", SReal, a, b)
		case token.QUO:
			r = App("/", SReal, a, b)
		case token.LSS:
			r = App("<", SBool, a, b)
		case token.LEQ:
			r = App("<=", SBool, a, b)
		case token.GTR:
			r = App(">", SBool, a, b)
		case token.GEQ:
			r = App(">=", SBool, a, b)
		default:
			e.bail("float binop %s", x.Op)
		}
		e.abstract("floating point treated as exact real arithmetic")
		s.set(fr, x, r)
		return
	}
	// integers
	rt := basicOf(x.Type())
	var r Term
	switch x.Op {
	case token.ADD:
		r = wrapInt(Add(a, b), rt)
	case token.SUB:
		r = wrapInt(Sub(a, b), rt)
	case token.MUL:
		r = wrapInt(Mul(a, b), rt)
	case token.QUO, token.REM:
		name := fmt.Sprintf("%s#safety:%s", shortKey(funcKey(fr.fn)), e.siteName(x, "div"))
		nz := Not(Eq(b, IntLit(0)))
		s.addObligation("safety", name, "", x.Pos(), nz, "integer division by zero")
		s.assume(nz)
		// Go truncates toward zero; SMT div/mod are floor/euclidean for positive divisor
		q := e.goDiv(a, b)
		if _, lit := litValue(b); !lit {
			// symbolic divisor: the solvers treat div as non-linear; state the elementary bound |a/b| <= |a|
			// (true for every b != 0) so that range checks on the quotient stay linear
			s.assume(Ite(Ge(a, IntLit(0)), And(Le(Sub(IntLit(0), a), q), Le(q, a)), And(Le(a, q), Le(q, Sub(IntLit(0), a)))))
		}
		if x.Op == token.QUO {
			r = wrapInt(q, rt)
		} else {
			r = Sub(a, Mul(b, q))
			if coordModelsOn() {
				r = e.coordRemLemma(s, a, b, r) // models_coord.go: opt-in: names the remainder, adds 0 <= a%b < b for a >= 0, b > 0
			} else if _, lit := litValue(b); !lit {
				// symbolic divisor: elementary facts about Go's remainder (sign of the dividend, |r| < |b|)
				rd := e.u.Define("rem", r)
				s.assume(And(Ite(Ge(a, IntLit(0)), Ge(rd, IntLit(0)), Le(rd, IntLit(0))),
					Implies(Gt(b, IntLit(0)), And(Lt(Sub(IntLit(0), b), rd), Lt(rd, b))),
					Implies(Lt(b, IntLit(0)), And(Lt(b, rd), Lt(rd, Sub(IntLit(0), b))))))
				r = rd
			}
		}
	case token.LSS:
		r = Lt(a, b)
	case token.LEQ:
		r = Le(a, b)
	case token.GTR:
		r = Gt(a, b)
	case token.GEQ:
		r = Ge(a, b)
	case token.AND:
		r = e.bitAnd(a, b, rt)
	case token.OR:
		r = e.bitOr(a, b, rt)
	case token.XOR:
		r = e.bitOp("bxor", a, b, rt)
	case token.AND_NOT:
		r = e.bitOp("bandnot", a, b, rt)
	case token.SHL:
		r = e.shiftLeft(s, fr, x, a, b, rt)
	case token.SHR:
		r = e.shiftRight(s, fr, x, a, b, rt)
	default:
		e.bail("int binop %s", x.Op)
	}
	s.set(fr, x, e.u.Define(x.Name(), r))
}

// goDiv: truncated division.
func (e *Engine) goDiv(a, b Term) Term {
	// trunc(a/b) = if a>=0 then (if b>0 then div a b else -(div a (-b))) else (if b>0 then -(div (-a) b) else div (-a) (-b))
	if bv, ok := litValue(b); ok && bv.Sign() > 0 {
		if av, ok := litValue(a); ok {
			return BigLit(new(big.Int).Quo(av, bv))
		}
		return Ite(Ge(a, IntLit(0)), App("div", SInt, a, b), Sub(IntLit(0), App("div", SInt, Sub(IntLit(0), a), b)))
	}
	na, nb := Sub(IntLit(0), a), Sub(IntLit(0), b)
	return Ite(Ge(a, IntLit(0)),
		Ite(Gt(b, IntLit(0)), App("div", SInt, a, b), Sub(IntLit(0), App("div", SInt, a, nb))),
		Ite(Gt(b, IntLit(0)), Sub(IntLit(0), App("div", SInt, na, b)), App("div", SInt, na, nb)))
}

func isPow2Minus1(v *big.Int) (uint, bool) {
	if v.Sign() <= 0 {
		return 0, false
	}
	n := new(big.Int).Add(v, big.NewInt(1))
	if n.BitLen()-1 > 0 && new(big.Int).Lsh(big.NewInt(1), uint(n.BitLen()-1)).Cmp(n) == 0 {
		return uint(n.BitLen() - 1), true
	}
	return 0, false
}

func (e *Engine) bitAnd(a, b Term, rt *types.Basic) Term {
	if av, ok := litValue(a); ok {
		if _, ok2 := litValue(b); !ok2 {
			a, b = b, a
			_ = av
		}
	}
	if bv, ok := litValue(b); ok {
		if av, ok := litValue(a); ok {
			return BigLit(new(big.Int).And(av, bv))
		}
		if bv.Sign() == 0 {
			return IntLit(0)
		}
		if k, ok := isPow2Minus1(bv); ok {
			// x & (2^k-1) == x mod 2^k (also for negative x in two's complement)
			return App("mod", SInt, a, BigLit(pow2(k)))
		}
		// single bit or mask of form 2^k: (x div 2^k) mod 2 * 2^k
		if bv.Sign() > 0 {
			// general constant mask: sum over set bits
			var parts []Term
			for i := 0; i < bv.BitLen(); i++ {
				if bv.Bit(i) == 1 {
					bit := App("mod", SInt, App("div", SInt, a, BigLit(pow2(uint(i)))), IntLit(2))
					parts = append(parts, Mul(bit, BigLit(pow2(uint(i)))))
				}
			}
			if len(parts) <= 8 {
				r := parts[0]
				for _, p := range parts[1:] {
					r = Add(r, p)
				}
				return r
			}
		}
	}
	return e.bitOp("band", a, b, rt)
}

func (e *Engine) bitOr(a, b Term, rt *types.Basic) Term {
	if av, ok := litValue(a); ok {
		if bv, ok := litValue(b); ok {
			return BigLit(new(big.Int).Or(av, bv))
		}
	}
	return e.bitOp("bor", a, b, rt)
}

// bitOp: uninterpreted bit operation per width with basic range axioms.
func (e *Engine) bitOp(op string, a, b Term, rt *types.Basic) Term {
	name := fmt.Sprintf("%s%d", op, intBits(rt))
	if isUnsigned(rt) {
		name += "u"
	}
	if !e.u.Has(name) {
		e.u.DeclareFun(name, []string{SInt, SInt}, SInt)
		lo, hi, _ := intRange(rt)
		x, y := Term{"x", SInt}, Term{"y", SInt}
		app := App(name, SInt, x, y)
		ax := fmt.Sprintf("(forall ((x Int) (y Int)) (! (and (<= %s %s) (<= %s %s)) :pattern (%s)))", BigLit(lo).S, app.S, app.S, BigLit(hi).S, app.S)
		e.u.AddAxiom(name, Term{ax, SBool})
		if op == "bor" && isUnsigned(rt) {
			// operands within the type only: together with the range axiom above, "x | y >= x" for an x above the
			// type's maximum is a contradiction (an inconsistent axiom set lets a solver's model-based
			// instantiation prove anything; found by a C07 mutation that verified although it must not)
			ax2 := fmt.Sprintf("(forall ((x Int) (y Int)) (! (=> (and (>= x 0) (>= y 0) (<= x %s) (<= y %s)) (and (>= %s x) (>= %s y) (<= %s (+ x y)))) :pattern (%s)))", BigLit(hi).S, BigLit(hi).S, app.S, app.S, app.S, app.S)
			e.u.AddAxiom(name, Term{ax2, SBool})
		}
		e.abstract("bit operation " + name + " treated as an uninterpreted function with range axioms")
		if e.rootContract != nil && e.rootContract.Flags["bitprecise"] != "" {
			e.bitPreciseAxioms(op, name, rt)
		}
	}
	return App(name, SInt, a, b)
}

func (e *Engine) shiftLeft(s *State, fr *Frame, x *ssa.BinOp, a, b Term, rt *types.Basic) Term {
	if bv, ok := litValue(b); ok && bv.IsInt64() && bv.Int64() >= 0 && bv.Int64() < 64 {
		return wrapInt(Mul(a, BigLit(pow2(uint(bv.Int64())))), rt)
	}
	e.shiftCheck(s, fr, x, b)
	p := e.pow2Fun()
	return wrapInt(Mul(a, App(p, SInt, b)), rt)
}

func (e *Engine) shiftRight(s *State, fr *Frame, x *ssa.BinOp, a, b Term, rt *types.Basic) Term {
	if bv, ok := litValue(b); ok && bv.IsInt64() && bv.Int64() >= 0 {
		if bv.Int64() >= 64 {
			return Ite(Ge(a, IntLit(0)), IntLit(0), IntLit(-1))
		}
		return App("div", SInt, a, BigLit(pow2(uint(bv.Int64()))))
	}
	e.shiftCheck(s, fr, x, b)
	p := e.pow2Fun()
	return App("div", SInt, a, App(p, SInt, b))
}

func (e *Engine) shiftCheck(s *State, fr *Frame, x *ssa.BinOp, b Term) {
	if bt := basicOf(x.Y.Type()); bt != nil && !isUnsigned(bt) {
		name := fmt.Sprintf("%s#safety:%s", shortKey(funcKey(fr.fn)), e.siteName(x, "shift"))
		g := Ge(b, IntLit(0))
		s.addObligation("safety", name, "", x.Pos(), g, "negative shift count")
		s.assume(g)
	}
}

func (e *Engine) pow2Fun() string {
	name := "pow2"
	if !e.u.Has(name) {
		e.u.DeclareFun(name, []string{SInt}, SInt)
		var parts []string
		for i := 0; i <= 64; i++ {
			parts = append(parts, fmt.Sprintf("(= (pow2 %d) %s)", i, pow2(uint(i)).String()))
		}
		e.u.AddAxiom(name, Term{"(and " + strings.Join(parts, " ") + ")", SBool})
		e.u.AddAxiom(name, Term{"(forall ((k Int)) (! (=> (>= k 0) (>= (pow2 k) 1)) :pattern ((pow2 k))))", SBool})
	}
	return name
}

// valuesEqual: Go == on values of static type ty.
func (e *Engine) valuesEqual(s *State, fr *Frame, a, b Value, ty types.Type) Term {
	pa, aok := a.(*Ptr)
	pb, bok := b.(*Ptr)
	if aok || bok {
		if aok && bok {
			if pa.Kind == pkObj && pb.Kind == pkObj {
				return Eq(pa.Ref, pb.Ref)
			}
			if pa.Kind == pkCell && pb.Kind == pkCell {
				if pa.Cell == pb.Cell {
					return TTrue
				}
				return TFalse
			}
			// stack/interior pointer vs heap/nil pointer
			if (pa.Kind == pkObj) != (pb.Kind == pkObj) {
				return TFalse
			}
		}
		e.bail("pointer comparison of unsupported shapes")
	}
	ta, err := s.toTerm(a)
	if err != nil {
		e.bail("compare: %v", err)
	}
	tb, err := s.toTerm(b)
	if err != nil {
		e.bail("compare: %v", err)
	}
	if _, ok := ty.Underlying().(*types.Slice); ok {
		// only comparison with nil is legal
		if tb.S == NilSlice.S {
			return Eq(App("s-base", SInt, ta), IntLit(0))
		}
		if ta.S == NilSlice.S {
			return Eq(App("s-base", SInt, tb), IntLit(0))
		}
	}
	if _, ok := ty.Underlying().(*types.Interface); ok {
		if tb.S == NilIface.S {
			return Eq(App("i-type", SInt, ta), IntLit(0))
		}
		if ta.S == NilIface.S {
			return Eq(App("i-type", SInt, tb), IntLit(0))
		}
	}
	return Eq(ta, tb)
}

func (e *Engine) execConvert(s *State, fr *Frame, x *ssa.Convert) {
	from, to := x.X.Type(), x.Type()
	fb, tb := basicOf(from), basicOf(to)
	v := s.get(fr, x.X)
	switch {
	case fb != nil && tb != nil && fb.Info()&types.IsInteger != 0 && tb.Info()&types.IsInteger != 0:
		t := v.(Term)
		flo, fhi, _ := intRange(fb)
		tlo, thi, _ := intRange(tb)
		if flo.Cmp(tlo) >= 0 && fhi.Cmp(thi) <= 0 {
			s.set(fr, x, t)
		} else {
			s.set(fr, x, e.u.Define(x.Name(), wrapInt(t, tb)))
		}
	case fb != nil && tb != nil && fb.Info()&types.IsString != 0 && tb.Info()&types.IsString != 0:
		s.set(fr, x, v)
	case fb != nil && tb != nil && fb.Info()&types.IsInteger != 0 && tb.Info()&types.IsFloat != 0:
		s.set(fr, x, App("to_real", SReal, v.(Term)))
	case fb != nil && tb != nil && fb.Info()&types.IsFloat != 0 && tb.Info()&types.IsFloat != 0:
		s.set(fr, x, v)
	case fb != nil && tb != nil && fb.Info()&types.IsFloat != 0 && tb.Info()&types.IsInteger != 0:
		e.abstract("float->int conversion: truncation modelled with to_int on non-negative values")
		t := v.(Term)
		tr := Ite(App(">=", SBool, t, Term{"0.0", SReal}), App("to_int", SInt, t), Sub(IntLit(0), App("to_int", SInt, App("-", SReal, t))))
		s.set(fr, x, wrapInt(tr, tb))
	case fb != nil && tb != nil && fb.Info()&types.IsInteger != 0 && tb.Info()&types.IsString != 0:
		// string(rune)
		e.abstract("string(rune) conversion: fresh one-to-four byte string")
		r := s.fresh("runestr", to).(Term)
		s.assume(And(Ge(App("str.len", SInt, r), IntLit(1)), Le(App("str.len", SInt, r), IntLit(4))))
		s.set(fr, x, r)
	case tb != nil && tb.Info()&types.IsString != 0:
		// string([]byte) / string([]rune)
		if st, ok := from.Underlying().(*types.Slice); ok {
			s.set(fr, x, e.bytesToString(s, v.(Term), st.Elem()))
			return
		}
		e.bail("convert %s -> %s", from, to)
	case fb != nil && fb.Info()&types.IsString != 0:
		if st, ok := to.Underlying().(*types.Slice); ok {
			s.set(fr, x, e.stringToBytes(s, v.(Term), st.Elem()))
			return
		}
		e.bail("convert %s -> %s", from, to)
	default:
		// pointer <-> unsafe.Pointer, named conversions of identical underlying types
		if types.Identical(from.Underlying(), to.Underlying()) {
			s.set(fr, x, v)
			return
		}
		if _, ok := to.Underlying().(*types.Pointer); ok {
			s.set(fr, x, v)
			return
		}
		e.bail("unsupported conversion %s -> %s at %s", from, to, posString(e.fset, x.Pos()))
	}
}

// bytesToString: deterministic function of the bytes.
func (e *Engine) bytesToString(s *State, sl Term, elem types.Type) Term {
	key, sort := e.memKey(elem)
	name := "b2s." + elemKeyName(elem)
	inner := arrayElemSort(sort)
	if !e.u.Has(name) {
		e.u.DeclareFun(name, []string{inner, SInt, SInt}, SString)
		// length axiom for bytes; content axiom: code of each char equals the byte
		if elemKeyName(elem) == "uint8" || elemKeyName(elem) == "byte" {
			app := fmt.Sprintf("(%s a o n)", name)
			ax := fmt.Sprintf("(forall ((a %s) (o Int) (n Int)) (! (=> (>= n 0) (= (str.len %s) n)) :pattern (%s)))", inner, app, app)
			e.u.AddAxiom(name, Term{ax, SBool})
			// only arrays holding bytes denote strings: without the range guard the axiom would be inconsistent
			ax2 := fmt.Sprintf("(forall ((a %s) (o Int) (n Int) (i Int)) (! (=> (and (<= 0 i) (< i n) (<= 0 (select a (+ o i))) (<= (select a (+ o i)) 255)) (= (str.to_code (str.at %s i)) (select a (+ o i)))) :pattern ((str.at %s i))))", inner, app, app)
			e.u.AddAxiom(name, Term{ax2, SBool})
		}
	}
	arr := Select(s.heapGet(key, sort), App("s-base", SInt, sl))
	r := App(name, SString, arr, App("s-off", SInt, sl), App("s-len", SInt, sl))
	return e.u.Define("str", r)
}

func (e *Engine) stringToBytes(s *State, str Term, elem types.Type) Term {
	key, sort := e.memKey(elem)
	base := e.newRef()
	inner := arrayElemSort(sort)
	if lit, ok := smtString(str.S); ok && strings.HasPrefix(str.S, "\"") && len(lit) <= 64 && elemKeyName(elem) == "uint8" {
		// literal string: concrete bytes, literal length
		arr := Term{fmt.Sprintf("((as const %s) 0)", inner), inner}
		for i := 0; i < len(lit); i++ {
			arr = Store(arr, IntLit(int64(i)), IntLit(int64(lit[i])))
		}
		s.heapSet(key, Store(s.heapGet(key, sort), base, e.u.Define("s2barr", arr)))
		n := IntLit(int64(len(lit)))
		return e.u.Define("bytes", App("mk-slice", SSlice, base, IntLit(0), n, n))
	}
	arr := e.u.Fresh("s2b", inner)
	n := App("str.len", SInt, str)
	if elemKeyName(elem) == "uint8" {
		ax := fmt.Sprintf("(forall ((i Int)) (! (=> (and (<= 0 i) (< i %s)) (= (select %s i) (str.to_code (str.at %s i)))) :pattern ((select %s i))))", n.S, arr.S, str.S, arr.S)
		s.assume(Term{ax, SBool})
		ax2 := fmt.Sprintf("(forall ((i Int)) (! (and (<= 0 (select %s i)) (<= (select %s i) 255)) :pattern ((select %s i))))", arr.S, arr.S, arr.S)
		s.assume(Term{ax2, SBool})
	}
	s.heapSet(key, Store(s.heapGet(key, sort), base, arr))
	e.noteStringBytes(base, arr, str)
	return e.u.Define("bytes", App("mk-slice", SSlice, base, IntLit(0), n, n))
}

func (e *Engine) makeInterface(s *State, fr *Frame, dyn types.Type, v Value) Value {
	tid := IntLit(int64(e.tm.TypeID(dyn)))
	if isPointerLike(dyn) {
		t, err := s.toTerm(v)
		if err != nil {
			e.bail("MakeInterface: %v", err)
		}
		// typed nil pointers give non-nil interfaces: (tid, 0) is fine
		return App("mk-iface", SIface, tid, t)
	}
	if _, ok := dyn.Underlying().(*types.Interface); ok {
		return v
	}
	t, err := s.toTerm(v)
	if err != nil {
		e.bail("MakeInterface: %v", err)
	}
	ref := e.newRef()
	key, sort := e.boxKey(dyn)
	s.heapSet(key, Store(s.heapGet(key, sort), ref, t))
	return App("mk-iface", SIface, tid, ref)
}

// ifaceDynType recovers the dynamic type when the interface term is a literal constructor.
func (e *Engine) ifaceDynType(t Term) (types.Type, Term, bool) {
	if !strings.HasPrefix(t.S, "(mk-iface ") {
		return nil, Term{}, false
	}
	sx := sexpParse(t.S)
	if sx == nil || len(sx.kids) != 3 {
		return nil, Term{}, false
	}
	v, ok := litValue(Term{sx.kids[1].String(), SInt})
	if !ok || !v.IsInt64() {
		return nil, Term{}, false
	}
	ty, ok := e.tm.idTypes[int(v.Int64())]
	if !ok {
		return nil, Term{}, false
	}
	return ty, Term{sx.kids[2].String(), SInt}, true
}

func (e *Engine) unboxIface(s *State, payload Term, dyn types.Type) Value {
	if isPointerLike(dyn) {
		return s.fromTerm(payload, dyn)
	}
	key, sort := e.boxKey(dyn)
	t := Select(s.heapGet(key, sort), payload)
	s.assumeLoaded(t, dyn)
	return s.fromTerm(t, dyn)
}

func (e *Engine) execTypeAssert(s *State, fr *Frame, x *ssa.TypeAssert) ([]*State, bool) {
	it := s.term(fr, x.X)
	at := x.AssertedType
	if _, isIface := at.Underlying().(*types.Interface); isIface {
		// interface-to-interface assertion: succeeds iff dynamic type implements it
		if dyn, _, ok := e.ifaceDynType(it); ok {
			impl := types.Implements(dyn, at.Underlying().(*types.Interface))
			if x.CommaOk {
				okT := TFalse
				val := Value(NilIface)
				if impl {
					okT, val = TTrue, it
				}
				s.set(fr, x, &Tuple{Vs: []Value{val, okT}})
				return nil, false
			}
			if impl {
				s.set(fr, x, it)
				return nil, false
			}
		}
		okv := e.u.Fresh("assertok", SBool)
		s.assume(Implies(okv, Not(Eq(App("i-type", SInt, it), IntLit(0)))))
		if x.CommaOk {
			s.set(fr, x, &Tuple{Vs: []Value{Ite(okv, it, NilIface), okv}})
			return nil, false
		}
		name := fmt.Sprintf("%s#safety:%s", shortKey(funcKey(fr.fn)), e.siteName(x, "typeassert"))
		s.addObligation("safety", name, "", x.Pos(), okv, "interface type assertion may fail")
		s.assume(okv)
		s.set(fr, x, it)
		return nil, false
	}
	tid := IntLit(int64(e.tm.TypeID(at)))
	match := Eq(App("i-type", SInt, it), tid)
	payload := App("i-val", SInt, it)
	if dyn, pl, ok := e.ifaceDynType(it); ok {
		payload = pl
		if types.Identical(dyn, at) {
			match = TTrue
		} else {
			match = TFalse
		}
	}
	if x.CommaOk {
		if match.S == "true" || match.S == "false" {
			var val Value
			if match.S == "true" {
				val = e.unboxIface(s, payload, at)
			} else {
				val = s.zeroValue(at)
			}
			s.set(fr, x, &Tuple{Vs: []Value{val, match}})
			return nil, false
		}
		// fork on match to keep values simple
		s2 := s.fork()
		s.assume(match)
		s.set(s.top(), x, &Tuple{Vs: []Value{e.unboxIface(s, payload, at), TTrue}})
		s2.assume(Not(match))
		s2.set(s2.top(), x, &Tuple{Vs: []Value{s2.zeroValue(at), TFalse}})
		return []*State{s, s2}, true
	}
	name := fmt.Sprintf("%s#safety:%s", shortKey(funcKey(fr.fn)), e.siteName(x, "typeassert"))
	s.addObligation("safety", name, "", x.Pos(), match, "type assertion may fail")
	s.assume(match)
	s.set(fr, x, e.unboxIface(s, payload, at))
	return nil, false
}

func (e *Engine) boundsObl(s *State, fr *Frame, in ssa.Instruction, goal Term, desc string) {
	name := fmt.Sprintf("%s#safety:%s", shortKey(funcKey(fr.fn)), e.siteName(in, "index"))
	s.addObligation("safety", name, "", in.Pos(), goal, desc)
	s.assume(goal)
}

func (e *Engine) execIndexAddr(s *State, fr *Frame, x *ssa.IndexAddr) {
	idx := s.term(fr, x.Index)
	switch xt := x.X.Type().Underlying().(type) {
	case *types.Slice:
		sl := s.term(fr, x.X)
		ln := App("s-len", SInt, sl)
		e.boundsObl(s, fr, x, And(Le(IntLit(0), idx), Lt(idx, ln)), "index out of range")
		s.set(fr, x, &Ptr{Kind: pkElem, Ref: App("s-base", SInt, sl), Idx: e.u.Define("ix", Add(App("s-off", SInt, sl), idx)), Elem: xt.Elem()})
	case *types.Pointer:
		arr := xt.Elem().Underlying().(*types.Array)
		p := s.ptr(fr, x.X)
		e.boundsObl(s, fr, x, And(Le(IntLit(0), idx), Lt(idx, IntLit(arr.Len()))), "array index out of range")
		if p.Kind == pkObj {
			s.nilCheck(fr, x, p, "array index")
			s.set(fr, x, &Ptr{Kind: pkElem, Ref: p.Ref, Idx: idx, Elem: arr.Elem()})
		} else {
			s.set(fr, x, &Ptr{Kind: pkArrElem, Base: p, Idx: idx, Elem: arr.Elem()})
		}
	default:
		e.bail("IndexAddr on %s", x.X.Type())
	}
}

func (e *Engine) execIndex(s *State, fr *Frame, x *ssa.Index) {
	idx := s.term(fr, x.Index)
	switch xt := x.X.Type().Underlying().(type) {
	case *types.Array:
		arr := s.term(fr, x.X)
		e.boundsObl(s, fr, x, And(Le(IntLit(0), idx), Lt(idx, IntLit(xt.Len()))), "array index out of range")
		s.set(fr, x, s.fromTerm(Select(arr, idx), xt.Elem()))
	case *types.Basic: // string
		str := s.term(fr, x.X)
		e.boundsObl(s, fr, x, And(Le(IntLit(0), idx), Lt(idx, App("str.len", SInt, str))), "string index out of range")
		c := e.u.Define("ch", App("str.to_code", SInt, App("str.at", SString, str, idx)))
		s.assume(And(Le(IntLit(0), c), Le(c, IntLit(255))))
		s.set(fr, x, c)
	default:
		e.bail("Index on %s", x.X.Type())
	}
}

func (e *Engine) execSlice(s *State, fr *Frame, x *ssa.Slice) {
	name := fmt.Sprintf("%s#safety:%s", shortKey(funcKey(fr.fn)), e.siteName(x, "slice"))
	var lo, hi, max *Term
	if x.Low != nil {
		t := s.term(fr, x.Low)
		lo = &t
	}
	if x.High != nil {
		t := s.term(fr, x.High)
		hi = &t
	}
	if x.Max != nil {
		t := s.term(fr, x.Max)
		max = &t
	}
	zero := IntLit(0)
	switch xt := x.X.Type().Underlying().(type) {
	case *types.Slice:
		sl := s.term(fr, x.X)
		ln, cp, off, base := App("s-len", SInt, sl), App("s-cap", SInt, sl), App("s-off", SInt, sl), App("s-base", SInt, sl)
		l := zero
		if lo != nil {
			l = *lo
		}
		h := ln
		if hi != nil {
			h = *hi
		}
		m := cp
		if max != nil {
			m = *max
		}
		goal := And(Le(zero, l), Le(l, h), Le(h, m), Le(m, cp))
		s.addObligation("safety", name, "", x.Pos(), goal, "slice bounds out of range")
		s.assume(goal)
		r := App("mk-slice", SSlice, base, Add(off, l), Sub(h, l), Sub(m, l))
		s.set(fr, x, e.u.Define(x.Name(), r))
	case *types.Basic: // string
		str := s.term(fr, x.X)
		ln := App("str.len", SInt, str)
		l := zero
		if lo != nil {
			l = *lo
		}
		h := ln
		if hi != nil {
			h = *hi
		}
		goal := And(Le(zero, l), Le(l, h), Le(h, ln))
		s.addObligation("safety", name, "", x.Pos(), goal, "string slice bounds out of range")
		s.assume(goal)
		s.set(fr, x, e.u.Define(x.Name(), App("str.substr", SString, str, l, Sub(h, l))))
	case *types.Pointer:
		arr, ok := xt.Elem().Underlying().(*types.Array)
		if !ok {
			e.bail("slice of pointer to non-array")
		}
		p := s.ptr(fr, x.X)
		if p.Kind != pkObj {
			e.bail("slicing an array that does not live in addressable memory (kind %d) at %s", p.Kind, posString(e.fset, x.Pos()))
		}
		s.nilCheck(fr, x, p, "array slice")
		n := IntLit(arr.Len())
		l := zero
		if lo != nil {
			l = *lo
		}
		h := n
		if hi != nil {
			h = *hi
		}
		m := n
		if max != nil {
			m = *max
		}
		goal := And(Le(zero, l), Le(l, h), Le(h, m), Le(m, n))
		s.addObligation("safety", name, "", x.Pos(), goal, "array slice bounds out of range")
		s.assume(goal)
		s.set(fr, x, e.u.Define(x.Name(), App("mk-slice", SSlice, p.Ref, l, Sub(h, l), Sub(m, l))))
	default:
		e.bail("Slice on %s", x.X.Type())
	}
}

func (e *Engine) execMakeSlice(s *State, fr *Frame, x *ssa.MakeSlice) {
	ln, cp := s.term(fr, x.Len), s.term(fr, x.Cap)
	name := fmt.Sprintf("%s#safety:%s", shortKey(funcKey(fr.fn)), e.siteName(x, "make"))
	goal := And(Le(IntLit(0), ln), Le(ln, cp))
	s.addObligation("safety", name, "", x.Pos(), goal, "makeslice: len/cap out of range")
	s.assume(goal)
	if e.allocBound {
		e.allocObligation(s, fr, x, cp)
	}
	elem := x.Type().Underlying().(*types.Slice).Elem()
	base := e.newRef()
	key, sort := e.memKey(elem)
	inner := arrayElemSort(sort)
	zero := Term{fmt.Sprintf("((as const %s) %s)", inner, e.tm.Zero(elem).S), inner}
	s.heapSet(key, Store(s.heapGet(key, sort), base, zero))
	s.set(fr, x, e.u.Define(x.Name(), App("mk-slice", SSlice, base, IntLit(0), ln, cp)))
}

func (e *Engine) execSelect(s *State, fr *Frame, x *ssa.Select) {
	e.abstract("select at " + posString(e.fset, x.Pos()) + ": nondeterministic choice, received values arbitrary")
	tt := x.Type().(*types.Tuple)
	tv := &Tuple{}
	n := len(x.States)
	idx := e.u.Fresh("selidx", SInt)
	lo := int64(0)
	if !x.Blocking {
		lo = -1
	}
	s.assume(And(Le(IntLit(lo), idx), Lt(idx, IntLit(int64(n)))))
	tv.Vs = append(tv.Vs, idx, s.fresh("selok", types.Typ[types.Bool]))
	for i := 2; i < tt.Len(); i++ {
		tv.Vs = append(tv.Vs, s.fresh("selrecv", tt.At(i).Type()))
	}
	s.set(fr, x, tv)
}

// ---------------------------------------------------------------------------
// Return / defers

func (e *Engine) execRunDefers(s *State, fr *Frame, x *ssa.RunDefers) ([]*State, bool) {
	if len(fr.defers) == 0 {
		return nil, false
	}
	// pop one deferred call and execute it; re-run this instruction afterwards
	d := fr.defers[len(fr.defers)-1]
	fr.defers = fr.defers[:len(fr.defers)-1]
	fr.idx-- // come back to RunDefers
	return e.callValue(s, fr, nil, d.call, d.fn, d.args, d.site)
}

func (e *Engine) execReturn(s *State, fr *Frame, x *ssa.Return) ([]*State, bool) {
	var results []Value
	for _, r := range x.Results {
		results = append(results, s.get(fr, r))
	}
	if fr.isRoot {
		e.checkEnsures(s, fr, results, x)
		s.dead = true
		return nil, true
	}
	// pop frame, bind result
	s.frames = s.frames[:len(s.frames)-1]
	caller := s.top()
	if fr.callSite != nil {
		var rv Value
		switch len(results) {
		case 0:
			rv = nil
		case 1:
			rv = results[0]
		default:
			rv = &Tuple{Vs: results}
		}
		caller.regs[fr.callSite] = rv
		e.afterCall(s, caller, fr.callSite, fr.fn, rv)
	}
	return nil, false
}

func (e *Engine) checkEnsures(s *State, fr *Frame, results []Value, ret *ssa.Return) {
	c := fr.contract
	fr.retCnt++
	e.coverHits[e.rootKey+"#return"] = true
	if c == nil {
		return
	}
	resMap, resTypes := e.resultBindings(fr.fn, results)
	e.coordCheckFresh(s, fr, results, ret) // models_coord.go: `returns_fresh` on a first-party function
	for i, cl := range c.Ensures {
		t, err := e.evalClause(s, fr, cl, resMap, resTypes)
		if err != nil {
			e.bail("ensures %q: %v", cl.Src, err)
		}
		name := fmt.Sprintf("%s#ensures:%d", e.rootKey, i+1)
		if cl.Tag != "" {
			name = fmt.Sprintf("%s#ensures:%s", e.rootKey, cl.Tag)
		}
		s.addObligation("ensures", name, cl.Tag, ret.Pos(), t, cl.Src)
		e.obligations[len(e.obligations)-1].Clause = cl.Expr
		e.ensuresCover(s, fr, cl, name, resMap, resTypes, ret)
	}
	// at return#* asserts
	for _, at := range c.Ats {
		if strings.HasPrefix(at.Anchor, "return") && at.Kind == "assert" {
			t, err := e.evalClause(s, fr, at.Clause, resMap, resTypes)
			if err != nil {
				e.bail("at return assert %q: %v", at.Clause.Src, err)
			}
			name := fmt.Sprintf("%s#assert:%s", e.rootKey, at.Clause.Tag)
			s.addObligation("assert", name, at.Clause.Tag, ret.Pos(), t, at.Clause.Src)
		}
	}
}

func (e *Engine) resultBindings(fn *ssa.Function, results []Value) (map[string]Value, map[string]types.Type) {
	m := map[string]Value{}
	tm := map[string]types.Type{}
	res := fn.Signature.Results()
	for i := 0; i < res.Len() && i < len(results); i++ {
		v := res.At(i)
		if v.Name() != "" && v.Name() != "_" {
			m[v.Name()] = results[i]
			tm[v.Name()] = v.Type()
		}
		m[fmt.Sprintf("result%d", i)] = results[i]
		tm[fmt.Sprintf("result%d", i)] = v.Type()
		if i == 0 {
			m["result"] = results[i]
			tm["result"] = v.Type()
		}
		if types.Identical(v.Type(), types.Universe.Lookup("error").Type()) && v.Name() == "" {
			if _, ok := m["err"]; !ok {
				m["err"] = results[i]
				tm["err"] = v.Type()
			}
		}
	}
	return m, tm
}
