package main

import (
	"fmt"
	"go/types"
	"math/big"
	"strings"
)

// TypeMap maps Go types to SMT sorts and declares datatypes on demand.
type TypeMap struct {
	u       *Universe
	structs map[string]*structInfo // by sort name
	byType  map[types.Type]string
	typeIDs map[string]int
	idTypes map[int]types.Type
	// noStrLen: do not assume len(string) <= 2^62 (fewer assumptions; string theory + quantifiers is slow with it)
	noStrLen bool
}

type structInfo struct {
	sort   string
	st     *types.Struct
	named  types.Type
	fields []string // selector names
	fsorts []string
	ctor   string
}

func NewTypeMap(u *Universe) *TypeMap {
	tm := &TypeMap{u: u, structs: map[string]*structInfo{}, byType: map[types.Type]string{}, typeIDs: map[string]int{}, idTypes: map[int]types.Type{}}
	u.DeclareSort(SSlice, "(declare-datatypes ((Slice 0)) (((mk-slice (s-base Int) (s-off Int) (s-len Int) (s-cap Int)))))")
	u.DeclareSort(SIface, "(declare-datatypes ((Iface 0)) (((mk-iface (i-type Int) (i-val Int)))))")
	return tm
}

var NilSlice = Term{"(mk-slice 0 0 0 0)", SSlice}
var NilIface = Term{"(mk-iface 0 0)", SIface}

func typeKey(t types.Type) string {
	t = types.Unalias(t)
	return types.TypeString(t, func(p *types.Package) string { return p.Path() })
}

// TypeID gives a stable positive integer per concrete dynamic type.
func (tm *TypeMap) TypeID(t types.Type) int {
	k := typeKey(t)
	if id, ok := tm.typeIDs[k]; ok {
		return id
	}
	id := len(tm.typeIDs) + 1
	tm.typeIDs[k] = id
	tm.idTypes[id] = t
	return id
}

func isPointerLike(t types.Type) bool {
	switch t.Underlying().(type) {
	case *types.Pointer, *types.Map, *types.Chan, *types.Signature:
		return true
	}
	return false
}

// SortOf returns the SMT sort for a Go type.
func (tm *TypeMap) SortOf(t types.Type) string {
	t = types.Unalias(t) // aliases (protocol.MetadataTopic = kmsg....) denote the same type: one sort
	if s, ok := tm.byType[t]; ok {
		return s
	}
	s := tm.sortOf(t)
	tm.byType[t] = s
	return s
}

func (tm *TypeMap) sortOf(t types.Type) string {
	switch u := t.Underlying().(type) {
	case *types.Basic:
		switch {
		case u.Info()&types.IsBoolean != 0:
			return SBool
		case u.Info()&types.IsInteger != 0:
			return SInt
		case u.Info()&types.IsString != 0:
			return SString
		case u.Info()&types.IsFloat != 0:
			return SReal
		case u.Kind() == types.UnsafePointer:
			return SInt
		case u.Kind() == types.UntypedNil:
			return SInt
		}
		return SInt
	case *types.Pointer, *types.Map, *types.Chan, *types.Signature:
		return SInt
	case *types.Slice:
		return SSlice
	case *types.Interface:
		return SIface
	case *types.Array:
		return ArraySort(SInt, tm.SortOf(u.Elem()))
	case *types.Struct:
		return tm.structSort(t, u)
	case *types.Tuple:
		return "Tuple"
	case *types.TypeParam:
		return SInt
	}
	return SInt
}

func (tm *TypeMap) structSort(t types.Type, st *types.Struct) string {
	name := "S_" + sanitize(strings.ReplaceAll(typeKey(t), "github.com/KafScale/platform/", ""))
	if len(name) > 80 {
		name = fmt.Sprintf("%s_%d", name[:60], len(tm.structs))
	}
	if _, ok := tm.structs[name]; ok {
		return name
	}
	si := &structInfo{sort: name, st: st, named: t, ctor: "mk_" + name}
	tm.structs[name] = si
	if st.NumFields() == 0 {
		si.fields = []string{name + "_unit"}
		si.fsorts = []string{SInt}
	}
	for i := 0; i < st.NumFields(); i++ {
		f := st.Field(i)
		si.fields = append(si.fields, fmt.Sprintf("%s_%d_%s", name, i, sanitize(f.Name())))
		selectorInfo[si.fields[len(si.fields)-1]] = struct {
			ctor string
			idx  int
		}{si.ctor, i}
		fs := tm.SortOf(f.Type())
		si.fsorts = append(si.fsorts, fs)
	}
	var b strings.Builder
	fmt.Fprintf(&b, "(declare-datatypes ((%s 0)) (((%s", name, si.ctor)
	for i := range si.fields {
		fmt.Fprintf(&b, " (%s %s)", si.fields[i], si.fsorts[i])
	}
	b.WriteString("))))")
	tm.u.DeclareSort(name, b.String())
	return name
}

func (tm *TypeMap) StructInfo(t types.Type) *structInfo {
	s := tm.SortOf(t)
	return tm.structs[s]
}

// FieldOf selects field i of a struct-sorted term.
func (tm *TypeMap) FieldOf(t types.Type, v Term, i int) Term {
	si := tm.StructInfo(t)
	// simplify (sel (mk ...)) when v is a constructor application: keep simple
	return App(si.fields[i], si.fsorts[i], v)
}

func (tm *TypeMap) MkStruct(t types.Type, fs []Term) Term {
	si := tm.StructInfo(t)
	if len(fs) == 0 {
		fs = []Term{IntLit(0)}
	}
	return App(si.ctor, si.sort, fs...)
}

// WithField returns v with field i replaced.
func (tm *TypeMap) WithField(t types.Type, v Term, i int, nv Term) Term {
	si := tm.StructInfo(t)
	var fs []Term
	for j := range si.fields {
		if j == i {
			fs = append(fs, nv)
		} else {
			fs = append(fs, App(si.fields[j], si.fsorts[j], v))
		}
	}
	return App(si.ctor, si.sort, fs...)
}

// Zero returns the zero value of a type as a term.
func (tm *TypeMap) Zero(t types.Type) Term {
	switch u := t.Underlying().(type) {
	case *types.Basic:
		switch {
		case u.Info()&types.IsBoolean != 0:
			return TFalse
		case u.Info()&types.IsString != 0:
			return StrLit("")
		case u.Info()&types.IsFloat != 0:
			return Term{"0.0", SReal}
		}
		return IntLit(0)
	case *types.Slice:
		return NilSlice
	case *types.Interface:
		return NilIface
	case *types.Struct:
		var fs []Term
		for i := 0; i < u.NumFields(); i++ {
			fs = append(fs, tm.Zero(u.Field(i).Type()))
		}
		return tm.MkStruct(t, fs)
	case *types.Array:
		s := tm.SortOf(t)
		return Term{fmt.Sprintf("((as const %s) %s)", s, tm.Zero(u.Elem()).S), s}
	}
	return IntLit(0)
}

func intRange(b *types.Basic) (lo, hi *big.Int, ok bool) {
	one := big.NewInt(1)
	pow := func(n uint) *big.Int { return new(big.Int).Lsh(one, n) }
	switch b.Kind() {
	case types.Int8:
		return new(big.Int).Neg(pow(7)), new(big.Int).Sub(pow(7), one), true
	case types.Int16:
		return new(big.Int).Neg(pow(15)), new(big.Int).Sub(pow(15), one), true
	case types.Int32, types.UntypedRune:
		return new(big.Int).Neg(pow(31)), new(big.Int).Sub(pow(31), one), true
	case types.Int64, types.Int, types.UntypedInt:
		return new(big.Int).Neg(pow(63)), new(big.Int).Sub(pow(63), one), true
	case types.Uint8:
		return big.NewInt(0), new(big.Int).Sub(pow(8), one), true
	case types.Uint16:
		return big.NewInt(0), new(big.Int).Sub(pow(16), one), true
	case types.Uint32:
		return big.NewInt(0), new(big.Int).Sub(pow(32), one), true
	case types.Uint64, types.Uint, types.Uintptr:
		return big.NewInt(0), new(big.Int).Sub(pow(64), one), true
	}
	return nil, nil, false
}

func intBits(b *types.Basic) uint {
	switch b.Kind() {
	case types.Int8, types.Uint8:
		return 8
	case types.Int16, types.Uint16:
		return 16
	case types.Int32, types.Uint32, types.UntypedRune:
		return 32
	}
	return 64
}

func isUnsigned(b *types.Basic) bool { return b.Info()&types.IsUnsigned != 0 }

// TypeFacts returns the well-typedness facts about a value of type t
// (integer ranges, slice header sanity), depth-limited through structs.
func (tm *TypeMap) TypeFacts(v Term, t types.Type) Term {
	return tm.typeFacts(v, t, 2)
}

func (tm *TypeMap) typeFacts(v Term, t types.Type, depth int) Term {
	switch u := t.Underlying().(type) {
	case *types.Basic:
		if u.Info()&types.IsInteger != 0 {
			lo, hi, ok := intRange(u)
			if ok {
				return And(Le(BigLit(lo), v), Le(v, BigLit(hi)))
			}
		}
		if u.Info()&types.IsString != 0 {
			if tm.noStrLen { // root contract says `nostrlen`: drop the (only ever helpful for overflow) length bound on strings
				return TTrue
			}
			return Le(App("str.len", SInt, v), Term{"4611686018427387904", SInt})
		}
	case *types.Slice:
		ln, cp, off, base := App("s-len", SInt, v), App("s-cap", SInt, v), App("s-off", SInt, v), App("s-base", SInt, v)
		return And(Le(IntLit(0), ln), Le(ln, cp), Le(IntLit(0), off),
			Le(cp, Term{"4611686018427387904", SInt}), Le(off, Term{"4611686018427387904", SInt}),
			Implies(Eq(base, IntLit(0)), And(Eq(cp, IntLit(0)), Eq(off, IntLit(0)))))
	case *types.Interface:
		return Implies(Eq(App("i-type", SInt, v), IntLit(0)), Eq(App("i-val", SInt, v), IntLit(0)))
	case *types.Struct:
		if depth <= 0 {
			return TTrue
		}
		var fs []Term
		for i := 0; i < u.NumFields(); i++ {
			fs = append(fs, tm.typeFacts(tm.FieldOf(t, v, i), u.Field(i).Type(), depth-1))
		}
		return And(fs...)
	}
	return TTrue
}

// wrapInt returns x wrapped into the range of integer type b (two's complement).
func wrapInt(x Term, b *types.Basic) Term {
	lo, hi, ok := intRange(b)
	if !ok {
		return x
	}
	if v, isLit := litValue(x); isLit {
		m := new(big.Int).Lsh(big.NewInt(1), intBits(b))
		r := new(big.Int).Sub(v, lo)
		r.Mod(r, m)
		r.Add(r, lo)
		return BigLit(r)
	}
	m := new(big.Int).Lsh(big.NewInt(1), intBits(b))
	inRange := And(Le(BigLit(lo), x), Le(x, BigLit(hi)))
	var wrapped Term
	if lo.Sign() == 0 {
		wrapped = App("mod", SInt, x, BigLit(m))
	} else {
		wrapped = Add(App("mod", SInt, Sub(x, BigLit(lo)), BigLit(m)), BigLit(lo))
	}
	return Ite(inRange, x, wrapped)
}
