package main

import (
	"go/types"
	"strings"

	"golang.org/x/tools/go/ssa"
)

// globalInitNonNil reports whether a package-level interface variable is
// initialised in its package's init function by errors.New / fmt.Errorf (and is
// never stored to elsewhere in first-party code). Such sentinels are non-nil.
func (e *Engine) globalInitNonNil(g *ssa.Global) bool {
	if g.Pkg != nil && !strings.HasPrefix(g.Pkg.Pkg.Path(), "github.com/KafScale") && !strings.HasPrefix(g.Pkg.Pkg.Path(), "github.com/kafscale") {
		// error sentinels of the standard library and dependencies (io.EOF, io.ErrUnexpectedEOF, ...) are non-nil
		if strings.HasPrefix(g.Name(), "Err") || g.Name() == "EOF" {
			e.abstract("error sentinel " + g.Pkg.Pkg.Path() + "." + g.Name() + " is non-nil (trusted)")
			return true
		}
	}
	if e.globalNonNil == nil {
		e.globalNonNil = map[*ssa.Global]bool{}
		stores := map[*ssa.Global]int{}
		good := map[*ssa.Global]bool{}
		for _, f := range e.funcsByKey {
			if f.Blocks == nil || !isFirstParty(f) {
				continue
			}
			for _, b := range f.Blocks {
				for _, in := range b.Instrs {
					st, ok := in.(*ssa.Store)
					if !ok {
						continue
					}
					gl, ok := st.Addr.(*ssa.Global)
					if !ok {
						continue
					}
					stores[gl]++
					if f.Name() != "init" {
						continue
					}
					v := st.Val
					if mi, ok := v.(*ssa.MakeInterface); ok {
						v = mi.X
					}
					if c, ok := v.(*ssa.Call); ok {
						if callee := c.Common().StaticCallee(); callee != nil {
							switch funcKey(callee) {
							case "errors.New", "fmt.Errorf":
								good[gl] = true
							}
						}
					}
				}
			}
		}
		for gl := range good {
			if stores[gl] == 1 {
				e.globalNonNil[gl] = true
			}
		}
	}
	return e.globalNonNil[g]
}

// constGlobal describes a package-level variable whose initial value is a
// literal (byte/int slice literal, string or integer constant) assigned once
// in the package init function and never stored to again in first-party code.
type constGlobal struct {
	elems []int64 // slice literal contents
	isSl  bool
	elemT string
	str   *string
	num   *int64
}

func (e *Engine) globalConst(g *ssa.Global) *constGlobal {
	if e.globalConsts == nil {
		e.globalConsts = map[*ssa.Global]*constGlobal{}
		stores := map[*ssa.Global]int{}
		cand := map[*ssa.Global]*ssa.Store{}
		for _, f := range e.funcsByKey {
			if f.Blocks == nil || !isFirstParty(f) {
				continue
			}
			for _, b := range f.Blocks {
				for _, in := range b.Instrs {
					st, ok := in.(*ssa.Store)
					if !ok {
						continue
					}
					gl, ok := st.Addr.(*ssa.Global)
					if !ok {
						continue
					}
					stores[gl]++
					if f.Name() == "init" {
						cand[gl] = st
					}
				}
			}
		}
		for gl, st := range cand {
			if stores[gl] != 1 {
				continue
			}
			val := st.Val
			// NaiveForm routes composite literals through a local cell: t = *cell where cell has one store
			if ld, ok := val.(*ssa.UnOp); ok {
				if cell, ok := ld.X.(*ssa.Alloc); ok {
					var only *ssa.Store
					n := 0
					for _, ref := range *cell.Referrers() {
						if s2, ok := ref.(*ssa.Store); ok && s2.Addr == cell {
							only = s2
							n++
						}
					}
					if n == 1 {
						val = only.Val
					}
				}
			}
			switch v := val.(type) {
			case *ssa.Const:
				if v.Value == nil {
					continue
				}
				if c, ok := constInt64(v); ok {
					e.globalConsts[gl] = &constGlobal{num: &c}
				}
			case *ssa.Slice:
				al, ok := v.X.(*ssa.Alloc)
				if !ok || v.Low != nil || v.High != nil {
					continue
				}
				arr, ok := al.Type().Underlying().(*types.Pointer).Elem().Underlying().(*types.Array)
				if !ok {
					continue
				}
				eb, ok := arr.Elem().Underlying().(*types.Basic)
				if !ok || eb.Info()&types.IsInteger == 0 {
					continue
				}
				elems := make([]int64, arr.Len())
				okAll := true
				for _, ref := range *al.Referrers() {
					ia, ok := ref.(*ssa.IndexAddr)
					if !ok {
						continue
					}
					ic, ok := ia.Index.(*ssa.Const)
					if !ok {
						okAll = false
						break
					}
					idx, _ := constInt64(ic)
					for _, r2 := range *ia.Referrers() {
						if s2, ok := r2.(*ssa.Store); ok {
							if cv, ok := s2.Val.(*ssa.Const); ok {
								if n, ok := constInt64(cv); ok && idx >= 0 && idx < int64(len(elems)) {
									elems[idx] = n
									continue
								}
							}
							okAll = false
						}
					}
				}
				if okAll {
					e.globalConsts[gl] = &constGlobal{elems: elems, isSl: true, elemT: eb.Name()}
				}
			}
		}
	}
	return e.globalConsts[g]
}

func constInt64(c *ssa.Const) (int64, bool) {
	if c.Value == nil {
		return 0, true
	}
	if b, ok := c.Type().Underlying().(*types.Basic); ok && b.Info()&types.IsInteger != 0 {
		return c.Int64(), true
	}
	return 0, false
}

// globalFacts returns facts about the initial value term t of global g (to be assumed on load).
func (e *Engine) globalFacts(s *State, g *ssa.Global, t Term, elem types.Type) []Term {
	cg := e.globalConst(g)
	if cg == nil {
		return nil
	}
	var out []Term
	if cg.num != nil && t.Sort == SInt {
		out = append(out, Eq(t, IntLit(*cg.num)))
	}
	if cg.isSl && t.Sort == SSlice {
		st, ok := elem.Underlying().(*types.Slice)
		if !ok {
			return nil
		}
		key, sort := e.memKey(st.Elem())
		h := s.heapGet(key, sort)
		n := int64(len(cg.elems))
		out = append(out, Eq(App("s-len", SInt, t), IntLit(n)), Ge(App("s-cap", SInt, t), IntLit(n)), Lt(App("s-base", SInt, t), IntLit(0)))
		arr := Select(h, App("s-base", SInt, t))
		for i, v := range cg.elems {
			out = append(out, Eq(Select(arr, Add(App("s-off", SInt, t), IntLit(int64(i)))), IntLit(v)))
		}
		e.abstract("package-level literal " + g.Name() + " assumed never modified after init (single store found)")
	}
	return out
}
