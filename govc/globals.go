package main

import (
	"golang.org/x/tools/go/ssa"
)

// globalInitNonNil reports whether a package-level interface variable is
// initialised in its package's init function by errors.New / fmt.Errorf (and is
// never stored to elsewhere in first-party code). Such sentinels are non-nil.
func (e *Engine) globalInitNonNil(g *ssa.Global) bool {
	if e.globalNonNil == nil {
		e.globalNonNil = map[*ssa.Global]bool{}
		stores := map[*ssa.Global]int{}
		good := map[*ssa.Global]bool{}
		for _, f := range e.funcsByKey {
			if f.Blocks == nil || !isFirstParty(f) {
				continue
			}
			for _, b := range f.Blocks {
				for _, in := range b.Instrs {
					st, ok := in.(*ssa.Store)
					if !ok {
						continue
					}
					gl, ok := st.Addr.(*ssa.Global)
					if !ok {
						continue
					}
					stores[gl]++
					if f.Name() != "init" {
						continue
					}
					v := st.Val
					if mi, ok := v.(*ssa.MakeInterface); ok {
						v = mi.X
					}
					if c, ok := v.(*ssa.Call); ok {
						if callee := c.Common().StaticCallee(); callee != nil {
							switch funcKey(callee) {
							case "errors.New", "fmt.Errorf":
								good[gl] = true
							}
						}
					}
				}
			}
		}
		for gl := range good {
			if stores[gl] == 1 {
				e.globalNonNil[gl] = true
			}
		}
	}
	return e.globalNonNil[g]
}
