package main

import (
	"fmt"
	"go/types"
	"sort"

	"golang.org/x/tools/go/ssa"
)

// callOrdinal gives the static ordinal of a call site among the calls to the
// same callee name inside its function, in source order ("callee#n" anchors).
// Static numbering keeps an anchor attached to the same source call on every path.
func (e *Engine) callOrdinal(site ssa.Instruction) int {
	if n, ok := e.callOrdinals[site]; ok {
		return n
	}
	fn := site.Parent()
	type cs struct {
		in   ssa.Instruction
		name string
		blk  int
		idx  int
	}
	var all []cs
	for _, b := range fn.Blocks {
		for i, in := range b.Instrs {
			var cc *ssa.CallCommon
			switch x := in.(type) {
			case *ssa.Call:
				cc = x.Common()
			case *ssa.Defer:
				cc = x.Common()
			case *ssa.Go:
				cc = x.Common()
			}
			if cc != nil {
				all = append(all, cs{in, calleeShortName(cc), b.Index, i})
			}
		}
	}
	sort.SliceStable(all, func(i, j int) bool {
		pi, pj := all[i].in.Pos(), all[j].in.Pos()
		if pi.IsValid() && pj.IsValid() && pi != pj {
			return pi < pj
		}
		if all[i].blk != all[j].blk {
			return all[i].blk < all[j].blk
		}
		return all[i].idx < all[j].idx
	})
	counts := map[string]int{}
	for _, c := range all {
		counts[c.name]++
		e.callOrdinals[c.in] = counts[c.name]
	}
	return e.callOrdinals[site]
}

// dstCommon returns the CallCommon of a call/defer/go instruction.
func dstCommon(site ssa.Instruction) *ssa.CallCommon {
	switch x := site.(type) {
	case *ssa.Call:
		return x.Common()
	case *ssa.Defer:
		return x.Common()
	case *ssa.Go:
		return x.Common()
	}
	return nil
}

// applyMapUpdateAnchors: "at mapupdate#n before assert ..." clauses with the identifiers key and value bound.
func (e *Engine) applyMapUpdateAnchors(s *State, fr *Frame, x *ssa.MapUpdate, k, v Term) {
	c := fr.contract
	if c == nil || len(c.Ats) == 0 {
		return
	}
	// ordinal among MapUpdate instructions of the function, in block order
	ord := 0
	for _, b := range fr.fn.Blocks {
		for _, in := range b.Instrs {
			if mu, ok := in.(*ssa.MapUpdate); ok {
				ord++
				if mu == x {
					goto found
				}
			}
		}
	}
found:
	anchor := fmt.Sprintf("mapupdate#%d", ord)
	mt := x.Map.Type().Underlying().(*types.Map)
	for _, at := range c.Ats {
		if at.Anchor != anchor || (at.Kind != "assert" && at.Kind != "set") {
			continue
		}
		if at.Kind == "set" {
			env := e.mkEnv(s, fr, map[string]Value{"key": s.fromTerm(k, mt.Key()), "value": s.fromTerm(v, mt.Elem())}, map[string]types.Type{"key": mt.Key(), "value": mt.Elem()})
			tv, err := e.eval(env, at.Clause.Expr)
			if err != nil {
				e.bail("at %s set %s: %v", anchor, at.Target, err)
			}
			fr.ghosts[at.Target] = tv.V
			continue
		}
		vars := map[string]Value{"key": s.fromTerm(k, mt.Key()), "value": s.fromTerm(v, mt.Elem())}
		vtypes := map[string]types.Type{"key": mt.Key(), "value": mt.Elem()}
		t, err := e.evalClause(s, fr, at.Clause, vars, vtypes)
		if err != nil {
			e.bail("at %s assert %q: %v", anchor, at.Clause.Src, err)
		}
		name := fmt.Sprintf("%s#assert@%s:%s", shortKey(funcKey(fr.fn)), anchor, at.Clause.Tag)
		s.addObligation("assert", name, at.Clause.Tag, x.Pos(), t, at.Clause.Src)
		s.assume(t)
	}
}

// applyLoopStepAnchors: "at loopstep#n assert ..." clauses, checked at the back edge of loop n
// (end of an arbitrary iteration; ghosts count what the iteration did).
func (e *Engine) applyLoopStepAnchors(s *State, fr *Frame, lc *loopCtx, in ssa.Instruction) {
	c := fr.contract
	if c == nil || len(c.Ats) == 0 {
		return
	}
	anchor := fmt.Sprintf("loopstep#%d", lc.loop.Ordinal)
	for _, at := range c.Ats {
		if at.Anchor != anchor || at.Kind != "assert" {
			continue
		}
		t, err := e.evalClause(s, fr, at.Clause, nil, nil)
		if err != nil {
			e.bail("at %s assert %q: %v", anchor, at.Clause.Src, err)
		}
		name := fmt.Sprintf("%s#assert@%s:%s", shortKey(funcKey(fr.fn)), anchor, at.Clause.Tag)
		s.addObligation("assert", name, at.Clause.Tag, in.Pos(), t, at.Clause.Src)
	}
}
