package main

// Cut points (added for C36 handleSelect; additive construct).
//
//   at <anchor> before cut [tag] <invariant>      (the invariant is optional)
//
// A function whose prelude has many independent branches reaches the interesting code on thousands of paths.
// A cut point joins them: every path that arrives at the anchor proves the cut invariant (obligation kind
// "assert", name <func>#cut@<anchor>:<tag>) and stops; the code after the anchor is explored ONCE, from an
// arbitrary state that satisfies the cut invariant. "Arbitrary" means exactly the rule used at loop heads,
// applied to the region of the function from which the anchor is reachable:
//   * every local written in that region is havocked (parameters spilled to their stack slot at entry keep their
//     value: the slot is written once, with the same value, on every path),
//   * every heap location the region may write is havocked (whole heap if it calls unknown code),
//   * every ghost variable of the frame is havocked,
//   * temporaries (SSA registers other than local-variable addresses and parameters) are dropped: a later use of
//     one is an engine error, never a stale value,
//   * the path condition is reset to the facts that held at function entry (parameter facts, requires).
// Restrictions: root frame only (engine error otherwise); defers must be registered unconditionally before the anchor.

import (
	"fmt"
	"go/types"

	"golang.org/x/tools/go/ssa"
)

// Start points:  at <anchor> before|after start
// A cut without invariant where, in addition, the paths that have not reached the anchor when the first one does
// are not explored at all: every clause after the anchor is proved from an arbitrary state at the anchor (which
// covers every way of getting there), and nothing is claimed about the code before it (its safety sweep and the
// preconditions of the calls in it are NOT checked on the skipped paths). Use only on roots whose clauses all lie
// after the anchor; the evidence lists the start point as an abstraction.
var cutDropPending bool

var cutSeen = map[ssa.Instruction]bool{}
var cutEntryAssumes *alist // path condition at the entry of the current root (frames are copied on fork: not keyed by frame)

func (e *Engine) applyCut(s *State, fr *Frame, at AtClause, anchor string, site ssa.Instruction, vars map[string]Value, vtypes map[string]types.Type) {
	if !fr.isRoot || len(s.frames) != 1 {
		e.bail("cut at %s: only in the root function", anchor)
	}
	// Inside a loop a cut is the same rule: the region from which the anchor is reachable then contains the whole
	// enclosing loop body (back edge), so everything the loop may write is havocked; every arrival has the same
	// static loop nesting, and the continuing path ends at the back edge like any other path of the iteration.
	// pending defers: the continuing path keeps the ones registered on the first arriving path; a function that
	// registers defers conditionally before the anchor is not a candidate for a cut
	// the call at the anchor runs with the argument values computed on the first arriving path: they must be the
	// same on every path (parameters, constants, loads from a parameter's own stack slot)
	if cc := dstCommon(site); cc != nil && at.When == "before" {
		for _, a := range cc.Args {
			if !cutInvariantValue(a) {
				e.bail("cut at %s: argument %s of the call is computed before the cut; choose an anchor whose arguments are parameters", anchor, a.Name())
			}
		}
		if !cc.IsInvoke() {
			if _, ok := cc.Value.(*ssa.Function); !ok {
				if _, ok := cc.Value.(*ssa.Builtin); !ok {
					e.bail("cut at %s: callee is a computed function value", anchor)
				}
			}
		} else if !cutInvariantValue(cc.Value) {
			e.bail("cut at %s: receiver of the call is computed before the cut", anchor)
		}
	}
	hasInv := at.Clause.Expr != nil
	name := fmt.Sprintf("%s#cut@%s:%s", shortKey(funcKey(fr.fn)), anchor, at.Clause.Tag)
	if hasInv {
		t, err := e.evalClause(s, fr, at.Clause, vars, vtypes)
		if err != nil {
			e.bail("at %s cut %q: %v", anchor, at.Clause.Src, err)
		}
		s.addObligation("assert", name, at.Clause.Tag, site.Pos(), t, at.Clause.Src)
	}
	if cutSeen[site] {
		s.dead = true
		return
	}
	cutSeen[site] = true
	if at.Kind == "start" {
		if hasInv {
			e.bail("start at %s: a start point has no invariant", anchor)
		}
		cutDropPending = true
		e.abstract("start point at " + anchor + " in " + shortKey(funcKey(fr.fn)) + ": the code before it is not explored (no clause of this root depends on it)")
	}
	// region: blocks from which the anchor's block is reachable (plus that block)
	region := map[*ssa.BasicBlock]bool{site.Block(): true}
	work := []*ssa.BasicBlock{site.Block()}
	for len(work) > 0 {
		b := work[len(work)-1]
		work = work[:len(work)-1]
		for _, p := range b.Preds {
			if !region[p] {
				region[p] = true
				work = append(work, p)
			}
		}
	}
	ws := e.writeSetOfBlocks(fr.fn, region, nil)
	// parameter spills: a slot whose only stores (anywhere in the function) store a parameter keeps its value
	for al := range ws.Cells {
		onlySpill := true
		for _, ref := range *al.Referrers() {
			if st, ok := ref.(*ssa.Store); ok && st.Addr == al {
				if _, isParam := st.Val.(*ssa.Parameter); !isParam {
					onlySpill = false
				}
			}
		}
		if onlySpill {
			delete(ws.Cells, al)
		}
	}
	// path condition: back to the facts that held at function entry
	s.assumes = cutEntryAssumes
	s.trace = append(s.trace, "cut@"+anchor)
	e.havocWrites(s, fr, ws, "cut")
	// ghosts
	for _, k := range sortedKeys(fr.ghosts) {
		switch v := fr.ghosts[k].(type) {
		case Term:
			fr.ghosts[k] = e.u.Fresh("cut.ghost."+k, v.Sort)
		case *Ptr:
			if v.Kind == pkObj {
				fr.ghosts[k] = &Ptr{Kind: pkObj, Ref: e.u.Fresh("cut.ghost."+k, SInt), Elem: v.Elem}
			} else {
				e.bail("cut at %s: ghost %s holds an interior pointer", anchor, k)
			}
		default:
			e.bail("cut at %s: ghost %s of unsupported kind %T", anchor, k, v)
		}
	}
	// temporaries
	for v := range fr.regs {
		switch v.(type) {
		case *ssa.Alloc, *ssa.Parameter, *ssa.FreeVar:
		default:
			delete(fr.regs, v)
		}
	}
	if at.When == "after" {
		// the call has returned: its result is as arbitrary as everything else
		if call, ok := site.(*ssa.Call); ok && call.Type() != nil {
			if tup, isTup := call.Type().(*types.Tuple); !isTup || tup.Len() > 0 {
				fr.regs[call] = s.fresh("cut.ret", call.Type())
			}
		}
		for k := range vars {
			delete(vars, k) // arg0.. / ret0.. of the anchor are stale
		}
	}
	if hasInv {
		t, err := e.evalClause(s, fr, at.Clause, vars, vtypes)
		if err != nil {
			e.bail("at %s cut (after havoc) %q: %v", anchor, at.Clause.Src, err)
		}
		s.assume(t)
		s.addCover("cover", name+"#cover", site.Pos(), "cut invariant satisfiable")
	}
	e.abstract("cut point at " + anchor + " in " + shortKey(funcKey(fr.fn)) + ": code after it explored once from an arbitrary state satisfying the cut invariant (sound over-approximation)")
}

func cutSpillSlot(al *ssa.Alloc) bool {
	n := 0
	for _, ref := range *al.Referrers() {
		if st, ok := ref.(*ssa.Store); ok && st.Addr == al {
			if _, isParam := st.Val.(*ssa.Parameter); !isParam {
				return false
			}
			n++
		}
	}
	return n == 1
}

func cutInvariantAddr(v ssa.Value) bool {
	switch x := v.(type) {
	case *ssa.Alloc:
		return !x.Heap && cutSpillSlot(x)
	case *ssa.FieldAddr:
		return cutInvariantAddr(x.X)
	}
	return false
}

func cutInvariantValue(v ssa.Value) bool {
	switch x := v.(type) {
	case *ssa.Parameter, *ssa.Const, *ssa.Function, *ssa.Global:
		return true
	case *ssa.UnOp:
		return x.Op.String() == "*" && cutInvariantAddr(x.X)
	}
	return false
}
