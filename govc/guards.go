package main

// Static guard clauses (must-analysis over the SSA control-flow graph; no SMT):
//
//   guarded [tag] CALLEE(p1, ..., pn) by GUARD(q1, ..., qm) is true|false
//   guarded [tag] CALLEE(p1, ..., pn) by lookup(M, K) is true|false
//
// Meaning: in the function that carries the clause, EVERY call site of CALLEE (by short name; method receivers
// of static calls are the first argument, interface-method calls list only the parameters) has arguments of the
// shape p1..pn, and is dominated by the stated outcome of a guard: an `if` whose condition is (the negation
// of) the result of a call GUARD(q1..qm) -- or the comma-ok result of the map lookup M[K] -- such that every
// path from the function entry to the call site takes the edge of that `if` on which the guard has the stated
// value. Metavariables ($x) occurring in both patterns must denote THE SAME VALUE at the guard and at the call.
//
// Patterns:  _            anything
//            $x           metavariable (all occurrences bind structurally equal symbolic values)
//            "s"  42      constant with that value (named constants of string / integer kind are compared by value)
//            f(p, ...)    the (first) result of a call to f whose arguments match; f(p, ...)#k = result k
//            {p, ...}     a composite literal / struct value with these fields, in order
//            p.Name       field Name of the value matched by p (a pointer is dereferenced)
//            lookup(m, k) the value of the map lookup m[k]
//            @name        the current content of the local variable `name`
// The guarded item may also be the pseudo call set_<Field>(p): every store of a value of shape p to a struct
// field called <Field> (stores of other values are not subject to the clause).
//
// Symbolic values. The analysis runs on go/ssa in NaiveForm, where every named local is a memory cell. A load
// of a local cell is resolved to the value stored into it when the cell does not escape (only loaded, stored and
// field-addressed) and the store is unique and dominates the load; composite literals are resolved field by
// field; a cell with several stores is the opaque value "current content of that variable" (equal to itself).
// Escaping cells, phis and loads through computed addresses are opaque values that match only `_`. Heap reads
// (p.f, s[i], m[k]) are symbolic terms over their base; two occurrences are taken to be equal when their terms are
// equal (assumption, reported with the obligation: the heap location is not written between the guard and the
// call; the analysis checks that the carrying function itself contains no store to such a struct field).
//
// Soundness. Let X be the block of the guarding `if` and X->F the edge with the stated outcome.
//  (1) Edge dominance: every entry-to-call path traverses X->F (checked by deleting the edge and testing
//      reachability). Then on every path the LAST execution of X before the call U takes X->F: otherwise splice
//      the suffix after that X onto a shortest entry->X path (which cannot use an edge leaving X) and obtain an
//      entry->U path avoiding the edge.
//  (2) Same value: every definition point (store into a local cell, allocation of the cell, call instruction) of a
//      value that occurs on the guard side or is bound to a metavariable must not lie in the segment between the
//      guarded edge and the call, i.e. on no path F ... U that avoids X (computed by forward reachability from F
//      and backward reachability from U, both without X; if U's block lies on a cycle avoiding X the whole block
//      counts). By (1) the path from the last X to U is such a segment, so none of these definition points
//      executes between the evaluation of the guard and the call: guard and call see the same dynamic values.
//      Values that occur only on the call side (e.g. the log returned by getPartitionLog after the guard) need no
//      such condition; their own sub-values that are bound to metavariables do.

import (
	"fmt"
	"go/constant"
	"go/token"
	"go/types"
	"sort"
	"strconv"
	"strings"

	"golang.org/x/tools/go/ssa"
)

type GuardClause struct {
	// Selective (`guarded_where`): only the call sites whose arguments match the callee pattern are subject to the
	// clause (at least one must exist); plain `guarded` demands the shape of every call site of that name
	Selective bool
	Tag       string
	Src       string
	Callee    *gpat
	Guard     *gpat
	Want      bool
	File      string
	Line      int
}

// gpat: pattern node
type gpat struct {
	kind string // any | var | str | int | call | struct | field | lookup
	name string
	idx  int // result index for call
	args []*gpat
}

func (p *gpat) String() string {
	switch p.kind {
	case "any":
		return "_"
	case "var":
		return "$" + p.name
	case "local":
		return "@" + p.name
	case "str":
		return strconv.Quote(p.name)
	case "int":
		return p.name
	case "call":
		s := p.name + "(" + joinPats(p.args) + ")"
		if p.idx > 0 {
			s += fmt.Sprintf("#%d", p.idx)
		}
		return s
	case "struct":
		return "{" + joinPats(p.args) + "}"
	case "field":
		return p.args[0].String() + "." + p.name
	case "lookup":
		return "lookup(" + joinPats(p.args) + ")"
	}
	return "?"
}

func joinPats(ps []*gpat) string {
	var out []string
	for _, p := range ps {
		out = append(out, p.String())
	}
	return strings.Join(out, ", ")
}

type gpatParser struct {
	s   string
	pos int
}

func (p *gpatParser) ws() {
	for p.pos < len(p.s) && (p.s[p.pos] == ' ' || p.s[p.pos] == '\t') {
		p.pos++
	}
}

func (p *gpatParser) peek() byte {
	p.ws()
	if p.pos < len(p.s) {
		return p.s[p.pos]
	}
	return 0
}

func isIdentByte(c byte) bool {
	return c == '_' || c >= 'a' && c <= 'z' || c >= 'A' && c <= 'Z' || c >= '0' && c <= '9'
}

func (p *gpatParser) ident() string {
	p.ws()
	st := p.pos
	for p.pos < len(p.s) && isIdentByte(p.s[p.pos]) {
		p.pos++
	}
	return p.s[st:p.pos]
}

func (p *gpatParser) list(close byte) ([]*gpat, error) {
	var out []*gpat
	if p.peek() == close {
		p.pos++
		return out, nil
	}
	for {
		a, err := p.parse()
		if err != nil {
			return nil, err
		}
		out = append(out, a)
		switch p.peek() {
		case ',':
			p.pos++
		case close:
			p.pos++
			return out, nil
		default:
			return nil, fmt.Errorf("expected ',' or '%c' at %q", close, p.s[p.pos:])
		}
	}
}

func (p *gpatParser) parse() (*gpat, error) {
	var n *gpat
	c := p.peek()
	switch {
	case c == '$':
		p.pos++
		n = &gpat{kind: "var", name: p.ident()}
	case c == '@':
		p.pos++
		n = &gpat{kind: "local", name: p.ident()}
	case c == '"':
		st := p.pos
		p.pos++
		for p.pos < len(p.s) && p.s[p.pos] != '"' {
			if p.s[p.pos] == '\\' {
				p.pos++
			}
			p.pos++
		}
		p.pos++
		v, err := strconv.Unquote(p.s[st:p.pos])
		if err != nil {
			return nil, err
		}
		n = &gpat{kind: "str", name: v}
	case c == '{':
		p.pos++
		as, err := p.list('}')
		if err != nil {
			return nil, err
		}
		n = &gpat{kind: "struct", args: as}
	case c == '-' || c >= '0' && c <= '9':
		st := p.pos
		p.pos++
		for p.pos < len(p.s) && p.s[p.pos] >= '0' && p.s[p.pos] <= '9' {
			p.pos++
		}
		n = &gpat{kind: "int", name: p.s[st:p.pos]}
	default:
		id := p.ident()
		if id == "" {
			return nil, fmt.Errorf("pattern expected at %q", p.s[p.pos:])
		}
		if id == "_" {
			n = &gpat{kind: "any"}
		} else if p.peek() == '(' {
			p.pos++
			as, err := p.list(')')
			if err != nil {
				return nil, err
			}
			if id == "lookup" {
				if len(as) != 2 {
					return nil, fmt.Errorf("lookup(m, k)")
				}
				n = &gpat{kind: "lookup", args: as}
			} else {
				n = &gpat{kind: "call", name: id, args: as}
				if p.peek() == '#' {
					p.pos++
					k, err := strconv.Atoi(p.ident())
					if err != nil {
						return nil, fmt.Errorf("result index: %v", err)
					}
					n.idx = k
				}
			}
		} else {
			return nil, fmt.Errorf("unexpected identifier %q in pattern (use _, $x, a literal, f(...), {...})", id)
		}
	}
	for p.peek() == '.' {
		p.pos++
		n = &gpat{kind: "field", name: p.ident(), args: []*gpat{n}}
	}
	return n, nil
}

// parseGuardClause parses "[tag] CALLEE(...) by GUARD(...) is true|false".
func parseGuardClause(rest, file string, line int) (*GuardClause, error) {
	g := &GuardClause{Src: rest, File: file, Line: line}
	rest = strings.TrimSpace(rest)
	if strings.HasPrefix(rest, "[") {
		k := strings.Index(rest, "]")
		if k < 0 {
			return nil, fmt.Errorf("bad tag")
		}
		g.Tag = rest[1:k]
		rest = strings.TrimSpace(rest[k+1:])
	}
	k := strings.Index(rest, " by ")
	if k < 0 {
		return nil, fmt.Errorf("guarded CALLEE(..) by GUARD(..) is true|false")
	}
	left, right := rest[:k], strings.TrimSpace(rest[k+4:])
	j := strings.LastIndex(right, " is ")
	if j < 0 {
		return nil, fmt.Errorf("guarded ... is true|false")
	}
	switch strings.TrimSpace(right[j+4:]) {
	case "true":
		g.Want = true
	case "false":
		g.Want = false
	default:
		return nil, fmt.Errorf("guarded ... is true|false")
	}
	right = right[:j]
	var err error
	lp := &gpatParser{s: left}
	if g.Callee, err = lp.parse(); err != nil {
		return nil, err
	}
	if lp.peek() != 0 || g.Callee.kind != "call" {
		return nil, fmt.Errorf("guarded: the guarded item must be a call pattern f(...)")
	}
	rp := &gpatParser{s: right}
	if g.Guard, err = rp.parse(); err != nil {
		return nil, err
	}
	if rp.peek() != 0 || (g.Guard.kind != "call" && g.Guard.kind != "lookup") {
		return nil, fmt.Errorf("guarded: the guard must be a call pattern f(...) or lookup(m, k)")
	}
	return g, nil
}

// ---------------------------------------------------------------------------
// symbolic values

type gsym struct {
	kind string // const | param | call | extract | field | heap | elem | struct | lookup | lookupok | not | binop | varargs | global | unknown
	name string
	idx  int
	args []*gsym
	val  constant.Value
	ref  interface{}       // identity for param / unknown / call instruction
	defs []ssa.Instruction // mutation / evaluation points this value depends on (stores into local cells, allocations, calls)
	heap []string          // heap locations read ("T.f")
	// cellName: when the value was read out of a local variable, the variable's name (pattern @name)
	cellName string
}

func (s *gsym) String() string {
	if s == nil {
		return "<nil>"
	}
	switch s.kind {
	case "const":
		if s.val == nil {
			return "nil"
		}
		return s.val.String()
	case "param", "global":
		return s.name
	case "cell":
		return "var " + s.name
	case "unknown":
		return "?" + s.name
	case "field", "heap":
		return s.args[0].String() + "." + s.name
	case "extract":
		return fmt.Sprintf("%s#%d", s.args[0], s.idx)
	}
	var as []string
	for _, a := range s.args {
		as = append(as, a.String())
	}
	return s.kind + ":" + s.name + "(" + strings.Join(as, ", ") + ")"
}

func gsymEqual(a, b *gsym) bool {
	if a == nil || b == nil {
		return false
	}
	if a == b && a.kind != "unknown" {
		return true
	}
	if a.kind != b.kind || a.name != b.name || a.idx != b.idx || len(a.args) != len(b.args) {
		return false
	}
	switch a.kind {
	case "unknown":
		return a.ref != nil && a.ref == b.ref
	case "param", "global", "cell":
		return a.ref == b.ref
	case "call":
		if a.ref != b.ref { // two different call instructions are different values
			return false
		}
	case "const":
		if a.val == nil || b.val == nil {
			return a.val == nil && b.val == nil
		}
		return constant.Compare(a.val, token.EQL, b.val)
	}
	for i := range a.args {
		if !gsymEqual(a.args[i], b.args[i]) {
			return false
		}
	}
	return true
}

type guardAnalysis struct {
	e     *Engine
	fn    *ssa.Function
	memo  map[ssa.Value]*gsym
	notes map[string]bool
	// nested: call instructions matched by call patterns while matching the current site's arguments
	nested []nestedCall
}

// nestedCall: a call instruction matched by a nested call pattern together with the metavariables that occur in
// that pattern's arguments (the values that were read when the nested call was made).
type nestedCall struct {
	ci   ssa.Instruction
	vars map[string]bool
}

func patVars(p *gpat, out map[string]bool) {
	if p.kind == "var" {
		out[p.name] = true
	}
	for _, a := range p.args {
		patVars(a, out)
	}
}

func instrBefore(a, b ssa.Instruction) bool {
	// a strictly before b in the same block
	for _, in := range a.Block().Instrs {
		if in == a {
			return true
		}
		if in == b {
			return false
		}
	}
	return false
}

// defDominates: definition instruction d is executed before use u on every path (block dominance / same block order).
func defDominates(d, u ssa.Instruction) bool {
	if d.Block() == u.Block() {
		return instrBefore(d, u)
	}
	return d.Block().Dominates(u.Block())
}

// cellInfo classifies the referrers of a local Alloc.
type cellInfo struct {
	escapes     bool
	whole       []*ssa.Store
	fieldStores map[int][]*ssa.Store
	otherAddr   bool // IndexAddr or nested addressing used for stores
}

func (ga *guardAnalysis) cell(a *ssa.Alloc) *cellInfo {
	ci := &cellInfo{fieldStores: map[int][]*ssa.Store{}}
	refs := a.Referrers()
	if refs == nil {
		ci.escapes = true
		return ci
	}
	for _, r := range *refs {
		switch x := r.(type) {
		case *ssa.Store:
			if x.Addr == a {
				ci.whole = append(ci.whole, x)
			} else {
				ci.escapes = true // the address itself is stored somewhere
			}
		case *ssa.UnOp:
			if x.Op != token.MUL {
				ci.escapes = true
			}
		case *ssa.DebugRef:
		case *ssa.FieldAddr:
			frefs := x.Referrers()
			if frefs == nil {
				ci.escapes = true
				continue
			}
			for _, fr := range *frefs {
				switch y := fr.(type) {
				case *ssa.Store:
					if y.Addr == x {
						ci.fieldStores[x.Field] = append(ci.fieldStores[x.Field], y)
					} else {
						ci.escapes = true
					}
				case *ssa.UnOp:
					if y.Op != token.MUL {
						ci.escapes = true
					}
				case *ssa.DebugRef:
				default:
					// nested field address, method call on the field, ...: the cell may be modified through it
					ci.escapes = true
				}
			}
		case *ssa.IndexAddr:
			irefs := x.Referrers()
			if irefs == nil {
				ci.escapes = true
				continue
			}
			for _, ir := range *irefs {
				switch y := ir.(type) {
				case *ssa.Store:
					if y.Addr == x {
						ci.otherAddr = true
					} else {
						ci.escapes = true
					}
				case *ssa.UnOp:
				case *ssa.DebugRef:
				default:
					ci.escapes = true
				}
			}
		case *ssa.Slice:
			// varargs array sliced and passed on: handled by the varargs rule; treat as non-escaping only there
			ci.otherAddr = true
		default:
			ci.escapes = true
		}
	}
	return ci
}

func (ga *guardAnalysis) unknown(v ssa.Value, why string) *gsym {
	return &gsym{kind: "unknown", name: v.Name() + "(" + why + ")", ref: v}
}

func mergeDefs(dst *gsym, srcs ...*gsym) {
	for _, s := range srcs {
		if s == nil {
			continue
		}
		dst.defs = append(dst.defs, s.defs...)
		dst.heap = append(dst.heap, s.heap...)
	}
}

func fieldName(t types.Type, i int) string {
	if p, ok := t.Underlying().(*types.Pointer); ok {
		t = p.Elem()
	}
	if st, ok := t.Underlying().(*types.Struct); ok && i < st.NumFields() {
		return st.Field(i).Name()
	}
	return fmt.Sprintf("f%d", i)
}

func typeShort(t types.Type) string {
	if p, ok := t.Underlying().(*types.Pointer); ok {
		t = p.Elem()
	}
	if n, ok := t.(*types.Named); ok {
		return n.Obj().Name()
	}
	return t.String()
}

// cellSym: an opaque value for "the current content of local cell a"; two loads are equal when no store to the
// cell (and no re-allocation of it) can execute between them, which the segment rule of checkGuarded enforces
// through the definition points recorded here.
func (ga *guardAnalysis) cellSym(a *ssa.Alloc, ci *cellInfo) *gsym {
	r := &gsym{kind: "cell", name: a.Comment, ref: a}
	r.defs = append(r.defs, a)
	for _, st := range ci.whole {
		r.defs = append(r.defs, st)
	}
	for _, sts := range ci.fieldStores {
		for _, st := range sts {
			r.defs = append(r.defs, st)
		}
	}
	return r
}

// loadCell: the value a load `at` sees in local cell a.
func (ga *guardAnalysis) loadCell(a *ssa.Alloc, at ssa.Instruction) *gsym {
	ci := ga.cell(a)
	if ci.escapes || ci.otherAddr {
		return ga.unknown(a, "cell escapes or is written through an index")
	}
	if len(ci.fieldStores) == 0 {
		if len(ci.whole) != 1 || !defDominates(ci.whole[0], at) {
			return ga.cellSym(a, ci)
		}
		st := ci.whole[0]
		v := ga.symOf(st.Val, st)
		r := *v
		r.defs = append(append([]ssa.Instruction(nil), v.defs...), st)
		r.cellName = a.Comment
		return &r
	}
	// composite literal: no whole store, each field stored at most once
	stt, ok := a.Type().(*types.Pointer).Elem().Underlying().(*types.Struct)
	if len(ci.whole) != 0 || !ok {
		return ga.cellSym(a, ci)
	}
	r := &gsym{kind: "struct", name: typeShort(a.Type()), cellName: a.Comment}
	for i := 0; i < stt.NumFields(); i++ {
		sts := ci.fieldStores[i]
		switch {
		case len(sts) == 0:
			r.args = append(r.args, &gsym{kind: "const", name: "zero"})
		case len(sts) == 1 && defDominates(sts[0], at):
			fv := ga.symOf(sts[0].Val, sts[0])
			r.args = append(r.args, fv)
			mergeDefs(r, fv)
			r.defs = append(r.defs, sts[0])
		default:
			return ga.cellSym(a, ci)
		}
	}
	return r
}

func (ga *guardAnalysis) symOf(v ssa.Value, at ssa.Instruction) *gsym {
	switch x := v.(type) {
	case *ssa.Const:
		return &gsym{kind: "const", val: x.Value}
	case *ssa.Parameter:
		return &gsym{kind: "param", name: x.Name(), ref: x}
	case *ssa.FreeVar:
		return &gsym{kind: "param", name: x.Name(), ref: x}
	case *ssa.Global:
		return &gsym{kind: "global", name: x.Name(), ref: x}
	case *ssa.Function:
		return &gsym{kind: "global", name: x.Name(), ref: x}
	}
	if m, ok := ga.memo[v]; ok {
		return m
	}
	r := ga.symOf1(v, at)
	ga.memo[v] = r
	return r
}

func (ga *guardAnalysis) symOf1(v ssa.Value, at ssa.Instruction) *gsym {
	switch x := v.(type) {
	case *ssa.Call:
		r := &gsym{kind: "call", name: calleeShortName(x.Common()), ref: x}
		for _, a := range ga.callArgs(x.Common(), x) {
			r.args = append(r.args, a)
			mergeDefs(r, a)
		}
		r.defs = append(r.defs, x)
		return r
	case *ssa.Extract:
		t := ga.symOf(x.Tuple, x)
		if t.kind == "lookup" && x.Index == 1 {
			r := &gsym{kind: "lookupok", args: t.args}
			mergeDefs(r, t)
			return r
		}
		if t.kind == "lookup" && x.Index == 0 {
			return t
		}
		r := &gsym{kind: "extract", idx: x.Index, args: []*gsym{t}}
		mergeDefs(r, t)
		return r
	case *ssa.UnOp:
		switch x.Op {
		case token.NOT:
			a := ga.symOf(x.X, x)
			r := &gsym{kind: "not", args: []*gsym{a}}
			mergeDefs(r, a)
			return r
		case token.MUL:
			switch ad := x.X.(type) {
			case *ssa.Alloc:
				if ad.Heap {
					// escaping local (captured or address taken): still resolvable when its referrers are benign
				}
				return ga.loadCell(ad, x)
			case *ssa.FieldAddr:
				if base, ok := ad.X.(*ssa.Alloc); ok {
					whole := ga.loadCell(base, x)
					if whole.kind == "struct" && ad.Field < len(whole.args) {
						f := whole.args[ad.Field]
						r := *f
						r.defs = append(append([]ssa.Instruction(nil), f.defs...), whole.defs...)
						return &r
					}
					r := &gsym{kind: "field", name: fieldName(base.Type(), ad.Field), idx: ad.Field, args: []*gsym{whole}}
					mergeDefs(r, whole)
					return r
				}
				b := ga.symOf(ad.X, x)
				r := &gsym{kind: "heap", name: fieldName(ad.X.Type(), ad.Field), idx: ad.Field, args: []*gsym{b}}
				mergeDefs(r, b)
				r.heap = append(r.heap, typeShort(ad.X.Type())+"."+r.name)
				return r
			case *ssa.IndexAddr:
				b := ga.symOf(ad.X, x)
				i := ga.symOf(ad.Index, x)
				r := &gsym{kind: "elem", args: []*gsym{b, i}}
				mergeDefs(r, b, i)
				r.heap = append(r.heap, "elements of "+ad.X.Type().String())
				return r
			case *ssa.Global:
				return &gsym{kind: "global", name: ad.Name(), ref: ad}
			}
			return ga.unknown(v, "load through computed address")
		}
		return ga.unknown(v, "unary "+x.Op.String())
	case *ssa.Field:
		a := ga.symOf(x.X, x)
		if a.kind == "struct" && x.Field < len(a.args) {
			return a.args[x.Field]
		}
		r := &gsym{kind: "field", name: fieldName(x.X.Type(), x.Field), idx: x.Field, args: []*gsym{a}}
		mergeDefs(r, a)
		return r
	case *ssa.MakeInterface:
		return ga.symOf(x.X, x)
	case *ssa.ChangeType:
		return ga.symOf(x.X, x)
	case *ssa.ChangeInterface:
		return ga.symOf(x.X, x)
	case *ssa.Convert:
		a := ga.symOf(x.X, x)
		if a.kind == "const" {
			return a
		}
		r := &gsym{kind: "binop", name: "convert:" + x.Type().String(), args: []*gsym{a}}
		mergeDefs(r, a)
		return r
	case *ssa.TypeAssert:
		a := ga.symOf(x.X, x)
		r := &gsym{kind: "binop", name: "assert:" + x.AssertedType.String(), args: []*gsym{a}}
		mergeDefs(r, a)
		return r
	case *ssa.Lookup:
		m := ga.symOf(x.X, x)
		k := ga.symOf(x.Index, x)
		r := &gsym{kind: "lookup", args: []*gsym{m, k}}
		mergeDefs(r, m, k)
		r.heap = append(r.heap, "entries of "+x.X.Type().String())
		return r
	case *ssa.BinOp:
		a, b := ga.symOf(x.X, x), ga.symOf(x.Y, x)
		r := &gsym{kind: "binop", name: x.Op.String(), args: []*gsym{a, b}}
		mergeDefs(r, a, b)
		return r
	case *ssa.Slice:
		// varargs: slice of a fresh array whose elements are stored once each
		if al, ok := x.X.(*ssa.Alloc); ok && x.Low == nil && x.High == nil {
			if at, ok := al.Type().(*types.Pointer).Elem().Underlying().(*types.Array); ok {
				r := &gsym{kind: "varargs"}
				elems := make([]*gsym, at.Len())
				okAll := true
				if refs := al.Referrers(); refs != nil {
					for _, rf := range *refs {
						switch y := rf.(type) {
						case *ssa.IndexAddr:
							c, isC := y.Index.(*ssa.Const)
							if !isC {
								okAll = false
								continue
							}
							i, _ := constant.Int64Val(c.Value)
							if yr := y.Referrers(); yr != nil {
								for _, st := range *yr {
									if s2, ok := st.(*ssa.Store); ok && s2.Addr == y && i >= 0 && i < at.Len() && elems[i] == nil {
										elems[i] = ga.symOf(s2.Val, s2)
									} else {
										okAll = false
									}
								}
							}
						case *ssa.Slice:
							if y != x {
								okAll = false
							}
						case *ssa.DebugRef:
						default:
							okAll = false
						}
					}
				}
				for _, el := range elems {
					if el == nil {
						okAll = false
					}
				}
				if okAll {
					r.args = elems
					mergeDefs(r, elems...)
					return r
				}
			}
		}
		return ga.unknown(v, "slice")
	case *ssa.Alloc:
		return ga.unknown(v, "address of local")
	}
	return ga.unknown(v, fmt.Sprintf("%T", v))
}

// callArgs: symbolic arguments of a call (receiver first for static method calls; variadic tail expanded).
func (ga *guardAnalysis) callArgs(cc *ssa.CallCommon, at ssa.Instruction) []*gsym {
	var out []*gsym
	for _, a := range cc.Args {
		out = append(out, ga.symOf(a, at))
	}
	if n := len(out); n > 0 && out[n-1].kind == "varargs" {
		va := out[n-1]
		out = append(out[:n-1], va.args...)
	}
	return out
}

// ---------------------------------------------------------------------------
// matching

type gbind map[string]*gsym

func constMatches(s *gsym, p *gpat) bool {
	if s.kind != "const" || s.val == nil {
		return false
	}
	switch p.kind {
	case "str":
		return s.val.Kind() == constant.String && constant.StringVal(s.val) == p.name
	case "int":
		if s.val.Kind() != constant.Int {
			return false
		}
		want, err := strconv.ParseInt(p.name, 10, 64)
		got, exact := constant.Int64Val(s.val)
		return err == nil && exact && want == got
	}
	return false
}

func (ga *guardAnalysis) match(p *gpat, s *gsym, b gbind) bool {
	switch p.kind {
	case "any":
		return true
	case "var":
		if s.kind == "unknown" {
			return false
		}
		if old, ok := b[p.name]; ok {
			return gsymEqual(old, s)
		}
		b[p.name] = s
		return true
	case "str", "int":
		return constMatches(s, p)
	case "local":
		return (s.kind == "cell" && s.name == p.name) || (s.cellName == p.name && s.kind != "unknown")
	case "call":
		t := s
		if t.kind == "extract" {
			if t.idx != p.idx {
				return false
			}
			t = t.args[0]
		} else if p.idx != 0 {
			return false
		}
		if t.kind != "call" || t.name != p.name || len(t.args) != len(p.args) {
			return false
		}
		for i := range p.args {
			if !ga.match(p.args[i], t.args[i], b) {
				return false
			}
		}
		if ci, ok := t.ref.(ssa.Instruction); ok {
			vs := map[string]bool{}
			for _, a := range p.args {
				patVars(a, vs)
			}
			if len(vs) > 0 {
				ga.nested = append(ga.nested, nestedCall{ci, vs})
			}
		}
		return true
	case "struct":
		if s.kind != "struct" || len(s.args) != len(p.args) {
			return false
		}
		for i := range p.args {
			if !ga.match(p.args[i], s.args[i], b) {
				return false
			}
		}
		return true
	case "field":
		if (s.kind != "field" && s.kind != "heap") || s.name != p.name {
			return false
		}
		return ga.match(p.args[0], s.args[0], b)
	case "lookup":
		if s.kind != "lookup" {
			return false
		}
		return ga.match(p.args[0], s.args[0], b) && ga.match(p.args[1], s.args[1], b)
	}
	return false
}

func copyBind(b gbind) gbind {
	n := gbind{}
	for k, v := range b {
		n[k] = v
	}
	return n
}

// edgeDominates: every path from the entry block to u traverses the edge x -> x.Succs[k].
func edgeDominates(fn *ssa.Function, x *ssa.BasicBlock, k int, u *ssa.BasicBlock) bool {
	if len(fn.Blocks) == 0 || len(x.Succs) != 2 || x.Succs[0] == x.Succs[1] {
		return false
	}
	seen := map[*ssa.BasicBlock]bool{fn.Blocks[0]: true}
	work := []*ssa.BasicBlock{fn.Blocks[0]}
	if fn.Blocks[0] == u {
		return false
	}
	for len(work) > 0 {
		b := work[len(work)-1]
		work = work[:len(work)-1]
		for i, s := range b.Succs {
			if b == x && i == k {
				continue
			}
			if s == u {
				return false
			}
			if !seen[s] {
				seen[s] = true
				work = append(work, s)
			}
		}
	}
	// u must be reachable at all through the edge (otherwise the clause is vacuous for dead code: accept)
	return true
}

// edgeDominatesInstr: definition point d lies behind the guarded edge.
func edgeDominatesInstr(fn *ssa.Function, x *ssa.BasicBlock, k int, d ssa.Instruction) bool {
	return d.Block() != x && edgeDominates(fn, x, k, d.Block())
}

// segment: the instructions that can execute between the guarded edge x -> x.Succs[k] and the instruction u on a
// path that does not pass through x again.
type segment struct {
	blocks map[*ssa.BasicBlock]bool // blocks entirely inside
	u      ssa.Instruction
	after  ssa.Instruction // set for newSegmentAfter: the segment starts right after this instruction
	uWhole bool            // u's block lies on a cycle avoiding x: all of it is inside
	uIn    bool            // u's block is reachable from the edge at all
}

func newSegment(fn *ssa.Function, x *ssa.BasicBlock, k int, u ssa.Instruction) *segment {
	sg := &segment{blocks: map[*ssa.BasicBlock]bool{}, u: u}
	start := x.Succs[k]
	fwd := map[*ssa.BasicBlock]bool{}
	if start != x {
		fwd[start] = true
		work := []*ssa.BasicBlock{start}
		for len(work) > 0 {
			b := work[len(work)-1]
			work = work[:len(work)-1]
			for _, sc := range b.Succs {
				if sc != x && !fwd[sc] {
					fwd[sc] = true
					work = append(work, sc)
				}
			}
		}
	}
	ub := u.Block()
	bwd := map[*ssa.BasicBlock]bool{ub: true}
	work := []*ssa.BasicBlock{ub}
	for len(work) > 0 {
		b := work[len(work)-1]
		work = work[:len(work)-1]
		for _, pr := range b.Preds {
			if pr != x && !bwd[pr] {
				bwd[pr] = true
				work = append(work, pr)
			}
		}
	}
	for b := range fwd {
		if bwd[b] && b != ub {
			sg.blocks[b] = true
		}
	}
	sg.uIn = fwd[ub]
	// is u's block on a cycle that avoids x? (then instructions after u can run before a later arrival at u)
	for _, sc := range ub.Succs {
		if sc != x && (sc == ub || (fwd[sc] && bwd[sc])) {
			sg.uWhole = true
		}
	}
	return sg
}

// newSegmentAfter: the instructions that can execute after instruction c and before u on a path that does not
// execute c again.
func newSegmentAfter(c, u ssa.Instruction) *segment {
	sg := &segment{blocks: map[*ssa.BasicBlock]bool{}, u: u, after: c}
	cb, ub := c.Block(), u.Block()
	fwd := map[*ssa.BasicBlock]bool{}
	var work []*ssa.BasicBlock
	for _, sc := range cb.Succs {
		if sc != cb && !fwd[sc] {
			fwd[sc] = true
			work = append(work, sc)
		}
	}
	for len(work) > 0 {
		b := work[len(work)-1]
		work = work[:len(work)-1]
		for _, sc := range b.Succs {
			if sc != cb && !fwd[sc] {
				fwd[sc] = true
				work = append(work, sc)
			}
		}
	}
	bwd := map[*ssa.BasicBlock]bool{ub: true}
	work = []*ssa.BasicBlock{ub}
	for len(work) > 0 {
		b := work[len(work)-1]
		work = work[:len(work)-1]
		if b == cb {
			continue
		}
		for _, pr := range b.Preds {
			if !bwd[pr] {
				bwd[pr] = true
				if pr != cb {
					work = append(work, pr)
				}
			}
		}
	}
	for b := range fwd {
		if bwd[b] && b != ub && b != cb {
			sg.blocks[b] = true
		}
	}
	sg.uIn = fwd[ub] || ub == cb
	for _, sc := range ub.Succs {
		if ub != cb && sc != cb && (sc == ub || (fwd[sc] && bwd[sc])) {
			sg.uWhole = true
		}
	}
	return sg
}

func (sg *segment) contains(d ssa.Instruction) bool {
	if sg.after != nil && d.Block() == sg.after.Block() {
		// the block of the starting instruction: what follows it (up to u when u is in the same block)
		if !instrBefore(sg.after, d) {
			return false
		}
		if sg.u.Block() == sg.after.Block() {
			return instrBefore(d, sg.u)
		}
		return true
	}
	b := d.Block()
	if b == nil {
		return false
	}
	if b == sg.u.Block() {
		if !sg.uIn {
			return false
		}
		return sg.uWhole || instrBefore(d, sg.u)
	}
	return sg.blocks[b]
}

type guardSite struct {
	ifi    *ssa.If
	cond   *gsym
	negate bool
}

// checkGuarded evaluates every guarded clause of the contract on fn and records one obligation per clause.
func (e *Engine) checkGuarded(s *State, fn *ssa.Function, c *FuncContract) {
	if len(c.Guards) == 0 || fn.Blocks == nil {
		return
	}
	ga := &guardAnalysis{e: e, fn: fn, memo: map[ssa.Value]*gsym{}, notes: map[string]bool{}}
	// all conditional branches with their symbolic conditions
	var ifs []guardSite
	for _, b := range fn.Blocks {
		if len(b.Instrs) == 0 {
			continue
		}
		ifi, ok := b.Instrs[len(b.Instrs)-1].(*ssa.If)
		if !ok {
			continue
		}
		cs := ga.symOf(ifi.Cond, ifi)
		neg := false
		for cs.kind == "not" {
			cs = cs.args[0]
			neg = !neg
		}
		ifs = append(ifs, guardSite{ifi, cs, neg})
	}
	// stores to heap fields inside fn itself (for the "not written in between" side condition)
	heapStores := map[string]string{}
	for _, b := range fn.Blocks {
		for _, in := range b.Instrs {
			if st, ok := in.(*ssa.Store); ok {
				if fa, ok := st.Addr.(*ssa.FieldAddr); ok {
					if _, local := fa.X.(*ssa.Alloc); !local {
						heapStores[typeShort(fa.X.Type())+"."+fieldName(fa.X.Type(), fa.Field)] = posString(e.fset, st.Pos())
					}
				}
			}
		}
	}
	for _, g := range c.Guards {
		if !clauseInScope(g.Tag) {
			continue
		}
		sites := 0
		var bad []string
		heapUsed := map[string]bool{}
		for _, b := range fn.Blocks {
			for _, in := range b.Instrs {
				var cc *ssa.CallCommon
				switch x := in.(type) {
				case *ssa.Call:
					cc = x.Common()
				case *ssa.Defer:
					cc = x.Common()
				case *ssa.Go:
					cc = x.Common()
				}
				var args []*gsym
				selecting := false
				if cc != nil && calleeShortName(cc) == g.Callee.name {
					args = ga.callArgs(cc, in)
				} else if st, ok := in.(*ssa.Store); ok && strings.HasPrefix(g.Callee.name, "set_") {
					// pseudo call set_<Field>(value): a store to a struct field of that name; only the stores whose value
					// matches the argument pattern are selected (the others are not subject to the clause)
					fa, ok := st.Addr.(*ssa.FieldAddr)
					if !ok || "set_"+fieldName(fa.X.Type(), fa.Field) != g.Callee.name {
						continue
					}
					args = []*gsym{ga.symOf(st.Val, st)}
					selecting = true
					if len(g.Callee.args) != 1 || !ga.match(g.Callee.args[0], args[0], gbind{}) {
						continue
					}
				} else {
					continue
				}
				if g.Selective && !selecting {
					if len(args) != len(g.Callee.args) {
						continue
					}
					okSel := true
					selBind := gbind{}
					for i := range args {
						if !ga.match(g.Callee.args[i], args[i], selBind) {
							okSel = false
							break
						}
					}
					if !okSel {
						continue
					}
				}
				sites++
				pos := posString(e.fset, in.Pos())
				if len(args) != len(g.Callee.args) {
					bad = append(bad, fmt.Sprintf("%s: call has %d arguments, pattern %d", pos, len(args), len(g.Callee.args)))
					continue
				}
				bind := gbind{}
				okShape := true
				ga.nested = nil
				for i := range args {
					if !ga.match(g.Callee.args[i], args[i], bind) {
						bad = append(bad, fmt.Sprintf("%s: argument %d is %s, not of the shape %s", pos, i, args[i], g.Callee.args[i]))
						okShape = false
						break
					}
				}
				if !okShape {
					continue
				}
				siteNested := append([]nestedCall(nil), ga.nested...)
				// values bound inside the arguments of an earlier call whose RESULT is used here (f(g($t)) patterns) must
				// be stable from that call to this site: the call may lie before the guard
				for _, nc := range siteNested {
					ci := nc.ci
					sg := newSegmentAfter(ci, in)
					for vn, v := range bind {
						if !nc.vars[vn] {
							continue
						}
						for _, d := range v.defs {
							if d != ci && d != in && sg.contains(d) {
								bad = append(bad, fmt.Sprintf("%s: value %s bound at the call at %s may be redefined at %s before it is used here", pos, v, posString(e.fset, ci.Pos()), posString(e.fset, d.Pos())))
								okShape = false
							}
						}
					}
				}
				if !okShape {
					continue
				}
				found := false
				why := "no dominating guard " + g.Guard.String() + " with the stated outcome"
				for _, gs := range ifs {
					gb := copyBind(bind)
					ga.nested = nil
					cond := gs.cond
					var condArgs *gsym
					switch g.Guard.kind {
					case "call":
						if cond.kind != "call" || cond.name != g.Guard.name || len(cond.args) != len(g.Guard.args) {
							continue
						}
						okG := true
						for i := range cond.args {
							if !ga.match(g.Guard.args[i], cond.args[i], gb) {
								okG = false
								break
							}
						}
						if !okG {
							continue
						}
						condArgs = cond
					case "lookup":
						if cond.kind != "lookupok" {
							continue
						}
						if !ga.match(g.Guard.args[0], cond.args[0], gb) || !ga.match(g.Guard.args[1], cond.args[1], gb) {
							continue
						}
						condArgs = cond
					}
					// which successor edge carries the wanted outcome
					k := 0 // Succs[0]: condition true
					if g.Want == gs.negate {
						k = 1
					}
					x := gs.ifi.Block()
					if !edgeDominates(fn, x, k, in.Block()) {
						why = fmt.Sprintf("guard at %s does not dominate the call with outcome %v", posString(e.fset, gs.ifi.Cond.Pos()), g.Want)
						continue
					}
					// same dynamic instances: no definition point of a value shared by guard and call (metavariable
					// bindings, the guard's own operands) may execute on the path segment from the guarded edge to the call
					okDefs := true
					// values bound inside the arguments of a call nested in the guard (allowTopics(.., topicsOf($r), ..))
					// must be stable from that nested call to the guarded site
					for _, nc := range ga.nested {
						ci := nc.ci
						sg2 := newSegmentAfter(ci, in)
						for vn, v := range gb {
							if !nc.vars[vn] {
								continue
							}
							for _, d := range v.defs {
								if d != ci && d != in && sg2.contains(d) {
									okDefs = false
									why = fmt.Sprintf("value %s bound at the nested call at %s may be redefined at %s before the guarded call", v, posString(e.fset, ci.Pos()), posString(e.fset, d.Pos()))
								}
							}
						}
					}
					var shared []*gsym
					for _, v := range gb {
						shared = append(shared, v)
					}
					shared = append(shared, condArgs)
					seg := newSegment(fn, x, k, in)
					for _, v := range shared {
						for _, d := range v.defs {
							if d != in && seg.contains(d) {
								okDefs = false
								why = fmt.Sprintf("value %s used by guard and call may be redefined at %s between them", v, posString(e.fset, d.Pos()))
							}
						}
						for _, h := range v.heap {
							heapUsed[h] = true
						}
					}
					if !okDefs {
						continue
					}
					found = true
					break
				}
				if !found {
					bad = append(bad, pos+": "+why)
				}
			}
		}
		var heapNotes []string
		for h := range heapUsed {
			if p, ok := heapStores[h]; ok {
				bad = append(bad, fmt.Sprintf("heap field %s read by guard/call is also written in this function at %s", h, p))
			}
			heapNotes = append(heapNotes, h)
		}
		sort.Strings(heapNotes)
		if len(heapNotes) > 0 {
			e.abstract("guarded clauses: heap locations read both at a guard and at the guarded call are assumed unchanged in between (no store to them in the carrying function itself; callees not analysed): " + strings.Join(heapNotes, ", "))
		}
		name := fmt.Sprintf("%s#guard:%s", e.rootKey, g.Tag)
		desc := fmt.Sprintf("%d call site(s) of %s, each dominated by %s is %v", sites, g.Callee.name, g.Guard, g.Want)
		goal := TTrue
		if sites == 0 {
			bad = append(bad, "no call site of "+g.Callee.name+" in this function (renamed or removed?)")
		}
		if len(bad) > 0 {
			goal = TFalse
			desc += ": " + strings.Join(bad, "; ")
		}
		s.addObligation("guard", name, g.Tag, fn.Pos(), goal, desc)
		o := e.obligations[len(e.obligations)-1]
		if len(bad) > 0 {
			o.Result = &SolverResult{Status: "sat", Solver: "static-guard-analysis", Output: strings.Join(bad, "; ")}
		} else {
			o.Result = &SolverResult{Status: "unsat", Solver: "static-guard-analysis"}
		}
	}
}

// ---------------------------------------------------------------------------
// only_callers [tag] TARGET: caller, caller, ...
//
// TARGET is the short key of a first-party function (cmd/broker.handler.handleCreateTopics,
// pkg/broker.GroupCoordinator.JoinGroup) or of an interface method (pkg/metadata.Store.CreateTopic). The clause
// holds when, in ALL first-party functions loaded for the check (closures included), every static call of the
// function / every interface-method call of that name on that interface occurs inside one of the listed callers
// (short keys, closures as parent$n), and the function is nowhere taken as a value (method value, callback).
// Together with `guarded` clauses on the listed callers this closes the world: there is no other way to reach
// TARGET from the analysed packages. Not covered: calls through a different interface type that the same
// object also implements, reflection.

type CallersClause struct {
	Tag     string
	Target  string
	Callers map[string]bool
	Src     string
}

func parseCallersClause(rest string) (*CallersClause, error) {
	c := &CallersClause{Src: rest, Callers: map[string]bool{}}
	rest = strings.TrimSpace(rest)
	if strings.HasPrefix(rest, "[") {
		k := strings.Index(rest, "]")
		if k < 0 {
			return nil, fmt.Errorf("bad tag")
		}
		c.Tag = rest[1:k]
		rest = strings.TrimSpace(rest[k+1:])
	}
	k := strings.Index(rest, ":")
	if k < 0 {
		return nil, fmt.Errorf("only_callers [tag] TARGET: caller, ...")
	}
	c.Target = strings.TrimSpace(rest[:k])
	for _, n := range strings.Split(rest[k+1:], ",") {
		if n = strings.TrimSpace(n); n != "" {
			c.Callers[n] = true
		}
	}
	if c.Target == "" || len(c.Callers) == 0 {
		return nil, fmt.Errorf("only_callers [tag] TARGET: caller, ...")
	}
	return c, nil
}

func (e *Engine) checkOnlyCallers(s *State, fn *ssa.Function, c *FuncContract) {
	for _, cl := range c.Callers {
		if !clauseInScope(cl.Tag) {
			continue
		}
		var bad []string
		sites := 0
		var keys []string
		for k := range e.funcsByKey {
			keys = append(keys, k)
		}
		sort.Strings(keys)
		for _, k := range keys {
			f := e.funcsByKey[k]
			if f.Blocks == nil || !isFirstParty(f) {
				continue
			}
			caller := shortKey(funcKey(f))
			for _, b := range f.Blocks {
				for _, in := range b.Instrs {
					var cc *ssa.CallCommon
					switch x := in.(type) {
					case *ssa.Call:
						cc = x.Common()
					case *ssa.Defer:
						cc = x.Common()
					case *ssa.Go:
						cc = x.Common()
					}
					hit := false
					if cc != nil {
						if cc.IsInvoke() {
							hit = shortKey(ifaceMethodKey(cc)) == cl.Target
						} else if callee := cc.StaticCallee(); callee != nil {
							hit = shortKey(funcKey(callee)) == cl.Target
						}
					}
					if hit {
						sites++
						if !cl.Callers[caller] {
							bad = append(bad, fmt.Sprintf("called from %s at %s", caller, posString(e.fset, in.Pos())))
						}
					}
					// the target taken as a value (not in call position)
					for _, op := range in.Operands(nil) {
						if op == nil || *op == nil {
							continue
						}
						if cc != nil && *op == cc.Value {
							continue
						}
						if tf, ok := (*op).(*ssa.Function); ok {
							tk := shortKey(funcKey(tf))
							if tk == cl.Target || (tf.Synthetic != "" && strings.HasPrefix(tk, cl.Target+"$")) {
								bad = append(bad, fmt.Sprintf("taken as a value in %s at %s", caller, posString(e.fset, in.Pos())))
							}
						}
					}
				}
			}
		}
		if sites == 0 {
			bad = append(bad, "no call of "+cl.Target+" found (renamed or removed?)")
		}
		name := fmt.Sprintf("%s#callers:%s", e.rootKey, cl.Tag)
		desc := fmt.Sprintf("%d call site(s) of %s in the loaded first-party code, all inside the listed callers", sites, cl.Target)
		goal := TTrue
		if len(bad) > 0 {
			goal = TFalse
			desc += ": " + strings.Join(bad, "; ")
		}
		s.addObligation("callers", name, cl.Tag, fn.Pos(), goal, desc)
		o := e.obligations[len(e.obligations)-1]
		if len(bad) > 0 {
			o.Result = &SolverResult{Status: "sat", Solver: "static-call-graph", Output: strings.Join(bad, "; ")}
		} else {
			o.Result = &SolverResult{Status: "unsat", Solver: "static-call-graph"}
		}
	}
}

// clauseInScope: a static clause tagged [Cnn.x] is evaluated while property Cnn is checked (and under `govc debug`);
// contract blocks of one function are merged across properties, and a root of one property should not report the
// static clauses of another.
func clauseInScope(tag string) bool {
	if currentPropID == "" || tag == "" {
		return true
	}
	k := strings.Index(tag, ".")
	if k < 0 {
		return true
	}
	return tag[:k] == currentPropID
}
