package main

// Spec builtins added for the broker-health / operator / console properties (C25, C39, C38):
//
//	sumInt(s, "f", n)    mathematical sum of the integer field f over the first n elements of the struct slice s
//	countTrue(s, "f", n) number of elements among the first n of s whose boolean field f is true
//	ratio(a, b)          the real number a/b of two integers (float64 is modelled as exact real arithmetic)
//	real(a)              integer to real
//
// sumInt / countTrue are recursive SMT definitions (define-fun-rec) over the element array of the slice, so
// they are functions of the slice *contents* (taken from the current or the old heap as the context demands).
// Inductive facts about them (bounds, monotonicity) are not known to the solver: they must be carried by a loop
// invariant.

import (
	"fmt"
	"go/types"
	"math/big"
)

// declareRaw registers a symbol whose declaration text is given verbatim (used for define-fun-rec).
func (u *Universe) declareRaw(name, sort, decl string) {
	u.mu.Lock()
	defer u.mu.Unlock()
	if _, ok := u.syms[name]; ok {
		return
	}
	d := &symDef{id: len(u.order), name: name, sort: sort, decl: decl}
	u.syms[name] = d
	u.order = append(u.order, d)
}

func (e *Engine) opsSpec(env *Env, fun string, args []Expr) (TV, bool, error) {
	switch fun {
	case "sumInt", "countTrue":
		if len(args) != 3 {
			return TV{}, true, fmt.Errorf("%s(slice, \"field\", n)", fun)
		}
		v, err := e.eval(env, args[0])
		if err != nil {
			return TV{}, true, err
		}
		fs, ok := args[1].(*EStr)
		if !ok {
			return TV{}, true, fmt.Errorf("%s: second argument must be a field name string", fun)
		}
		if v.T == nil {
			return TV{}, true, fmt.Errorf("%s: untyped slice", fun)
		}
		slt, ok := v.T.Underlying().(*types.Slice)
		if !ok {
			return TV{}, true, fmt.Errorf("%s: not a slice", fun)
		}
		elem := slt.Elem()
		st, ok := elem.Underlying().(*types.Struct)
		if !ok {
			return TV{}, true, fmt.Errorf("%s: element type is not a struct", fun)
		}
		idx, emb := findField(st, fs.Val)
		if idx < 0 || emb != nil {
			return TV{}, true, fmt.Errorf("%s: no direct field %s", fun, fs.Val)
		}
		ft := st.Field(idx).Type()
		fb := basicOf(ft)
		if fun == "sumInt" && (fb == nil || fb.Info()&types.IsInteger == 0) {
			return TV{}, true, fmt.Errorf("sumInt: field %s is not an integer", fs.Val)
		}
		if fun == "countTrue" && (fb == nil || fb.Info()&types.IsBoolean == 0) {
			return TV{}, true, fmt.Errorf("countTrue: field %s is not a bool", fs.Val)
		}
		sl, err := env.s.toTerm(v.V)
		if err != nil {
			return TV{}, true, err
		}
		n, err := e.evalTerm(env, args[2])
		if err != nil {
			return TV{}, true, err
		}
		key, sort := e.memKey(elem)
		inner := arrayElemSort(sort)
		h := e.heapIn(env, key, sort)
		name := fmt.Sprintf("%s.%s.%s", fun, elemKeyName(elem), sanitize(fs.Val))
		if !e.u.Has(name) {
			el := Term{"(select a (+ o (- n 1)))", e.tm.SortOf(elem)}
			fv := e.tm.FieldOf(elem, el, idx)
			term := fv.S
			if fun == "countTrue" {
				term = fmt.Sprintf("(ite %s 1 0)", fv.S)
			}
			decl := fmt.Sprintf("(define-fun-rec %s ((a %s) (o Int) (n Int)) Int (ite (<= n 0) 0 (+ (%s a o (- n 1)) %s)))", name, inner, name, term)
			e.u.declareRaw(name, SInt, decl)
			e.abstract("spec function " + fun + " over " + elemKeyName(elem) + "." + fs.Val + ": recursive definition (define-fun-rec), mathematical integers")
		}
		arr := Select(h, App("s-base", SInt, sl))
		return TV{App(name, SInt, arr, App("s-off", SInt, sl), n), nil}, true, nil
	case "ratio":
		if len(args) != 2 {
			return TV{}, true, fmt.Errorf("ratio(a, b)")
		}
		a, err := e.evalTerm(env, args[0])
		if err != nil {
			return TV{}, true, err
		}
		b, err := e.evalTerm(env, args[1])
		if err != nil {
			return TV{}, true, err
		}
		if a.Sort == SInt {
			a = App("to_real", SReal, a)
		}
		if b.Sort == SInt {
			b = App("to_real", SReal, b)
		}
		return TV{App("/", SReal, a, b), types.Typ[types.Float64]}, true, nil
	case "itoa":
		// decimal rendering of an integer (the term fmt.Sprintf's %d model produces)
		if len(args) != 1 {
			return TV{}, true, fmt.Errorf("itoa(a)")
		}
		a, err := e.evalTerm(env, args[0])
		if err != nil {
			return TV{}, true, err
		}
		return TV{decimalOf(a), types.Typ[types.String]}, true, nil
	case "real":
		if len(args) != 1 {
			return TV{}, true, fmt.Errorf("real(a)")
		}
		a, err := e.evalTerm(env, args[0])
		if err != nil {
			return TV{}, true, err
		}
		if a.Sort == SInt {
			a = App("to_real", SReal, a)
		}
		return TV{a, types.Typ[types.Float64]}, true, nil
	}
	return TV{}, false, nil
}

// realBinary: arithmetic and comparison on float64 operands in contract expressions (exact reals; an integer
// operand is converted with to_real, as Go's untyped constants would be).
func (e *Engine) realBinary(op string, a, b Term) (TV, bool) {
	toR := func(t Term) Term {
		if t.Sort == SInt {
			if v, ok := litValue(t); ok {
				if v.Sign() < 0 {
					return Term{fmt.Sprintf("(- %s.0)", new(big.Int).Neg(v).String()), SReal}
				}
				return Term{v.String() + ".0", SReal}
			}
			return App("to_real", SReal, t)
		}
		return t
	}
	a, b = toR(a), toR(b)
	f64 := types.Typ[types.Float64]
	switch op {
	case "+", "-", "*", "/":
		return TV{App(op, SReal, a, b), f64}, true
	case "<", "<=", ">", ">=":
		return TV{App(op, SBool, a, b), types.Typ[types.Bool]}, true
	}
	return TV{}, false
}

// decimalOf: strconv.Itoa as an SMT term.
func decimalOf(val Term) Term {
	return Ite(Ge(val, IntLit(0)), App("str.from_int", SString, val), App("str.++", SString, StrLit("-"), App("str.from_int", SString, Sub(IntLit(0), val))))
}
