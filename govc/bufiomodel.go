package main

// Model of bufio.Reader and bytes.Reader over a ghost byte stream (trusted): per reader ref
//   pos  - number of bytes consumed so far
//   data - array holding the stream; the byte at stream index i is data[off+i]
//   off  - 0 for bufio readers; the slice offset for bytes.NewReader(b) (data is b's backing array at creation)
//   len  - how many bytes can be obtained before EOF / a read error
// Peek does not consume; ReadByte / io.ReadFull / binary.Read consume exactly what they return.

import (
	"fmt"
	"go/types"

	"golang.org/x/tools/go/ssa"
)

const (
	gBrPos  = "G|bufio.pos"
	gBrData = "G|bufio.data"
	gBrLen  = "G|bufio.len"
	gBrOff  = "G|bufio.off"
)

func (e *Engine) ghostKeys() {
	if _, ok := e.heapSorts[gBrPos]; ok {
		return
	}
	e.heapSorts[gBrPos] = ArraySort(SInt, SInt)
	e.heapSorts[gBrLen] = ArraySort(SInt, SInt)
	e.heapSorts[gBrOff] = ArraySort(SInt, SInt)
	e.heapSorts[gBrData] = ArraySort(SInt, ArraySort(SInt, SInt))
	e.heapValKind[gBrPos], e.heapValKind[gBrLen], e.heapValKind[gBrData], e.heapValKind[gBrOff] = "", "", "", ""
}

type brView struct{ pos, ln, data, off Term }

func (v brView) at(i Term) Term { return Select(v.data, Add(v.off, i)) }

func (e *Engine) brGet(s *State, ref Term) brView {
	e.ghostKeys()
	return brView{
		pos:  Select(s.heapGet(gBrPos, e.heapSorts[gBrPos]), ref),
		ln:   Select(s.heapGet(gBrLen, e.heapSorts[gBrLen]), ref),
		off:  Select(s.heapGet(gBrOff, e.heapSorts[gBrOff]), ref),
		data: Select(s.heapGet(gBrData, e.heapSorts[gBrData]), ref),
	}
}

func (e *Engine) brSetPos(s *State, ref, pos Term) {
	s.heapSet(gBrPos, Store(s.heapGet(gBrPos, e.heapSorts[gBrPos]), ref, pos))
}

func (e *Engine) brSet(s *State, key string, ref, v Term) {
	s.heapSet(key, Store(s.heapGet(key, e.heapSorts[key]), ref, v))
}

func (e *Engine) brFacts(s *State, v brView) {
	s.assume(And(Le(IntLit(0), v.pos), Le(v.pos, v.ln), Le(IntLit(0), v.off), Le(v.ln, Term{"4611686018427387904", SInt})))
}

// freshBytesFromStream allocates a new byte slice of length n holding stream[from .. from+n).
func (e *Engine) freshBytesFromStream(s *State, v brView, from, n Term) Term {
	key, sort := e.memKey(types.Typ[types.Uint8])
	inner := arrayElemSort(sort)
	base := e.newRef()
	if k, ok := litSmall(n); ok {
		arr := Term{fmt.Sprintf("((as const %s) 0)", inner), inner}
		for i := int64(0); i < k; i++ {
			arr = Store(arr, IntLit(i), v.at(Add(from, IntLit(i))))
		}
		s.heapSet(key, Store(s.heapGet(key, sort), base, e.u.Define("peekarr", arr)))
		return e.u.Define("peeked", App("mk-slice", SSlice, base, IntLit(0), n, n))
	}
	arr := e.u.Fresh("peek", inner)
	ax := fmt.Sprintf("(forall ((j Int)) (! (=> (and (<= 0 j) (< j %s)) (= (select %s j) (select %s (+ %s (+ %s j))))) :pattern ((select %s j))))", n.S, arr.S, v.data.S, v.off.S, from.S, arr.S)
	s.assume(Term{ax, SBool})
	s.heapSet(key, Store(s.heapGet(key, sort), base, arr))
	return e.u.Define("peeked", App("mk-slice", SSlice, base, IntLit(0), n, n))
}

func (e *Engine) streamByteFacts(s *State, v brView) {
	ax := fmt.Sprintf("(forall ((j Int)) (! (and (<= 0 (select %s j)) (<= (select %s j) 255)) :pattern ((select %s j))))", v.data.S, v.data.S, v.data.S)
	s.assume(Term{ax, SBool})
}

func isReaderType(t types.Type, pkg, name string) bool {
	pt, ok := t.(*types.Pointer)
	if !ok {
		return false
	}
	nt, ok := pt.Elem().(*types.Named)
	return ok && nt.Obj().Pkg() != nil && nt.Obj().Pkg().Path() == pkg && nt.Obj().Name() == name
}

// readerRefOfIface: the reader ref when an io.Reader interface value is known to hold a *bufio.Reader or *bytes.Reader.
func (e *Engine) readerRefOfIface(v Value) (Term, bool) {
	it, ok := v.(Term)
	if !ok {
		return Term{}, false
	}
	dyn, payload, ok := e.ifaceDynType(it)
	if !ok {
		return Term{}, false
	}
	if isReaderType(dyn, "bufio", "Reader") || isReaderType(dyn, "bytes", "Reader") {
		return payload, true
	}
	return Term{}, false
}

// readInto: the two outcomes of reading exactly n bytes into memory written by fill (success) or failing short.
func (e *Engine) readExactly(s *State, dst *ssa.Call, ref Term, n Term, onOK func(st *State, v brView) Value, failVal func(st *State, errv Term) Value) []*State {
	v := e.brGet(s, ref)
	e.brFacts(s, v)
	e.streamByteFacts(s, v)
	avail := Sub(v.ln, v.pos)
	s2 := s.fork()
	var out []*State
	s.assume(Le(n, avail))
	rv := onOK(s, v)
	e.brSetPos(s, ref, Add(v.pos, n))
	if dst != nil {
		s.top().regs[dst] = rv
	}
	if e.feasibleAlways(s) {
		out = append(out, s)
	}
	v2 := e.brGet(s2, ref)
	s2.assume(Not(Le(n, Sub(v2.ln, v2.pos))))
	e.brSetPos(s2, ref, v2.ln)
	errv := e.u.Fresh("readerr", SIface)
	s2.assume(Not(Eq(App("i-type", SInt, errv), IntLit(0))))
	if dst != nil {
		s2.top().regs[dst] = failVal(s2, errv)
	}
	if e.feasibleAlways(s2) {
		out = append(out, s2)
	}
	return out
}

// modelBufio handles calls on *bufio.Reader / *bytes.Reader, io.ReadFull and binary.Read on such readers.
func (e *Engine) modelBufio(s *State, fr *Frame, dst *ssa.Call, key string, f *ssa.Function, args []Value, site ssa.Instruction) (Value, []*State, bool, bool) {
	refOf := func(v Value) (Term, bool) {
		if p, ok := v.(*Ptr); ok && p.Kind == pkObj {
			return p.Ref, true
		}
		return Term{}, false
	}
	const trust = "bufio.Reader / bytes.Reader as a ghost byte stream (pos, data, off, len)"
	switch key {
	case "bufio.NewReader", "bufio.NewReaderSize":
		e.trustModel(trust)
		e.ghostKeys()
		ref := e.newRef()
		e.brSetPos(s, ref, IntLit(0))
		e.brSet(s, gBrOff, ref, IntLit(0))
		v := e.brGet(s, ref)
		e.brFacts(s, v)
		e.streamByteFacts(s, v)
		rt := f.Signature.Results().At(0).Type().(*types.Pointer)
		return &Ptr{Kind: pkObj, Ref: ref, Elem: rt.Elem()}, nil, true, false
	case "bytes.NewReader":
		e.trustModel(trust + "; bytes.NewReader(b) snapshots b's backing array")
		e.ghostKeys()
		b := args[0].(Term)
		ref := e.newRef()
		key8, sort8 := e.memKey(types.Typ[types.Uint8])
		e.brSetPos(s, ref, IntLit(0))
		e.brSet(s, gBrOff, ref, App("s-off", SInt, b))
		e.brSet(s, gBrLen, ref, App("s-len", SInt, b))
		e.brSet(s, gBrData, ref, Select(s.heapGet(key8, sort8), App("s-base", SInt, b)))
		rt := f.Signature.Results().At(0).Type().(*types.Pointer)
		return &Ptr{Kind: pkObj, Ref: ref, Elem: rt.Elem()}, nil, true, false
	case "bytes.Reader.Len":
		e.trustModel(trust)
		ref, ok := refOf(args[0])
		if !ok {
			return nil, nil, false, false
		}
		v := e.brGet(s, ref)
		e.brFacts(s, v)
		return e.u.Define("rlen", Sub(v.ln, v.pos)), nil, true, false
	case "bufio.Reader.Peek":
		e.trustModel(trust)
		ref, ok := refOf(args[0])
		if !ok {
			return nil, nil, false, false
		}
		n := args[1].(Term)
		v := e.brGet(s, ref)
		e.brFacts(s, v)
		e.streamByteFacts(s, v)
		avail := Sub(v.ln, v.pos)
		s2 := s.fork()
		var out []*State
		s.assume(And(Le(IntLit(0), n), Le(n, avail)))
		sl := e.freshBytesFromStream(s, v, v.pos, n)
		if dst != nil {
			s.top().regs[dst] = &Tuple{Vs: []Value{sl, NilIface}}
		}
		if e.feasibleAlways(s) {
			out = append(out, s)
		}
		s2.assume(Not(And(Le(IntLit(0), n), Le(n, avail))))
		v2 := e.brGet(s2, ref)
		k := e.u.Fresh("peekshort", SInt)
		s2.assume(And(Le(IntLit(0), k), Le(k, Sub(v2.ln, v2.pos)), Lt(k, n)))
		sl2 := e.freshBytesFromStream(s2, v2, v2.pos, k)
		errv := e.u.Fresh("peekerr", SIface)
		s2.assume(Not(Eq(App("i-type", SInt, errv), IntLit(0))))
		if dst != nil {
			s2.top().regs[dst] = &Tuple{Vs: []Value{sl2, errv}}
		}
		if e.feasibleAlways(s2) {
			out = append(out, s2)
		}
		return nil, out, true, true
	case "bufio.Reader.ReadByte", "bytes.Reader.ReadByte":
		e.trustModel(trust)
		ref, ok := refOf(args[0])
		if !ok {
			return nil, nil, false, false
		}
		out := e.readExactly(s, dst, ref, IntLit(1),
			func(st *State, v brView) Value {
				return &Tuple{Vs: []Value{e.u.Define("rb", v.at(v.pos)), NilIface}}
			},
			func(st *State, errv Term) Value { return &Tuple{Vs: []Value{IntLit(0), errv}} })
		return nil, out, true, true
	case "io.ReadFull":
		ref, ok := e.readerRefOfIface(args[0])
		if !ok {
			return nil, nil, false, false
		}
		e.trustModel("io.ReadFull on a bufio/bytes reader: fills the buffer from the ghost stream or fails consuming what was left")
		buf := args[1].(Term)
		n := App("s-len", SInt, buf)
		key8, sort8 := e.memKey(types.Typ[types.Uint8])
		inner := arrayElemSort(sort8)
		out := e.readExactly(s, dst, ref, n,
			func(st *State, v brView) Value {
				h := st.heapGet(key8, sort8)
				base, off := App("s-base", SInt, buf), App("s-off", SInt, buf)
				if k, ok := litSmall(n); ok {
					arr := Select(h, base)
					for i := int64(0); i < k; i++ {
						arr = Store(arr, Add(off, IntLit(i)), v.at(Add(v.pos, IntLit(i))))
					}
					st.heapSet(key8, Store(h, base, e.u.Define("readfullarr", arr)))
				} else {
					narr := e.u.Fresh("readfull", inner)
					old := e.u.Define("oldarr", Select(h, base))
					ax := fmt.Sprintf("(forall ((j Int)) (! (= (select %s j) (ite (and (<= %s j) (< j (+ %s %s))) (select %s (+ %s (+ %s (- j %s)))) (select %s j))) :pattern ((select %s j))))",
						narr.S, off.S, off.S, n.S, v.data.S, v.off.S, v.pos.S, off.S, old.S, narr.S)
					st.assume(Term{ax, SBool})
					st.heapSet(key8, Store(h, base, narr))
				}
				return &Tuple{Vs: []Value{n, NilIface}}
			},
			func(st *State, errv Term) Value {
				st.havocHeapKey(key8, "readfull.short")
				got := e.u.Fresh("readfulln", SInt)
				st.assume(And(Le(IntLit(0), got), Lt(got, n)))
				return &Tuple{Vs: []Value{got, errv}}
			})
		return nil, out, true, true
	case "encoding/binary.Read":
		ref, ok := e.readerRefOfIface(args[0])
		if !ok {
			return nil, nil, false, false
		}
		// data must be a pointer to a fixed-size integer
		dt, ok := args[2].(Term)
		if !ok {
			return nil, nil, false, false
		}
		dyn, payload, ok := e.ifaceDynType(dt)
		if !ok {
			return nil, nil, false, false
		}
		pt, ok := dyn.(*types.Pointer)
		if !ok {
			return nil, nil, false, false
		}
		bt, ok := pt.Elem().Underlying().(*types.Basic)
		if !ok || bt.Info()&types.IsInteger == 0 || bt.Kind() == types.Int || bt.Kind() == types.Uint {
			return nil, nil, false, false
		}
		// byte order must be big endian (the only one the repository uses)
		if ot, ok := args[1].(Term); ok {
			if odyn, _, ok := e.ifaceDynType(ot); !ok || odyn.String() != "encoding/binary.bigEndian" {
				return nil, nil, false, false
			}
		}
		e.trustModel("encoding/binary.Read of a fixed-size big-endian integer from a bufio/bytes reader")
		nb := int64(intBits(bt) / 8)
		out := e.readExactly(s, dst, ref, IntLit(nb),
			func(st *State, v brView) Value {
				var r Term = IntLit(0)
				for i := int64(0); i < nb; i++ {
					r = Add(Mul(r, IntLit(256)), v.at(Add(v.pos, IntLit(i))))
				}
				val := e.u.Define("binread", wrapInt(r, bt))
				if err := st.store(&Ptr{Kind: pkObj, Ref: payload, Elem: pt.Elem()}, val); err != nil {
					e.bail("binary.Read: %v", err)
				}
				return NilIface
			},
			func(st *State, errv Term) Value { return errv })
		return nil, out, true, true
	}
	return nil, nil, false, false
}

// brSpec evaluates the spec builtins brPos(br), brLen(br), brAt(br, i).
func (e *Engine) brSpec(env *Env, fun string, args []Expr) (TV, bool, error) {
	switch fun {
	case "brPos", "brLen", "brAt":
	default:
		return TV{}, false, nil
	}
	e.ghostKeys()
	v, err := e.eval(env, args[0])
	if err != nil {
		return TV{}, true, err
	}
	p, ok := v.V.(*Ptr)
	if !ok || p.Kind != pkObj {
		return TV{}, true, fmt.Errorf("%s: argument is not a reader pointer", fun)
	}
	get := func(key string) Term { return Select(e.heapIn(env, key, e.heapSorts[key]), p.Ref) }
	// data-structure invariant of every reader (all model operations preserve it): 0 <= pos <= len
	env.s.assume(And(Le(IntLit(0), get(gBrPos)), Le(get(gBrPos), get(gBrLen)), Le(IntLit(0), get(gBrOff))))
	switch fun {
	case "brAt":
		i, err := e.evalTerm(env, args[1])
		if err != nil {
			return TV{}, true, err
		}
		return TV{Select(get(gBrData), Add(get(gBrOff), i)), types.Typ[types.Uint8]}, true, nil
	case "brPos":
		return TV{get(gBrPos), types.Typ[types.Int]}, true, nil
	}
	return TV{get(gBrLen), types.Typ[types.Int]}, true, nil
}
