package main

// Model of bufio.Reader over a ghost byte stream (trusted): per reader ref
//   pos  - number of bytes consumed so far
//   data - the bytes the stream delivers, indexed from 0
//   len  - how many bytes can be obtained before EOF / a read error
// Peek does not consume; ReadByte / io.ReadFull / Read consume exactly what they return.

import (
	"fmt"
	"go/types"

	"golang.org/x/tools/go/ssa"
)

const (
	gBrPos  = "G|bufio.pos"
	gBrData = "G|bufio.data"
	gBrLen  = "G|bufio.len"
)

func (e *Engine) ghostKeys() {
	if _, ok := e.heapSorts[gBrPos]; ok {
		return
	}
	e.heapSorts[gBrPos] = ArraySort(SInt, SInt)
	e.heapSorts[gBrLen] = ArraySort(SInt, SInt)
	e.heapSorts[gBrData] = ArraySort(SInt, ArraySort(SInt, SInt))
	e.heapValKind[gBrPos], e.heapValKind[gBrLen], e.heapValKind[gBrData] = "", "", ""
}

type brView struct{ pos, ln, data Term }

func (e *Engine) brGet(s *State, ref Term) brView {
	e.ghostKeys()
	return brView{
		pos:  Select(s.heapGet(gBrPos, e.heapSorts[gBrPos]), ref),
		ln:   Select(s.heapGet(gBrLen, e.heapSorts[gBrLen]), ref),
		data: Select(s.heapGet(gBrData, e.heapSorts[gBrData]), ref),
	}
}

func (e *Engine) brSetPos(s *State, ref, pos Term) {
	s.heapSet(gBrPos, Store(s.heapGet(gBrPos, e.heapSorts[gBrPos]), ref, pos))
}

func (e *Engine) brFacts(s *State, v brView) {
	s.assume(And(Le(IntLit(0), v.pos), Le(v.pos, v.ln)))
}

// freshBytesFromStream allocates a new byte slice of length n holding data[from .. from+n).
func (e *Engine) freshBytesFromStream(s *State, v brView, from, n Term) Term {
	key, sort := e.memKey(types.Typ[types.Uint8])
	inner := arrayElemSort(sort)
	base := e.newRef()
	if k, ok := litSmall(n); ok {
		arr := Term{fmt.Sprintf("((as const %s) 0)", inner), inner}
		for i := int64(0); i < k; i++ {
			arr = Store(arr, IntLit(i), Select(v.data, Add(from, IntLit(i))))
		}
		s.heapSet(key, Store(s.heapGet(key, sort), base, e.u.Define("peekarr", arr)))
		return e.u.Define("peeked", App("mk-slice", SSlice, base, IntLit(0), n, n))
	}
	arr := e.u.Fresh("peek", inner)
	ax := fmt.Sprintf("(forall ((j Int)) (! (=> (and (<= 0 j) (< j %s)) (= (select %s j) (select %s (+ %s j)))) :pattern ((select %s j))))", n.S, arr.S, v.data.S, from.S, arr.S)
	s.assume(Term{ax, SBool})
	s.heapSet(key, Store(s.heapGet(key, sort), base, arr))
	return e.u.Define("peeked", App("mk-slice", SSlice, base, IntLit(0), n, n))
}

func (e *Engine) streamByteFacts(s *State, v brView) {
	ax := fmt.Sprintf("(forall ((j Int)) (! (and (<= 0 (select %s j)) (<= (select %s j) 255)) :pattern ((select %s j))))", v.data.S, v.data.S, v.data.S)
	s.assume(Term{ax, SBool})
}

// modelBufio handles calls on *bufio.Reader and io.ReadFull with a bufio reader argument.
func (e *Engine) modelBufio(s *State, fr *Frame, dst *ssa.Call, key string, f *ssa.Function, args []Value, site ssa.Instruction) (Value, []*State, bool, bool) {
	refOf := func(v Value) (Term, bool) {
		if p, ok := v.(*Ptr); ok && p.Kind == pkObj {
			return p.Ref, true
		}
		return Term{}, false
	}
	switch key {
	case "bufio.NewReader", "bufio.NewReaderSize":
		e.trustModel("bufio.Reader as a ghost byte stream (pos, data, len)")
		e.ghostKeys()
		ref := e.newRef()
		e.brSetPos(s, ref, IntLit(0))
		v := e.brGet(s, ref)
		e.brFacts(s, v)
		e.streamByteFacts(s, v)
		rt := f.Signature.Results().At(0).Type().(*types.Pointer)
		return &Ptr{Kind: pkObj, Ref: ref, Elem: rt.Elem()}, nil, true, false
	case "bufio.Reader.Peek":
		e.trustModel("bufio.Reader as a ghost byte stream (pos, data, len)")
		ref, ok := refOf(args[0])
		if !ok {
			return nil, nil, false, false
		}
		n := args[1].(Term)
		v := e.brGet(s, ref)
		e.brFacts(s, v)
		e.streamByteFacts(s, v)
		avail := Sub(v.ln, v.pos)
		s2 := s.fork()
		var out []*State
		// enough bytes
		s.assume(And(Le(IntLit(0), n), Le(n, avail)))
		sl := e.freshBytesFromStream(s, v, v.pos, n)
		if dst != nil {
			s.top().regs[dst] = &Tuple{Vs: []Value{sl, NilIface}}
		}
		if e.feasibleAlways(s) {
			out = append(out, s)
		}
		// short: fewer bytes, error
		s2.assume(Not(And(Le(IntLit(0), n), Le(n, avail))))
		v2 := e.brGet(s2, ref)
		k := e.u.Fresh("peekshort", SInt)
		s2.assume(And(Le(IntLit(0), k), Le(k, Sub(v2.ln, v2.pos)), Lt(k, n)))
		sl2 := e.freshBytesFromStream(s2, v2, v2.pos, k)
		errv := e.u.Fresh("peekerr", SIface)
		s2.assume(Not(Eq(App("i-type", SInt, errv), IntLit(0))))
		if dst != nil {
			s2.top().regs[dst] = &Tuple{Vs: []Value{sl2, errv}}
		}
		if e.feasibleAlways(s2) {
			out = append(out, s2)
		}
		return nil, out, true, true
	case "bufio.Reader.ReadByte":
		e.trustModel("bufio.Reader as a ghost byte stream (pos, data, len)")
		ref, ok := refOf(args[0])
		if !ok {
			return nil, nil, false, false
		}
		v := e.brGet(s, ref)
		e.brFacts(s, v)
		e.streamByteFacts(s, v)
		s2 := s.fork()
		var out []*State
		s.assume(Lt(v.pos, v.ln))
		b := e.u.Define("rb", Select(v.data, v.pos))
		e.brSetPos(s, ref, Add(v.pos, IntLit(1)))
		if dst != nil {
			s.top().regs[dst] = &Tuple{Vs: []Value{b, NilIface}}
		}
		out = append(out, s)
		s2.assume(Not(Lt(v.pos, v.ln)))
		errv := e.u.Fresh("rberr", SIface)
		s2.assume(Not(Eq(App("i-type", SInt, errv), IntLit(0))))
		if dst != nil {
			s2.top().regs[dst] = &Tuple{Vs: []Value{IntLit(0), errv}}
		}
		out = append(out, s2)
		return nil, out, true, true
	case "io.ReadFull":
		// only when the reader is a bufio.Reader known by construction
		it, ok := args[0].(Term)
		if !ok {
			return nil, nil, false, false
		}
		dyn, payload, ok := e.ifaceDynType(it)
		if !ok {
			return nil, nil, false, false
		}
		pt, ok := dyn.(*types.Pointer)
		if !ok {
			return nil, nil, false, false
		}
		if nt, ok := pt.Elem().(*types.Named); !ok || nt.Obj().Pkg() == nil || nt.Obj().Pkg().Path() != "bufio" || nt.Obj().Name() != "Reader" {
			return nil, nil, false, false
		}
		e.trustModel("io.ReadFull on a bufio.Reader: fills the buffer from the ghost stream or fails consuming what was left")
		ref := payload
		buf := args[1].(Term)
		n := App("s-len", SInt, buf)
		v := e.brGet(s, ref)
		e.brFacts(s, v)
		e.streamByteFacts(s, v)
		avail := Sub(v.ln, v.pos)
		s2 := s.fork()
		var out []*State
		{
			s.assume(Le(n, avail))
			key, sort := e.memKey(types.Typ[types.Uint8])
			inner := arrayElemSort(sort)
			h := s.heapGet(key, sort)
			base, off := App("s-base", SInt, buf), App("s-off", SInt, buf)
			if k, ok := litSmall(n); ok {
				arr := Select(h, base)
				for i := int64(0); i < k; i++ {
					arr = Store(arr, Add(off, IntLit(i)), Select(v.data, Add(v.pos, IntLit(i))))
				}
				s.heapSet(key, Store(h, base, e.u.Define("readfullarr", arr)))
			} else {
				narr := e.u.Fresh("readfull", inner)
				old := e.u.Define("oldarr", Select(h, base))
				ax := fmt.Sprintf("(forall ((j Int)) (! (= (select %s j) (ite (and (<= %s j) (< j (+ %s %s))) (select %s (+ %s (- j %s))) (select %s j))) :pattern ((select %s j))))",
					narr.S, off.S, off.S, n.S, v.data.S, v.pos.S, off.S, old.S, narr.S)
				s.assume(Term{ax, SBool})
				s.heapSet(key, Store(h, base, narr))
			}
			e.brSetPos(s, ref, Add(v.pos, n))
			if dst != nil {
				s.top().regs[dst] = &Tuple{Vs: []Value{n, NilIface}}
			}
			if e.feasibleAlways(s) {
				out = append(out, s)
			}
		}
		{
			v2 := e.brGet(s2, ref)
			s2.assume(Not(Le(n, Sub(v2.ln, v2.pos))))
			key, _ := e.memKey(types.Typ[types.Uint8])
			s2.havocHeapKey(key, "readfull.short")
			e.brSetPos(s2, ref, v2.ln)
			got := e.u.Fresh("readfulln", SInt)
			s2.assume(And(Le(IntLit(0), got), Lt(got, n)))
			errv := e.u.Fresh("readfullerr", SIface)
			s2.assume(Not(Eq(App("i-type", SInt, errv), IntLit(0))))
			if dst != nil {
				s2.top().regs[dst] = &Tuple{Vs: []Value{got, errv}}
			}
			if e.feasibleAlways(s2) {
				out = append(out, s2)
			}
		}
		return nil, out, true, true
	}
	return nil, nil, false, false
}

// brSpec evaluates the spec builtins brPos(br), brLen(br), brAt(br, i).
func (e *Engine) brSpec(env *Env, fun string, args []Expr) (TV, bool, error) {
	switch fun {
	case "brPos", "brLen", "brAt":
	default:
		return TV{}, false, nil
	}
	e.ghostKeys()
	v, err := e.eval(env, args[0])
	if err != nil {
		return TV{}, true, err
	}
	p, ok := v.V.(*Ptr)
	if !ok || p.Kind != pkObj {
		return TV{}, true, fmt.Errorf("%s: argument is not a *bufio.Reader", fun)
	}
	key := map[string]string{"brPos": gBrPos, "brLen": gBrLen, "brAt": gBrData}[fun]
	h := e.heapIn(env, key, e.heapSorts[key])
	t := Select(h, p.Ref)
	if fun == "brAt" {
		i, err := e.evalTerm(env, args[1])
		if err != nil {
			return TV{}, true, err
		}
		return TV{Select(t, i), types.Typ[types.Uint8]}, true, nil
	}
	return TV{t, types.Typ[types.Int]}, true, nil
}
