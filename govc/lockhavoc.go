package main

// Lock-invariant rule in its simplest form (invariant "true"), opt-in per root:
//
//	lock_havoc mu: f, g, h
//
// Whenever the root (or a callee inlined into it) acquires the mutex field `mu` of a struct - Lock, RLock, or a
// sync.Cond.Wait (which releases and re-acquires the Cond's lock) - the fields f, g, h of that struct type are given
// arbitrary values: between two critical sections any other thread may have run any critical section of its own, so
// no fact about a guarded field survives from one critical section to the next. A clause proved under this rule holds
// for every interleaving of other threads that respect the lock discipline (the discipline itself is the lockset
// check of C41). Without the flag a root is executed in its sequential reading, as before.
//
// The havoc is per field array (all objects of the type), which is coarser than necessary and therefore sound.

import (
	"go/types"
	"strings"
)

func (e *Engine) lockHavocSpec() (mu string, fields []string) {
	if e.rootContract == nil {
		return "", nil
	}
	spec := strings.TrimSpace(e.rootContract.Flags["lock_havoc"])
	if spec == "" {
		return "", nil
	}
	k := strings.Index(spec, ":")
	if k < 0 {
		e.bail("lock_havoc mu: f, g  (got %q)", spec)
	}
	mu = strings.TrimSpace(spec[:k])
	for _, f := range strings.Split(spec[k+1:], ",") {
		if f = strings.TrimSpace(f); f != "" {
			fields = append(fields, f)
		}
	}
	return mu, fields
}

// lockHavoc is called with the pointer to the mutex that was just acquired.
func (e *Engine) lockHavoc(s *State, muPtr Value, hint string) {
	mu, fields := e.lockHavocSpec()
	if mu == "" {
		return
	}
	p, ok := muPtr.(*Ptr)
	if !ok || p.Kind != pkField || p.Base == nil || p.Base.Elem == nil {
		return
	}
	st, ok := p.Base.Elem.Underlying().(*types.Struct)
	if !ok || p.Field >= st.NumFields() || st.Field(p.Field).Name() != mu {
		return
	}
	e.havocStructFields(s, p.Base.Elem, st, fields, hint)
}

func (e *Engine) havocStructFields(s *State, structT types.Type, st *types.Struct, fields []string, hint string) {
	for _, name := range fields {
		found := false
		for i := 0; i < st.NumFields(); i++ {
			if st.Field(i).Name() == name {
				key, sort := e.fieldKey(structT, i)
				if _, ok := e.heapSorts[key]; !ok {
					e.heapSorts[key] = sort
				}
				s.havocHeapKey(key, hint+"."+name)
				found = true
			}
		}
		if !found {
			e.bail("lock_havoc: %s has no field %s", structT.String(), name)
		}
	}
	e.abstract("lock_havoc: fields guarded by the mutex take arbitrary values at every acquisition (other threads' critical sections)")
}

// condWaitHavoc: sync.Cond.Wait under a lock_havoc root. The Cond's L is not tracked; the rule applies to the struct
// that holds the Cond field (x.flushCond.Wait() re-acquires x.mu by construction in NewPartitionLog - stated assumption).
func (e *Engine) condWaitHavoc(s *State, condPtr Value) {
	mu, fields := e.lockHavocSpec()
	if mu == "" {
		return
	}
	p, ok := condPtr.(*Ptr)
	if !ok {
		return
	}
	// the Cond is usually held by pointer in a field: the engine passes the loaded pointer, whose origin is lost;
	// havoc the fields of every struct type that has a mutex field named mu and a field of type *sync.Cond
	_ = p
	for _, t := range e.lockHavocOwners(mu) {
		e.havocStructFields(s, t, t.Underlying().(*types.Struct), fields, "condwait")
	}
}

func (e *Engine) lockHavocOwners(mu string) []types.Type {
	var out []types.Type
	if e.rootFn == nil || e.rootFn.Signature.Recv() == nil {
		return out
	}
	t := e.rootFn.Signature.Recv().Type()
	if pt, ok := t.(*types.Pointer); ok {
		t = pt.Elem()
	}
	if st, ok := t.Underlying().(*types.Struct); ok {
		for i := 0; i < st.NumFields(); i++ {
			if st.Field(i).Name() == mu {
				out = append(out, t)
			}
		}
	}
	return out
}
