package main

import (
	"fmt"
	"go/types"
	"strings"
)

// closednessNested: closedness for heap arrays whose values are structs (a struct-typed field, or a slice of
// structs): every pointer-like component nested inside the stored struct value (pointers, maps, slice bases,
// interface payloads, up to three struct levels deep) is <= bound, exactly as closednessAxiom states for arrays
// that hold pointer-like values directly. Without it a pointer nested in a struct-valued field (for instance
// cluster.Spec.Brokers.Replicas) could alias an object allocated later.
func (e *Engine) closednessNested(h Term, key string, bound Term) (Term, bool) {
	gt := e.heapGoType[key]
	if gt == nil || strings.HasPrefix(key, "Glob|") || strings.HasPrefix(key, "Map") {
		return Term{}, false
	}
	if _, ok := gt.Underlying().(*types.Struct); !ok {
		return Term{}, false
	}
	var val Term
	var vars string
	if strings.HasPrefix(key, "Mem|") {
		vars = "((r Int) (i Int))"
		val = Select(Select(h, Term{"r", SInt}), Term{"i", SInt})
	} else {
		vars = "((r Int))"
		val = Select(h, Term{"r", SInt})
	}
	var leaves []string
	e.nestedRefLeaves(val, gt, 3, &leaves)
	if len(leaves) == 0 {
		return Term{}, false
	}
	var cs []string
	for _, l := range leaves {
		cs = append(cs, fmt.Sprintf("(<= %s %s)", l, bound.S))
	}
	body := cs[0]
	if len(cs) > 1 {
		body = "(and " + strings.Join(cs, " ") + ")"
	}
	return Term{fmt.Sprintf("(forall %s (! %s :pattern (%s)))", vars, body, val.S), SBool}, true
}

func (e *Engine) nestedRefLeaves(v Term, t types.Type, depth int, out *[]string) {
	st, ok := t.Underlying().(*types.Struct)
	if !ok || depth <= 0 {
		return
	}
	for i := 0; i < st.NumFields(); i++ {
		ft := st.Field(i).Type()
		fv := e.tm.FieldOf(t, v, i)
		switch valKindOf(ft) {
		case "ptr":
			*out = append(*out, fv.S)
		case "slice":
			*out = append(*out, App("s-base", SInt, fv).S)
		case "iface":
			*out = append(*out, App("i-val", SInt, fv).S)
		default:
			if _, ok := ft.Underlying().(*types.Struct); ok {
				e.nestedRefLeaves(fv, ft, depth-1, out)
			}
		}
	}
}
