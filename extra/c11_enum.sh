#!/bin/bash
# C11, enumerated part: runs extra/c11_enumeration_test.go against the real cmd/broker (go test -overlay; the
# repository is not written to). Prints EXTRA-OK <number of advertised (key, version, body) combinations> or one
# VIOLATION line per failing combination (replay = the saved test output).
export PATH=/opt/veriftools/go1.26.8/bin:$PATH GOTOOLCHAIN=local GOFLAGS=-mod=mod GOPROXY=off GOSUMDB=off
HERE=$(cd "$(dirname "$0")" && pwd)
V=${GOVC_VERIF:-$(dirname "$HERE")}
R=${GOVC_REPO:-/repo}
RD=${GOVC_REPLAY_DIR:-$V/replays}/C11
mkdir -p "$RD" "$V/work"
OV=$(mktemp "$V/work/c11-overlay-XXXXXX.json")
printf '{"Replace":{"%s/cmd/broker/zz_verif_c11_enum_test.go":"%s/c11_enumeration_test.go"}}\n' "$R" "$HERE" > "$OV"
OUT=$(cd "$R" && go test -overlay="$OV" ./cmd/broker -run '^TestVerifC11AdvertisedVersionsAreServed$' -v -count=1 -vet=off -timeout 120s 2>&1)
rc=$?
rm -f "$OV"
pairs=$(echo "$OUT" | sed -n 's/.*C11-ENUM pairs=\([0-9]*\) failures=\([0-9]*\).*/\1/p' | head -1)
if [ $rc -eq 0 ] && [ -n "$pairs" ] && [ "$pairs" -gt 0 ] && ! echo "$OUT" | grep -q "VIOLATION-DETAIL"; then
  echo "EXTRA-OK $pairs"
  exit 0
fi
echo "$OUT" > "$RD/enumeration.txt"
n=0
while read -r line; do
  n=$((n+1))
  what=$(echo "$line" | sed 's/.*VIOLATION-DETAIL //' | tr ' ' '_' | cut -c1-160)
  echo "VIOLATION property=C11 replay=$RD/enumeration.txt obligation=cmd/broker.Handle#enumerated:C11.advertised_version_served:$what"
done <<< "$(echo "$OUT" | grep "VIOLATION-DETAIL")"
if [ $n -eq 0 ]; then
  echo "VIOLATION property=C11 replay=$RD/enumeration.txt obligation=cmd/broker.Handle#enumerated:C11.enumeration_did_not_run no-failing-input-found"
fi
exit 1
