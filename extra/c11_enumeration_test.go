package main

// C11, enumerated part (not a proof): for EVERY (api key, version) pair the broker advertises, one request of
// kmsg's type for that key (default body, plus a populated body for the request types below) is sent through the
// real handler.Handle backed by the in-memory stores, and the reply must be non-empty, carry the correlation id
// in its first four bytes, have the tagged-field byte exactly when the response is flexible and the key is not
// ApiVersions, and decode with kmsg at the same version leaving no trailing garbage the codec objects to.
// Also: a version one above the advertised maximum must not produce a reply that fails to decode at the
// version it is written in. Injected with `go test -overlay` by props/C11.json (extra_cmds); never in the repo.

import (
	"context"
	"encoding/binary"
	"fmt"
	"testing"

	"github.com/KafScale/platform/pkg/metadata"
	"github.com/KafScale/platform/pkg/protocol"
	"github.com/twmb/franz-go/pkg/kmsg"
)

func c11Bodies(key int16) []kmsg.Request {
	var out []kmsg.Request
	out = append(out, kmsg.RequestForKey(key))
	topic := "orders"
	group := "g1"
	switch key {
	case protocol.APIKeyMetadata:
		r := kmsg.NewPtrMetadataRequest()
		rt := kmsg.NewMetadataRequestTopic()
		rt.Topic = kmsg.StringPtr(topic)
		r.Topics = append(r.Topics, rt)
		out = append(out, r)
	case protocol.APIKeyProduce:
		r := kmsg.NewPtrProduceRequest()
		r.Acks = -1
		rt := kmsg.NewProduceRequestTopic()
		rt.Topic = topic
		rp := kmsg.NewProduceRequestTopicPartition()
		rp.Records = testBatchBytes(0, 0, 1)
		rt.Partitions = append(rt.Partitions, rp)
		r.Topics = append(r.Topics, rt)
		out = append(out, r)
	case protocol.APIKeyFetch:
		r := kmsg.NewPtrFetchRequest()
		rt := kmsg.NewFetchRequestTopic()
		rt.Topic = topic
		rp := kmsg.NewFetchRequestTopicPartition()
		rp.PartitionMaxBytes = 1024
		rt.Partitions = append(rt.Partitions, rp)
		r.Topics = append(r.Topics, rt)
		out = append(out, r)
	case protocol.APIKeyListOffsets:
		r := kmsg.NewPtrListOffsetsRequest()
		rt := kmsg.NewListOffsetsRequestTopic()
		rt.Topic = topic
		rp := kmsg.NewListOffsetsRequestTopicPartition()
		rp.Timestamp = -1
		rt.Partitions = append(rt.Partitions, rp)
		r.Topics = append(r.Topics, rt)
		out = append(out, r)
	case protocol.APIKeyOffsetCommit:
		r := kmsg.NewPtrOffsetCommitRequest()
		r.Group = group
		rt := kmsg.NewOffsetCommitRequestTopic()
		rt.Topic = topic
		rt.Partitions = append(rt.Partitions, kmsg.NewOffsetCommitRequestTopicPartition())
		r.Topics = append(r.Topics, rt)
		out = append(out, r)
	case protocol.APIKeyOffsetFetch:
		r := kmsg.NewPtrOffsetFetchRequest()
		r.Group = group
		rt := kmsg.NewOffsetFetchRequestTopic()
		rt.Topic = topic
		rt.Partitions = []int32{0}
		r.Topics = append(r.Topics, rt)
		out = append(out, r)
	case protocol.APIKeyCreateTopics:
		r := kmsg.NewPtrCreateTopicsRequest()
		rt := kmsg.NewCreateTopicsRequestTopic()
		rt.Topic = "c11-new"
		rt.NumPartitions = 1
		rt.ReplicationFactor = 1
		r.Topics = append(r.Topics, rt)
		out = append(out, r)
	case protocol.APIKeyDeleteTopics:
		r := kmsg.NewPtrDeleteTopicsRequest()
		r.TopicNames = []string{"missing"}
		out = append(out, r)
	case protocol.APIKeyCreatePartitions:
		r := kmsg.NewPtrCreatePartitionsRequest()
		rt := kmsg.NewCreatePartitionsRequestTopic()
		rt.Topic = topic
		rt.Count = 4
		r.Topics = append(r.Topics, rt)
		out = append(out, r)
	case protocol.APIKeyDescribeGroups:
		r := kmsg.NewPtrDescribeGroupsRequest()
		r.Groups = []string{group}
		out = append(out, r)
	case protocol.APIKeyDeleteGroups:
		r := kmsg.NewPtrDeleteGroupsRequest()
		r.Groups = []string{group}
		out = append(out, r)
	case protocol.APIKeyDescribeConfigs:
		r := kmsg.NewPtrDescribeConfigsRequest()
		rr := kmsg.NewDescribeConfigsRequestResource()
		rr.ResourceType = kmsg.ConfigResourceTypeTopic
		rr.ResourceName = topic
		r.Resources = append(r.Resources, rr)
		out = append(out, r)
	case protocol.APIKeyOffsetForLeaderEpoch:
		r := kmsg.NewPtrOffsetForLeaderEpochRequest()
		rt := kmsg.NewOffsetForLeaderEpochRequestTopic()
		rt.Topic = topic
		rt.Partitions = append(rt.Partitions, kmsg.NewOffsetForLeaderEpochRequestTopicPartition())
		r.Topics = append(r.Topics, rt)
		out = append(out, r)
	case protocol.APIKeyJoinGroup:
		r := kmsg.NewPtrJoinGroupRequest()
		r.Group = group
		r.ProtocolType = "consumer"
		r.SessionTimeoutMillis = 10000
		r.RebalanceTimeoutMillis = 10000
		p := kmsg.NewJoinGroupRequestProtocol()
		p.Name = "range"
		r.Protocols = append(r.Protocols, p)
		out = append(out, r)
	case protocol.APIKeyHeartbeat:
		r := kmsg.NewPtrHeartbeatRequest()
		r.Group = group
		out = append(out, r)
	}
	return out
}

func c11CheckReply(key, version int16, corr int32, payload []byte) error {
	if len(payload) < 4 {
		return fmt.Errorf("reply of %d bytes", len(payload))
	}
	if got := int32(binary.BigEndian.Uint32(payload[:4])); got != corr {
		return fmt.Errorf("correlation id %d, want %d", got, corr)
	}
	resp := kmsg.ResponseForKey(key)
	if resp == nil {
		return fmt.Errorf("kmsg has no response type for key %d", key)
	}
	resp.SetVersion(version)
	body := payload[4:]
	if resp.IsFlexible() && key != protocol.APIKeyApiVersion {
		if len(body) < 1 || body[0] != 0 {
			return fmt.Errorf("flexible response without the empty tagged-field byte after the correlation id")
		}
		body = body[1:]
	}
	if err := resp.ReadFrom(body); err != nil {
		return fmt.Errorf("kmsg cannot decode the reply at v%d: %v", version, err)
	}
	// re-encoding what was decoded must give the same bytes: no undecoded tail, same header shape
	if again := resp.AppendTo(nil); string(again) != string(body) {
		return fmt.Errorf("reply body is not what kmsg writes for the decoded value at v%d (%d vs %d bytes)", version, len(again), len(body))
	}
	return nil
}

func TestVerifC11AdvertisedVersionsAreServed(t *testing.T) {
	pairs, failures := 0, 0
	for _, adv := range generateApiVersions() {
		if adv.MinVersion < 0 || adv.MaxVersion < 0 {
			if !(adv.MinVersion == -1 && adv.MaxVersion == -1) {
				t.Errorf("VIOLATION-DETAIL key %d advertised with range [%d,%d]", adv.ApiKey, adv.MinVersion, adv.MaxVersion)
				failures++
			}
			continue
		}
		if kmsg.RequestForKey(adv.ApiKey) == nil {
			t.Errorf("VIOLATION-DETAIL key %d advertised but unknown to the codec", adv.ApiKey)
			failures++
			continue
		}
		for v := adv.MinVersion; v <= adv.MaxVersion+1; v++ {
			for bi, req := range c11Bodies(adv.ApiKey) {
				store := metadata.NewInMemoryStore(defaultMetadata())
				handler := newTestHandler(store)
				req.SetVersion(v)
				corr := int32(1000 + int(adv.ApiKey)*100 + int(v))
				clientID := "c11"
				payload, err := handler.Handle(context.Background(), &protocol.RequestHeader{APIKey: adv.ApiKey, APIVersion: v, CorrelationID: corr, ClientID: &clientID}, req)
				advertised := v <= adv.MaxVersion
				if advertised {
					pairs++
				}
				if err != nil {
					if advertised {
						t.Errorf("VIOLATION-DETAIL key %d v%d body %d: advertised but the handler returned an error and no reply: %v", adv.ApiKey, v, bi, err)
						failures++
					}
					continue // not advertised: refusing without a reply is allowed
				}
				if payload == nil {
					if pr, ok := req.(*kmsg.ProduceRequest); ok && pr.Acks == 0 {
						continue // acks=0: no reply by protocol
					}
					if advertised {
						t.Errorf("VIOLATION-DETAIL key %d v%d body %d: advertised but no reply", adv.ApiKey, v, bi)
						failures++
					}
					continue
				}
				replyVersion := v
				if adv.ApiKey == protocol.APIKeyApiVersion && !advertised {
					replyVersion = 0 // KIP-511: unsupported ApiVersions version is answered at v0
				}
				if err := c11CheckReply(adv.ApiKey, replyVersion, corr, payload); err != nil {
					t.Errorf("VIOLATION-DETAIL key %d v%d body %d (advertised=%v): %v", adv.ApiKey, v, bi, advertised, err)
					failures++
				}
				if advertised {
					// the same request again on the same handler with another correlation id: the reply must carry
					// the id of THIS request (a reply served from per-handler state would carry the first one)
					corr2 := corr + 500000
					payload2, err2 := handler.Handle(context.Background(), &protocol.RequestHeader{APIKey: adv.ApiKey, APIVersion: v, CorrelationID: corr2, ClientID: &clientID}, req)
					if err2 != nil || payload2 == nil {
						t.Errorf("VIOLATION-DETAIL key %d v%d body %d: second request on the same handler got no reply (err=%v)", adv.ApiKey, v, bi, err2)
						failures++
					} else if err := c11CheckReply(adv.ApiKey, replyVersion, corr2, payload2); err != nil {
						t.Errorf("VIOLATION-DETAIL key %d v%d body %d second request on the same handler: %v", adv.ApiKey, v, bi, err)
						failures++
					}
				}
			}
		}
	}
	t.Logf("C11-ENUM pairs=%d failures=%d", pairs, failures)
}
