module modeltests

go 1.25
