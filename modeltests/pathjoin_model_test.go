package modeltests

// Executable sanity checks of two trusted engine models (govc/bmain.go) against the real standard library:
//
//   path.Join(first, e1, ..., en) == pfx(first) + e1 + "/" + ... + en     when every ei is "simple"
//       (non-empty, no '/', not "." and not ".."), for ONE function pfx of the first element only;
//   fmt.Sprintf("%d" / "%020d", x): the text contains no '/', no ':', is not empty, "." or "..", and determines x.
//
// Run: cd /verif/modeltests && go test ./...   (not part of any property check; the models stay trusted)

import (
	"fmt"
	"math/rand"
	"path"
	"strings"
	"testing"
)

func simple(r *rand.Rand) string {
	const alphabet = "abcXYZ019._-: %\\"
	for {
		n := 1 + r.Intn(6)
		b := make([]byte, n)
		for i := range b {
			b[i] = alphabet[r.Intn(len(alphabet))]
		}
		s := string(b)
		if s != "." && s != ".." {
			return s
		}
	}
}

func TestPathJoinModel(t *testing.T) {
	r := rand.New(rand.NewSource(1))
	firsts := []string{"", ".", "..", "/", "//", "a", "a/", "/a", "a/b", "a//b", "a/./b", "a/..", "a/../..", "../..", "./x", "x/.", "default", "prod/eu-1", "/abs/ns/", "..a", "a..", "...", " "}
	for i := 0; i < 200; i++ {
		n := r.Intn(5)
		parts := make([]string, n)
		for j := range parts {
			parts[j] = []string{"a", "..", ".", "", "x y", "ns"}[r.Intn(6)]
		}
		firsts = append(firsts, strings.Join(parts, "/"))
	}
	for _, first := range firsts {
		probe := path.Join(first, "PROBE")
		if !strings.HasSuffix(probe, "PROBE") {
			t.Fatalf("Join(%q, PROBE) = %q does not end in the simple element", first, probe)
		}
		pfx := strings.TrimSuffix(probe, "PROBE")
		for k := 0; k < 200; k++ {
			n := 1 + r.Intn(4)
			elems := []string{first}
			var rest []string
			for j := 0; j < n; j++ {
				s := simple(r)
				elems = append(elems, s)
				rest = append(rest, s)
			}
			got := path.Join(elems...)
			want := pfx + strings.Join(rest, "/")
			if got != want {
				t.Fatalf("Join(%q) = %q, model says %q (pfx %q)", elems, got, want, pfx)
			}
		}
	}
}

func TestDecimalVerbModel(t *testing.T) {
	r := rand.New(rand.NewSource(2))
	seen := map[string]int64{}
	seen20 := map[string]int64{}
	vals := []int64{0, 1, -1, 9, 10, -10, 2147483647, -2147483648, 9223372036854775807, -9223372036854775808}
	for i := 0; i < 20000; i++ {
		vals = append(vals, r.Int63()-r.Int63())
	}
	for _, x := range vals {
		for _, f := range []struct {
			format string
			seen   map[string]int64
		}{{"%d", seen}, {"%020d", seen20}} {
			s := fmt.Sprintf(f.format, x)
			if s == "" || s == "." || s == ".." || strings.ContainsAny(s, "/:") {
				t.Fatalf("Sprintf(%q, %d) = %q", f.format, x, s)
			}
			if y, ok := f.seen[s]; ok && y != x {
				t.Fatalf("Sprintf(%q) maps %d and %d to %q", f.format, x, y, s)
			}
			f.seen[s] = x
		}
		if s32, s64 := fmt.Sprintf("%d", int32(x)), fmt.Sprintf("%d", int64(int32(x))); s32 != s64 {
			t.Fatalf("%%d differs between int32 and int64 for %d", int32(x))
		}
	}
}
