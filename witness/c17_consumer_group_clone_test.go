package metadata

// Witness for C17 (in-memory and etcd metadata stores behave the same; also C15: group state survives failover).
// Copy next to pkg/metadata and run: go test ./pkg/metadata -run TestVerifWitnessC17
//
// The in-memory store clones a consumer group on Put and on Fetch with a hand-written field list that omits
// ConsumerGroup.RebalanceTimeoutMs and GroupMember.SessionTimeoutMs: what is read back differs from what was
// stored (the etcd store keeps every field: it marshals the protobuf message).

import (
	"context"
	"testing"

	metadatapb "github.com/KafScale/platform/pkg/gen/metadata"
)

func TestVerifWitnessC17ConsumerGroupReadsBackComplete(t *testing.T) {
	ctx := context.Background()
	store := NewInMemoryStore(ClusterMetadata{})
	in := &metadatapb.ConsumerGroup{
		GroupId:            "g1",
		State:              "stable",
		GenerationId:       3,
		RebalanceTimeoutMs: 30000,
		Members: map[string]*metadatapb.GroupMember{
			"m1": {ClientId: "c", SessionTimeoutMs: 10000, Subscriptions: []string{"orders"}},
		},
	}
	if err := store.PutConsumerGroup(ctx, in); err != nil {
		t.Fatal(err)
	}
	out, err := store.FetchConsumerGroup(ctx, "g1")
	if err != nil || out == nil {
		t.Fatalf("fetch: %v %v", out, err)
	}
	if out.RebalanceTimeoutMs != in.RebalanceTimeoutMs {
		t.Errorf("RebalanceTimeoutMs stored %d, read back %d", in.RebalanceTimeoutMs, out.RebalanceTimeoutMs)
	}
	if m := out.Members["m1"]; m == nil || m.SessionTimeoutMs != 10000 {
		t.Errorf("member SessionTimeoutMs stored 10000, read back %v", m)
	}
}
