package storage

// Witness for property C06 (restart loses no acknowledged record): an index upload that fails once leaves a
// segment object without its index; later flushes succeed and the published offset moves past it. A restarted
// broker must still open the partition and serve the acknowledged records. On the code as found RestoreFromS3
// returns the "index not found" error for the orphan (its base offset is below the published offset, so it is
// not skipped) and the partition can never be opened again.
//
// Run from the repository: cp this file to pkg/storage/ and `go test ./pkg/storage -run TestVerifWitnessC06`.

import (
	"context"
	"fmt"
	"sync/atomic"
	"testing"
	"time"

	"github.com/KafScale/platform/pkg/cache"
)

type verifC06FailOnceS3 struct {
	*MemoryS3Client
	failNextIndex atomic.Bool
}

func (f *verifC06FailOnceS3) UploadIndex(ctx context.Context, key string, body []byte) error {
	if f.failNextIndex.CompareAndSwap(true, false) {
		return fmt.Errorf("simulated index upload failure")
	}
	return f.MemoryS3Client.UploadIndex(ctx, key, body)
}

func TestVerifWitnessC06OrphanBelowPublishedOffset(t *testing.T) {
	ctx := context.Background()
	s3 := &verifC06FailOnceS3{MemoryS3Client: NewMemoryS3Client()}
	cfg := PartitionLogConfig{
		Buffer:  WriteBufferConfig{MaxBytes: 1 << 20, FlushInterval: time.Hour},
		Segment: SegmentWriterConfig{IndexIntervalMessages: 1},
	}
	var published int64 = -1 // what the broker's onFlush callback stores as next_offset - 1
	onFlush := func(_ context.Context, a *SegmentArtifact) { published = a.LastOffset }
	log := NewPartitionLog("default", "orders", 0, 0, s3, cache.NewSegmentCache(1<<20), cfg, onFlush, nil, nil)

	produce := func(marker byte) (int64, error) {
		batch, err := NewRecordBatchFromBytes(makeBatchBytes(0, 0, 1, marker))
		if err != nil {
			t.Fatalf("batch: %v", err)
		}
		res, err := log.AppendBatch(ctx, batch)
		if err != nil {
			return -1, err
		}
		return res.BaseOffset, log.Flush(ctx) // flush-on-ack: success is reported only after Flush
	}

	offA, err := produce('A')
	if err != nil {
		t.Fatalf("produce A: %v", err)
	}
	s3.failNextIndex.Store(true)
	if _, err := produce('B'); err == nil {
		t.Fatalf("produce B should have failed (index upload failure), it was not acknowledged")
	}
	offC, err := produce('C')
	if err != nil {
		t.Fatalf("produce C: %v", err)
	}
	if published != offC {
		t.Fatalf("published offset %d, want %d", published, offC)
	}

	// broker restart: a fresh log opened at the published next offset
	restarted := NewPartitionLog("default", "orders", 0, published+1, s3, cache.NewSegmentCache(1<<20), cfg, nil, nil, nil)
	if _, err := restarted.RestoreFromS3(ctx); err != nil {
		t.Fatalf("acknowledged offsets %d and %d are in S3 with their indexes, but the partition cannot be opened: RestoreFromS3: %v", offA, offC, err)
	}
	for _, off := range []int64{offA, offC} {
		data, err := restarted.Read(ctx, off, 0)
		if err != nil || len(data) == 0 {
			t.Fatalf("acknowledged offset %d unreadable after restart: %v", off, err)
		}
	}
}
