package protocol

import "testing"

// Witness for C10: ApiVersions v3 (flexible) header whose tagged-field size is 2^63.
// Before the fix, ParseRequestHeader panicked with "slice bounds out of range".
func TestVerifWitnessC10TaggedFieldSize(t *testing.T) {
	frame := []byte{0, 18, 0, 3, 0, 0, 0, 1, 0xff, 0xff, // key=18 v3 corr=1 clientID=null
		1,                                                          // one tagged field
		0,                                                          // tag 0
		0x80, 0x80, 0x80, 0x80, 0x80, 0x80, 0x80, 0x80, 0x80, 0x01} // size = 2^63
	defer func() {
		if r := recover(); r != nil {
			t.Fatalf("ParseRequestHeader panicked: %v", r)
		}
	}()
	if _, _, err := ParseRequestHeader(frame); err == nil {
		t.Fatalf("expected an error for an oversized tagged field")
	}
}
