package proxy

// Witness for C37: the proxy authorized trimQuery(m.String) - the text cut to 512 bytes plus "..." - and forwarded
// the whole m.String. A JOIN on a denied topic placed after byte 512 was therefore authorized as a single-topic
// query on the allowed topic and executed upstream in full.
// Copy next to addons/processors/sql-processor/internal/proxy/proxy.go and run
//   go test ./internal/proxy -run TestVerifWitnessC37
// The test drives the real handleConn over net.Pipe with a fake upstream and checks what the upstream receives.

import (
	"context"
	"log"
	"net"
	"strings"
	"testing"
	"time"

	"github.com/jackc/pgproto3/v2"

	"github.com/kafscale/platform/addons/processors/sql-processor/internal/config"
)

func TestVerifWitnessC37TruncatedTextIsAuthorized(t *testing.T) {
	query := "SELECT * FROM orders o " + strings.Repeat(" ", 500) + "JOIN secrets s ON o._key = s._key WITHIN 10m LAST 1h;"

	clientSide, proxySide := net.Pipe()
	upstreamProxySide, upstreamSide := net.Pipe()
	defer clientSide.Close()
	defer upstreamSide.Close()

	cfg := config.ProxyConfig{Listen: "x", Upstreams: []string{"u"}}
	cfg.ACL.Allow = []string{"orders"}
	srv := New(cfg, log.New(testWriter{t}, "", 0))
	srv.dialer = func(ctx context.Context, addr string) (net.Conn, error) { return upstreamProxySide, nil }

	go func() { _ = srv.handleConn(context.Background(), proxySide) }()

	forwarded := make(chan string, 1)
	// fake upstream: accept the startup, answer ReadyForQuery, then report the first Query it receives
	go func() {
		be := pgproto3.NewBackend(pgproto3.NewChunkReader(upstreamSide), upstreamSide)
		if _, err := be.ReceiveStartupMessage(); err != nil {
			return
		}
		_ = be.Send(&pgproto3.ReadyForQuery{TxStatus: 'I'})
		for {
			msg, err := be.Receive()
			if err != nil {
				return
			}
			if q, ok := msg.(*pgproto3.Query); ok {
				forwarded <- q.String
				_ = be.Send(&pgproto3.ReadyForQuery{TxStatus: 'I'})
			}
		}
	}()

	fe := pgproto3.NewFrontend(pgproto3.NewChunkReader(clientSide), clientSide)
	if err := fe.Send(&pgproto3.StartupMessage{ProtocolVersion: pgproto3.ProtocolVersionNumber, Parameters: map[string]string{"user": "u"}}); err != nil {
		t.Fatal(err)
	}
	// drain proxy -> client messages
	replies := make(chan pgproto3.BackendMessage, 16)
	go func() {
		for {
			m, err := fe.Receive()
			if err != nil {
				close(replies)
				return
			}
			if er, ok := m.(*pgproto3.ErrorResponse); ok {
				cp := *er
				replies <- &cp
			} else if _, ok := m.(*pgproto3.ReadyForQuery); ok {
				replies <- &pgproto3.ReadyForQuery{}
			}
		}
	}()
	<-replies // ReadyForQuery after startup
	if err := fe.Send(&pgproto3.Query{String: query}); err != nil {
		t.Fatal(err)
	}
	select {
	case got := <-forwarded:
		t.Errorf("the proxy forwarded a query that joins the denied topic \"secrets\" (ACL allows only \"orders\"); forwarded text has %d bytes", len(got))
	case m := <-replies:
		if er, ok := m.(*pgproto3.ErrorResponse); !ok || !strings.Contains(er.Message, "secrets") {
			t.Errorf("expected an access-denied error naming the topic, got %#v", m)
		}
	case <-time.After(3 * time.Second):
		t.Fatal("timeout")
	}
}

type testWriter struct{ t *testing.T }

func (w testWriter) Write(p []byte) (int, error) { return len(p), nil }
