package broker

// Witness for the limit stated in props/C13.json: the group generation is an int32 that startRebalance
// increments without a guard, so the 2^31-th rebalance of one group wraps it to a negative number and the
// generation a group reports to its members decreases. Copy next to pkg/broker/coordinator.go and run
//   go test ./pkg/broker -run TestC13GenerationWrap
// It FAILS on the real code (by design: it documents the one case the clause C13.generation_increases excludes).

import (
	"math"
	"testing"
)

func TestC13GenerationWrap(t *testing.T) {
	s := &groupState{
		generationID: math.MaxInt32,
		state:        groupStateStable,
		members:      map[string]*memberState{"m": {}},
		assignments:  map[string][]assignmentTopic{},
	}
	before := s.generationID
	s.startRebalance(0)
	if s.generationID < before {
		t.Fatalf("generation went from %d to %d", before, s.generationID)
	}
}
