package operator

import (
	"strings"
	"testing"

	kafscalev1alpha1 "github.com/KafScale/platform/api/v1alpha1"
	metav1 "k8s.io/apimachinery/pkg/apis/meta/v1"
)

// Witness for C39 (bucket names): a namespace of 40 and a cluster name of 50 characters - both valid Kubernetes
// names - give a derived etcd snapshot bucket name longer than the 63 characters S3 allows.
func TestVerifWitnessC39BucketNameLength(t *testing.T) {
	cluster := &kafscalev1alpha1.KafscaleCluster{ObjectMeta: metav1.ObjectMeta{
		Namespace: strings.Repeat("n", 40), Name: strings.Repeat("c", 50)}}
	got := defaultEtcdSnapshotBucket(cluster)
	if len(got) < 3 || len(got) > 63 {
		t.Fatalf("derived bucket name has %d characters (S3 allows 3..63): %q", len(got), got)
	}
	if strings.HasPrefix(got, "-") || strings.HasSuffix(got, "-") {
		t.Fatalf("bucket name starts or ends with '-': %q", got)
	}
}
