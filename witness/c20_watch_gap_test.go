package metadata

// Witness for property C20: a lease change that happens after the router's full read (loadAll) but before its watch
// stream is established must still reach the routing table once changes stop. The watcher of the etcd client is
// wrapped so that the Watch call is delayed until the test has written a lease key in that gap.

import (
	"context"
	"testing"
	"time"

	clientv3 "go.etcd.io/etcd/client/v3"

	"github.com/KafScale/platform/internal/testutil"
)

type c20GatedWatcher struct {
	clientv3.Watcher
	gate chan struct{}
}

func (w *c20GatedWatcher) Watch(ctx context.Context, key string, opts ...clientv3.OpOption) clientv3.WatchChan {
	<-w.gate
	return w.Watcher.Watch(ctx, key, opts...)
}

func TestVerifWitnessC20ChangeBetweenLoadAndWatchIsNotLost(t *testing.T) {
	endpoints := testutil.StartEmbeddedEtcd(t)
	routerCli := newEtcdClientForTest(t, endpoints)
	admin := newEtcdClientForTest(t, endpoints)
	gate := make(chan struct{})
	routerCli.Watcher = &c20GatedWatcher{Watcher: routerCli.Watcher, gate: gate}

	ctx, cancel := context.WithCancel(context.Background())
	defer cancel()
	router, err := NewPartitionRouter(ctx, routerCli, nil)
	if err != nil {
		t.Fatalf("router: %v", err)
	}
	defer router.Stop()
	// loadAll has finished (empty table); the watch is not established yet. A broker acquires a lease now.
	if _, err := admin.Put(ctx, partitionLeaseKey("orders", 0), "broker-a"); err != nil {
		t.Fatalf("put: %v", err)
	}
	close(gate) // the watch stream starts only now
	// changes have stopped; the table must converge to etcd's content
	deadline := time.Now().Add(5 * time.Second)
	for time.Now().Before(deadline) {
		if router.LookupOwner("orders", 0) == "broker-a" {
			return
		}
		time.Sleep(50 * time.Millisecond)
	}
	t.Fatalf("routing table never learned the lease written between loadAll and Watch: LookupOwner = %q, etcd has broker-a", router.LookupOwner("orders", 0))
}
