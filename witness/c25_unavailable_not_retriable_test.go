package main

import (
	"context"
	"errors"
	"testing"
	"time"

	"github.com/KafScale/platform/pkg/broker"
	"github.com/KafScale/platform/pkg/metadata"
	"github.com/KafScale/platform/pkg/protocol"
	"github.com/twmb/franz-go/pkg/kerr"
	"github.com/twmb/franz-go/pkg/kmsg"
)

// Witness for the recorded C25 finding: while the broker rates S3 "unavailable", a rejected fetch partition
// carries UNKNOWN_SERVER_ERROR (-1), which the standard client's own error table (franz-go kerr) does not treat
// as retriable; the property asks for a retriable error ("degraded" answers REQUEST_TIMED_OUT, which is).
// Two existing tests (TestProduceBackpressureUnavailable, TestFetchBackpressureUnavailable) pin -1.
func TestVerifWitnessC25UnavailableCodeNotRetriable(t *testing.T) {
	t.Setenv("KAFSCALE_S3_ERROR_RATE_CRIT", "0.1")
	store := metadata.NewInMemoryStore(defaultMetadata())
	h := newTestHandler(store)
	for i := 0; i < 2; i++ {
		h.s3Health.RecordOperation("download", time.Millisecond, errors.New("boom"))
	}
	if st := h.s3Health.State(); st != broker.S3StateUnavailable {
		t.Fatalf("setup: state %s", st)
	}
	req := &kmsg.FetchRequest{Topics: []kmsg.FetchRequestTopic{{Topic: "orders",
		Partitions: []kmsg.FetchRequestTopicPartition{{Partition: 0, FetchOffset: 0, PartitionMaxBytes: 1024}}}}}
	resp, err := h.handleFetch(context.Background(), &protocol.RequestHeader{CorrelationID: 12, APIVersion: 11}, req)
	if err != nil {
		t.Fatal(err)
	}
	fr := decodeKmsgResponse(t, 11, resp, kmsg.NewPtrFetchResponse)
	code := fr.Topics[0].Partitions[0].ErrorCode
	if code == 0 {
		t.Fatalf("fetch served while S3 is unavailable")
	}
	if !kerr.IsRetriable(kerr.ErrorForCode(code)) {
		t.Fatalf("partition rejected for S3 health got error code %d (%v), which the client does not retry", code, kerr.ErrorForCode(code))
	}
}
