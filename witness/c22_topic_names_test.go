package metadata

// Witness for C22 (different topics never share storage or metadata keys).
// Copy next to pkg/metadata and run: go test ./pkg/metadata -run TestVerifWitnessC22
//
// On the original code InMemoryStore.CreateTopic (used directly by the in-memory broker and, through
// delegation, by EtcdStore.CreateTopic) accepts every non-empty name. Names with a path separator, a dot
// segment or ':' alias another topic's keys:
//   - "a:b" partition 0 has the offsets-map key "a:b:0", which DeleteTopic("a") removes (prefix "a:");
//   - "a/0" partition 0 has the S3 prefix "<ns>/a/0/0/", which lies under topic "a" partition 0's list prefix
//     "<ns>/a/0/"; "x/../b" is cleaned by path.Join to the keys of topic "b"; ".." escapes the namespace.

import (
	"context"
	"testing"

	"github.com/KafScale/platform/pkg/protocol"
)

func TestVerifWitnessC22UnsafeTopicNamesRejected(t *testing.T) {
	ctx := context.Background()
	for _, name := range []string{"a/0", "x/../b", "..", ".", "a:b", "a/partitions/0", "/", "a/"} {
		store := NewInMemoryStore(ClusterMetadata{Brokers: []protocol.MetadataBroker{{NodeID: 1}}, ControllerID: 1})
		if _, err := store.CreateTopic(ctx, TopicSpec{Name: name, NumPartitions: 1, ReplicationFactor: 1}); err == nil {
			t.Errorf("CreateTopic accepted the aliasing topic name %q", name)
		}
	}
}

func TestVerifWitnessC22DeleteTopicKeepsOtherTopicsOffsets(t *testing.T) {
	ctx := context.Background()
	store := NewInMemoryStore(ClusterMetadata{Brokers: []protocol.MetadataBroker{{NodeID: 1}}, ControllerID: 1})
	if _, err := store.CreateTopic(ctx, TopicSpec{Name: "a", NumPartitions: 1, ReplicationFactor: 1}); err != nil {
		t.Fatal(err)
	}
	if _, err := store.CreateTopic(ctx, TopicSpec{Name: "a:b", NumPartitions: 1, ReplicationFactor: 1}); err != nil {
		return // rejected: nothing can alias
	}
	if err := store.UpdateOffsets(ctx, "a:b", 0, 41); err != nil {
		t.Fatal(err)
	}
	if err := store.DeleteTopic(ctx, "a"); err != nil {
		t.Fatal(err)
	}
	next, err := store.NextOffset(ctx, "a:b", 0)
	if err != nil {
		t.Fatal(err)
	}
	if next != 42 {
		t.Errorf("deleting topic %q reset the next offset of topic %q to %d (want 42)", "a", "a:b", next)
	}
}
