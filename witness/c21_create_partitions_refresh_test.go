package metadata

// Witness for property C21: EtcdStore.CreatePartitions grows the topic in memory and only then takes persistMu to
// write the snapshot. A snapshot refresh (run by the watcher whenever the operator or another broker writes the
// snapshot key) that gets the lock in between replaces the in-memory state with the old snapshot, and the persist then
// writes a snapshot WITHOUT the new partitions although CreatePartitions reports success.

import (
	"context"
	"encoding/json"
	"testing"
	"time"

	"github.com/twmb/franz-go/pkg/kmsg"

	"github.com/KafScale/platform/internal/testutil"
	"github.com/KafScale/platform/pkg/protocol"
)

func TestVerifWitnessC21CreatePartitionsSurvivesQueuedRefresh(t *testing.T) {
	endpoints := testutil.StartEmbeddedEtcd(t)
	ctx := context.Background()
	parts := make([]protocol.MetadataPartition, 3)
	for i := range parts {
		parts[i] = protocol.MetadataPartition{Partition: int32(i), Leader: 1, Replicas: []int32{1}, ISR: []int32{1}}
	}
	initial := ClusterMetadata{
		Brokers:      []protocol.MetadataBroker{{NodeID: 1, Host: "broker-0", Port: 9092}},
		ControllerID: 1,
		Topics:       []protocol.MetadataTopic{{Topic: kmsg.StringPtr("orders"), TopicID: TopicIDForName("orders"), Partitions: parts}},
	}
	store, err := NewEtcdStore(ctx, initial, EtcdStoreConfig{Endpoints: endpoints})
	if err != nil {
		t.Fatalf("store: %v", err)
	}
	defer store.Close()
	payload, _ := json.Marshal(initial)
	if _, err := store.EtcdClient().Put(ctx, snapshotKey(), string(payload)); err != nil {
		t.Fatalf("seed snapshot: %v", err)
	}
	time.Sleep(300 * time.Millisecond) // let the watcher's own refresh for that put finish

	store.persistMu.Lock() // a refresh is running / queued while the admin request arrives
	refreshed := make(chan error, 1)
	go func() { refreshed <- store.RefreshSnapshot(ctx) }()
	time.Sleep(150 * time.Millisecond)
	created := make(chan error, 1)
	go func() { created <- store.CreatePartitions(ctx, "orders", 6) }()
	time.Sleep(300 * time.Millisecond)
	store.persistMu.Unlock()
	if err := <-refreshed; err != nil {
		t.Fatalf("refresh: %v", err)
	}
	if err := <-created; err != nil {
		t.Skipf("CreatePartitions was refused (%v): the window did not occur in this run", err)
	}
	// CreatePartitions was acknowledged: the durable snapshot must hold 6 partitions
	resp, err := store.EtcdClient().Get(ctx, snapshotKey())
	if err != nil || len(resp.Kvs) == 0 {
		t.Fatalf("snapshot: %v", err)
	}
	var snap ClusterMetadata
	if err := json.Unmarshal(resp.Kvs[0].Value, &snap); err != nil {
		t.Fatal(err)
	}
	for _, tp := range snap.Topics {
		if tp.Topic != nil && *tp.Topic == "orders" {
			if len(tp.Partitions) != 6 {
				t.Fatalf("CreatePartitions(orders, 6) was acknowledged but the etcd snapshot holds %d partitions", len(tp.Partitions))
			}
			return
		}
	}
	t.Fatalf("orders missing from the snapshot")
}
