package storage

import (
	"context"
	"encoding/binary"
	"testing"
	"time"
)

// Witness for C02: a produced batch whose lastOffsetDelta field is -1 made AppendBatch leave
// nextOffset unchanged, so the next batch was assigned the same base offset (offset reuse).
// After the fix such a batch is rejected when it is parsed.
func TestVerifWitnessC02NegativeLastOffsetDelta(t *testing.T) {
	mk := func(delta int32) []byte {
		d := make([]byte, 70)
		binary.BigEndian.PutUint32(d[23:27], uint32(delta))
		binary.BigEndian.PutUint32(d[57:61], 1)
		return d
	}
	log := NewPartitionLog("default", "orders", 0, 0, NewMemoryS3Client(), nil, PartitionLogConfig{
		Buffer: WriteBufferConfig{MaxBytes: 1 << 20, FlushInterval: time.Hour},
	}, nil, nil, nil)
	bad, err := NewRecordBatchFromBytes(mk(-1))
	if err != nil {
		return // rejected: offsets cannot be reused
	}
	r1, err := log.AppendBatch(context.Background(), bad)
	if err != nil {
		t.Fatal(err)
	}
	good, _ := NewRecordBatchFromBytes(mk(0))
	r2, err := log.AppendBatch(context.Background(), good)
	if err != nil {
		t.Fatal(err)
	}
	if r2.BaseOffset <= r1.BaseOffset {
		t.Fatalf("offset reuse: batch 1 got base %d, batch 2 got base %d", r1.BaseOffset, r2.BaseOffset)
	}
}
