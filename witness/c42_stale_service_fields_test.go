package operator

import (
	"context"
	"reflect"
	"testing"

	corev1 "k8s.io/api/core/v1"
	metav1 "k8s.io/apimachinery/pkg/apis/meta/v1"
	"sigs.k8s.io/controller-runtime/pkg/client/fake"

	kafscalev1alpha1 "github.com/KafScale/platform/api/v1alpha1"
)

// Witness for C42 ("the rendered objects depend only on the cluster resource and the operator's environment"):
// the broker Service rendered for one and the same cluster resource differs depending on what was reconciled
// before. Cluster A sets load-balancer fields; the spec is then changed to B (fields cleared). Reconciling B over
// the object left by A keeps A's LoadBalancerIP / source ranges / traffic policy / annotations, while reconciling
// B from scratch does not: the mutate closure assigned these fields only when the spec value is non-empty.
// The three spec fields are repaired (fix commit); the annotations are a recorded finding (assigning them
// unconditionally would also erase annotations that other controllers put on the Service).
func c42RenderBoth(t *testing.T) (after, fresh *corev1.Service) {
	mk := func(svc kafscalev1alpha1.BrokerServiceSpec) *kafscalev1alpha1.KafscaleCluster {
		return &kafscalev1alpha1.KafscaleCluster{
			ObjectMeta: metav1.ObjectMeta{Name: "demo", Namespace: "default"},
			Spec: kafscalev1alpha1.KafscaleClusterSpec{
				Brokers: kafscalev1alpha1.BrokerSpec{Service: svc},
				S3:      kafscalev1alpha1.S3Spec{Bucket: "bucket", Region: "us-east-1"},
			},
		}
	}
	specA := kafscalev1alpha1.BrokerServiceSpec{
		Type:                     string(corev1.ServiceTypeLoadBalancer),
		Annotations:              map[string]string{"cloud.example.com/lb": "external"},
		LoadBalancerIP:           "203.0.113.10",
		LoadBalancerSourceRanges: []string{"203.0.113.0/24"},
		ExternalTrafficPolicy:    string(corev1.ServiceExternalTrafficPolicyTypeLocal),
	}
	specB := kafscalev1alpha1.BrokerServiceSpec{Type: string(corev1.ServiceTypeLoadBalancer)}
	scheme := testScheme(t)

	// history 1: A, then B
	clusterA := mk(specA)
	c1 := fake.NewClientBuilder().WithScheme(scheme).WithObjects(clusterA).Build()
	r1 := &ClusterReconciler{Client: c1, Scheme: scheme}
	if err := r1.reconcileBrokerService(context.Background(), clusterA); err != nil {
		t.Fatal(err)
	}
	if err := r1.reconcileBrokerService(context.Background(), mk(specB)); err != nil {
		t.Fatal(err)
	}
	after = &corev1.Service{}
	assertFound(t, c1, after, "default", "demo-broker")

	// history 2: B only
	clusterB2 := mk(specB)
	c2 := fake.NewClientBuilder().WithScheme(scheme).WithObjects(clusterB2).Build()
	r2 := &ClusterReconciler{Client: c2, Scheme: scheme}
	if err := r2.reconcileBrokerService(context.Background(), clusterB2); err != nil {
		t.Fatal(err)
	}
	fresh = &corev1.Service{}
	assertFound(t, c2, fresh, "default", "demo-broker")
	return after, fresh
}

// Fails before the fix commit, passes after it.
func TestVerifWitnessC42BrokerServiceStaleSpecFields(t *testing.T) {
	after, fresh := c42RenderBoth(t)
	if !reflect.DeepEqual(after.Spec, fresh.Spec) {
		t.Fatalf("the Service spec rendered for the same cluster resource depends on history:\n after A then B: ip=%q ranges=%v policy=%q\n B from scratch:  ip=%q ranges=%v policy=%q",
			after.Spec.LoadBalancerIP, after.Spec.LoadBalancerSourceRanges, after.Spec.ExternalTrafficPolicy,
			fresh.Spec.LoadBalancerIP, fresh.Spec.LoadBalancerSourceRanges, fresh.Spec.ExternalTrafficPolicy)
	}
}

// Recorded finding (not repaired): annotations removed from the spec stay on the Service.
func TestVerifWitnessC42BrokerServiceStaleAnnotations(t *testing.T) {
	after, fresh := c42RenderBoth(t)
	if !reflect.DeepEqual(after.Annotations, fresh.Annotations) {
		t.Fatalf("the Service annotations rendered for the same cluster resource depend on history: after A then B %v, B from scratch %v", after.Annotations, fresh.Annotations)
	}
}
