package broker

import (
	"bufio"
	"bytes"
	"testing"
)

// Witness for C26: PROXY v2, command PROXY, byte 13 = 0x21 (AF_INET6 over STREAM).
// Before the fix the address family was read from the low (transport) nibble, so this
// header was parsed as IPv4 and the reported ports were read from the wrong offsets.
func TestVerifWitnessC26FamilyNibble(t *testing.T) {
	hdr := append([]byte{}, proxyV2Signature...)
	hdr = append(hdr, 0x21, 0x21, 0, 36)
	payload := make([]byte, 36)
	payload[15], payload[31] = 1, 2 // ::1 -> ::2
	payload[32], payload[33] = 0x30, 0x39 // source port 12345
	payload[34], payload[35] = 0x23, 0x84 // dest port 9092
	br := bufio.NewReader(bytes.NewReader(append(append(hdr, payload...), []byte("rest")...)))
	info, err := parseProxyHeader(br)
	if err != nil {
		t.Fatal(err)
	}
	if info == nil || info.SourcePort != 12345 || info.DestPort != 9092 {
		t.Fatalf("IPv6/TCP header misparsed: %+v", info)
	}
}
