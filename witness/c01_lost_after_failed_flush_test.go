package storage

// Witness for properties C01 and C05 (call-granularity schedule, no goroutines):
//   producer B appends, producer A appends, A's Flush drains BOTH batches and its S3 upload fails (A is told),
//   then B's Flush finds an empty buffer.
// C01: B's Flush must not report success unless B's records are durable in S3 (or still buffered and flushed now).
// C05: the offset published through onFlush must not run ahead of what S3 holds.

import (
	"context"
	"fmt"
	"sync"
	"testing"
)

type verifFailOnceS3 struct {
	*MemoryS3Client
	mu    sync.Mutex
	fails int
}

func (f *verifFailOnceS3) UploadSegment(ctx context.Context, key string, body []byte) error {
	f.mu.Lock()
	if f.fails > 0 {
		f.fails--
		f.mu.Unlock()
		return fmt.Errorf("simulated S3 upload failure")
	}
	f.mu.Unlock()
	return f.MemoryS3Client.UploadSegment(ctx, key, body)
}

func TestVerifWitnessC01FlushAfterAnotherProducersFailedFlush(t *testing.T) {
	ctx := context.Background()
	s3 := &verifFailOnceS3{MemoryS3Client: NewMemoryS3Client(), fails: 1}
	published := int64(-1)
	log := NewPartitionLog("default", "orders", 0, 0, s3, nil, PartitionLogConfig{
		Buffer:  WriteBufferConfig{MaxBytes: 1 << 20},
		Segment: SegmentWriterConfig{IndexIntervalMessages: 1},
	}, func(_ context.Context, a *SegmentArtifact) { published = a.LastOffset }, nil, nil)

	mk := func(marker byte) RecordBatch {
		b, err := NewRecordBatchFromBytes(makeBatchBytes(0, 0, 1, marker))
		if err != nil {
			t.Fatalf("batch: %v", err)
		}
		return b
	}
	resB, err := log.AppendBatch(ctx, mk(0xB0))
	if err != nil {
		t.Fatalf("append B: %v", err)
	}
	if _, err := log.AppendBatch(ctx, mk(0xA0)); err != nil {
		t.Fatalf("append A: %v", err)
	}
	if err := log.Flush(ctx); err == nil { // producer A: drains A and B, upload fails, A gets the error
		t.Fatalf("expected A's flush to fail")
	}
	errB := log.Flush(ctx) // producer B (acks=all): success here is what acknowledges B's record
	// what S3 holds now
	restored := NewPartitionLog("default", "orders", 0, 0, s3, nil, PartitionLogConfig{
		Buffer: WriteBufferConfig{MaxBytes: 1 << 20}, Segment: SegmentWriterConfig{IndexIntervalMessages: 1},
	}, nil, nil, nil)
	next, rerr := restored.RestoreFromS3(ctx)
	if rerr != nil {
		t.Fatalf("restore: %v", rerr)
	}
	if errB == nil && next < resB.LastOffset {
		t.Errorf("C01: B's Flush returned nil (offset %d acknowledged) but the last offset S3 holds is %d", resB.LastOffset, next)
	}
	if published > next {
		t.Errorf("C05: offset %d was published as durable but the last offset S3 holds is %d", published, next)
	}
}
