package main

// Witness for C24 (with ACLs on, unauthorized requests change nothing).
// Copy next to cmd/broker and run: go test ./cmd/broker -run TestVerifWitnessC24
//
// A Metadata request auto-creates every named topic that does not exist (KAFSCALE_AUTO_CREATE_TOPICS defaults
// to true) before any authorization check: a principal with no permission at all (default policy deny, no
// rules) creates topics.

import (
	"context"
	"testing"

	"github.com/KafScale/platform/pkg/metadata"
	"github.com/KafScale/platform/pkg/protocol"
	"github.com/twmb/franz-go/pkg/kmsg"
)

func TestVerifWitnessC24MetadataAutoCreateNeedsPermission(t *testing.T) {
	t.Setenv("KAFSCALE_ACL_ENABLED", "true")
	t.Setenv("KAFSCALE_ACL_JSON", `{"default_policy":"deny","principals":[{"name":"client-a","allow":[{"action":"fetch","resource":"topic","name":"orders"}]}]}`)

	store := metadata.NewInMemoryStore(defaultMetadata())
	handler := newTestHandler(store)
	if !handler.autoCreateTopics {
		t.Skip("auto-creation is off")
	}
	clientID := "intruder" // no rules: everything is denied
	name := "created-without-permission"
	req := kmsg.NewPtrMetadataRequest()
	rt := kmsg.NewMetadataRequestTopic()
	rt.Topic = kmsg.StringPtr(name)
	req.Topics = append(req.Topics, rt)
	_, _ = handler.Handle(context.Background(), &protocol.RequestHeader{APIKey: protocol.APIKeyMetadata, APIVersion: 1, CorrelationID: 7, ClientID: &clientID}, req)

	meta, err := store.Metadata(context.Background(), nil)
	if err != nil {
		t.Fatal(err)
	}
	for _, topic := range meta.Topics {
		if topic.Topic != nil && *topic.Topic == name {
			t.Fatalf("principal %q has no permission, yet its Metadata request created topic %q", clientID, name)
		}
	}
}
