package main

// Witness for C32: "When the LFS HTTP API returns success for an upload ..., the object named in the returned envelope
// exists. Its size and SHA-256 match the envelope".
// handleHTTPUploadPart fed the part's bytes into the session's running hashes BEFORE the S3 UploadPart call. When that
// call fails (HTTP 502) the session does not advance, the client retries the same part number, and the bytes are
// hashed a second time: the completion then returns 200 with an envelope whose SHA-256 is the hash of the part
// repeated, not of the stored object - every reader that verifies the checksum rejects the blob.
// Needs c32FakeBroker from c32_broker_error_ignored_test.go. Run: go test ./cmd/proxy -run TestWitnessC32

import (
	"bytes"
	"context"
	"crypto/sha256"
	"encoding/hex"
	"encoding/json"
	"errors"
	"net/http"
	"net/http/httptest"
	"testing"
	"time"

	"github.com/KafScale/platform/pkg/lfs"
	"github.com/aws/aws-sdk-go-v2/service/s3"
)

type c32FlakyPartS3 struct {
	*fakeS3
	failures int
}

func (f *c32FlakyPartS3) UploadPart(ctx context.Context, params *s3.UploadPartInput, optFns ...func(*s3.Options)) (*s3.UploadPartOutput, error) {
	if f.failures > 0 {
		f.failures--
		return nil, errors.New("simulated S3 part upload failure")
	}
	return f.fakeS3.UploadPart(ctx, params, optFns...)
}

func TestWitnessC32RetriedPartIsHashedOnce(t *testing.T) {
	m := testHTTPModule(t)
	m.httpAPIKey = ""
	m.s3Uploader.api = &c32FlakyPartS3{fakeS3: newFakeS3(), failures: 1}
	m.backends = []string{c32FakeBroker(t, 0)}
	m.backendRetries = 1
	m.dialTimeout = 2 * time.Second

	payload := []byte("the-only-part!")
	h := sha256.New()
	session := &uploadSession{
		ID: "sess-r", Topic: "orders", S3Key: "test-ns/orders/lfs/2026/01/01/obj-r", UploadID: "mp-r",
		ContentType: "application/octet-stream", SizeBytes: int64(len(payload)), ChecksumAlg: lfs.ChecksumSHA256,
		CreatedAt: time.Now().UTC(), ExpiresAt: time.Now().UTC().Add(time.Hour),
		PartSize: int64(len(payload)), NextPart: 1,
		Parts: map[int32]string{}, PartSizes: map[int32]int64{},
		sha256Hasher: h, checksumHasher: h,
	}
	m.lfsStoreUploadSession(session)

	put := func() int {
		req := httptest.NewRequest(http.MethodPut, "/lfs/uploads/sess-r/parts/1", bytes.NewReader(payload))
		rr := httptest.NewRecorder()
		m.handleHTTPUploadSession(rr, req)
		return rr.Code
	}
	if code := put(); code == http.StatusOK {
		t.Fatalf("the first attempt was meant to fail in S3, got %d", code)
	}
	if code := put(); code != http.StatusOK {
		t.Fatalf("retry of the part: HTTP %d", code)
	}
	body, _ := json.Marshal(map[string]any{"parts": []map[string]any{{"part_number": 1, "etag": "test-etag"}}})
	req := httptest.NewRequest(http.MethodPost, "/lfs/uploads/sess-r/complete", bytes.NewReader(body))
	rr := httptest.NewRecorder()
	m.handleHTTPUploadSession(rr, req)
	if rr.Code != http.StatusOK {
		return // an error status is allowed by the property; only a success must describe the stored object
	}
	var env lfs.Envelope
	if err := json.Unmarshal(rr.Body.Bytes(), &env); err != nil {
		t.Fatalf("envelope: %v", err)
	}
	want := sha256.Sum256(payload)
	if env.SHA256 != hex.EncodeToString(want[:]) {
		t.Fatalf("HTTP 200, but the envelope's SHA-256 %s is not the SHA-256 of the %d stored bytes (%s)", env.SHA256, len(payload), hex.EncodeToString(want[:]))
	}
}
