package metadata

// Witness for property C16 (known finding): a partition with no committed offset must read as -1; the in-memory
// store (and, through it, OffsetFetch) answers 0, which a consumer cannot tell from a commit at offset 0.

import (
	"context"
	"testing"
)

func TestVerifWitnessC16NeverCommittedReadsMinusOne(t *testing.T) {
	store := NewInMemoryStore(ClusterMetadata{})
	ctx := context.Background()
	if err := store.CommitConsumerOffset(ctx, "g", "orders", 0, 0, ""); err != nil {
		t.Fatal(err)
	}
	committed, _, _ := store.FetchConsumerOffset(ctx, "g", "orders", 0)
	never, _, err := store.FetchConsumerOffset(ctx, "g", "orders", 1)
	if err != nil {
		t.Fatal(err)
	}
	if never != -1 {
		t.Fatalf("never-committed partition reads %d (a commit at offset 0 reads %d): expected -1", never, committed)
	}
}
