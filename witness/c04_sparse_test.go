package storage

import (
	"context"
	"encoding/binary"
	"testing"
	"time"
)

// Witness for the recorded C04 finding: with the production index interval (100 messages) a
// segment of several small batches has one index entry; a fetch at the last batch's offset with a
// byte limit smaller than the distance from the index entry to that batch returns only bytes of
// earlier batches - the start of the batch holding the offset is not included.
func TestVerifWitnessC04SparseIndexSmallMaxBytes(t *testing.T) {
	mk := func(n int32) []byte {
		d := make([]byte, 70)
		binary.BigEndian.PutUint32(d[23:27], uint32(n-1))
		binary.BigEndian.PutUint32(d[57:61], uint32(n))
		return d
	}
	s3 := NewMemoryS3Client()
	log := NewPartitionLog("default", "orders", 0, 0, s3, nil, PartitionLogConfig{
		Buffer:  WriteBufferConfig{MaxBytes: 1 << 20, FlushInterval: time.Hour},
		Segment: SegmentWriterConfig{IndexIntervalMessages: 100},
	}, nil, nil, nil)
	var last *AppendResult
	for i := 0; i < 5; i++ {
		b, err := NewRecordBatchFromBytes(mk(1))
		if err != nil {
			t.Fatal(err)
		}
		last, err = log.AppendBatch(context.Background(), b)
		if err != nil {
			t.Fatal(err)
		}
	}
	if err := log.Flush(context.Background()); err != nil {
		t.Fatal(err)
	}
	data, err := log.Read(context.Background(), last.BaseOffset, 70)
	if err != nil {
		t.Fatal(err)
	}
	// does any returned batch start hold the requested offset?
	found := false
	for pos := 0; pos+61 <= len(data); pos += 70 {
		base := int64(binary.BigEndian.Uint64(data[pos : pos+8]))
		delta := int64(int32(binary.BigEndian.Uint32(data[pos+23 : pos+27])))
		if base <= last.BaseOffset && last.BaseOffset <= base+delta {
			found = true
		}
	}
	if !found {
		t.Fatalf("C04 violated: fetch at offset %d with maxBytes=70 returned %d bytes holding only earlier batches", last.BaseOffset, len(data))
	}
}
