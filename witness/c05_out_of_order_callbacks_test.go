package main

// Witness for property C05 (never regresses): the flush callbacks of two flushes of one partition run outside the
// log's lock; when the first callback is slow (a slow etcd put, a descheduled goroutine) the second flush's callback
// lands first and the first one then writes the LOWER offset over it.

import (
	"context"
	"sync"
	"testing"
	"time"

	"github.com/twmb/franz-go/pkg/kmsg"

	"github.com/KafScale/platform/pkg/metadata"
	"github.com/KafScale/platform/pkg/protocol"
)

type verifSlowFirstUpdateStore struct {
	metadata.Store
	once    sync.Once
	entered chan struct{}
	release chan struct{}
}

func (s *verifSlowFirstUpdateStore) UpdateOffsets(ctx context.Context, topic string, partition int32, lastOffset int64) error {
	first := false
	s.once.Do(func() { first = true })
	if first {
		close(s.entered)
		<-s.release
	}
	return s.Store.UpdateOffsets(ctx, topic, partition, lastOffset)
}

func TestVerifWitnessC05PublishedOffsetNeverRegresses(t *testing.T) {
	inner := metadata.NewInMemoryStore(defaultMetadata())
	store := &verifSlowFirstUpdateStore{Store: inner, entered: make(chan struct{}), release: make(chan struct{})}
	h := newTestHandler(store)
	produce := func() {
		req := &kmsg.ProduceRequest{Acks: -1, TimeoutMillis: 1000, Topics: []kmsg.ProduceRequestTopic{{Topic: "orders",
			Partitions: []kmsg.ProduceRequestTopicPartition{{Partition: 0, Records: testBatchBytes(0, 0, 1)}}}}}
		if _, err := h.handleProduce(context.Background(), &protocol.RequestHeader{CorrelationID: 1}, req); err != nil {
			t.Errorf("handleProduce: %v", err)
		}
	}
	var wg sync.WaitGroup
	wg.Add(1)
	go func() { defer wg.Done(); produce() }() // offset 0: its callback blocks inside the store
	<-store.entered
	second := make(chan struct{})
	go func() { defer close(second); produce() }() // offset 1
	select {
	case <-second:
	case <-time.After(500 * time.Millisecond): // a broker that serializes the callbacks keeps the second one waiting
	}
	high, _ := inner.NextOffset(context.Background(), "orders", 0)
	close(store.release)
	wg.Wait()
	<-second
	final, err := inner.NextOffset(context.Background(), "orders", 0)
	if err != nil {
		t.Fatal(err)
	}
	if final < high {
		t.Fatalf("published end offset went down from %d to %d", high, final)
	}
	if final != 2 {
		t.Fatalf("published end offset is %d after two acknowledged records", final)
	}
}
