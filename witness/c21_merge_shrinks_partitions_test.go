package operator

// Witness for C21 (acknowledged partition growth is never lost).
// Copy next to pkg/operator and run: go test ./pkg/operator -run TestVerifWitnessC21
//
// A broker grew topic "orders" to 6 partitions (CreatePartitions, acknowledged, persisted in the etcd snapshot).
// The operator then reconciles the KafscaleTopic resource, which still says 3 partitions, and publishes
// mergeSnapshots(fromResources, existingInEtcd): on the original code the resource definition wins for a topic
// present on both sides and the snapshot shrinks to 3 partitions.

import (
	"testing"

	"github.com/KafScale/platform/pkg/metadata"
	"github.com/KafScale/platform/pkg/protocol"
	"github.com/twmb/franz-go/pkg/kmsg"
)

func c21Partitions(n int) []protocol.MetadataPartition {
	out := make([]protocol.MetadataPartition, n)
	for i := range out {
		out[i] = protocol.MetadataPartition{Partition: int32(i), Leader: 0, Replicas: []int32{0}, ISR: []int32{0}}
	}
	return out
}

func TestVerifWitnessC21MergeNeverShrinksPartitions(t *testing.T) {
	fromResources := metadata.ClusterMetadata{Topics: []protocol.MetadataTopic{
		{Topic: kmsg.StringPtr("orders"), Partitions: c21Partitions(3)},
	}}
	inEtcd := metadata.ClusterMetadata{Topics: []protocol.MetadataTopic{
		{Topic: kmsg.StringPtr("orders"), Partitions: c21Partitions(6)},
		{Topic: kmsg.StringPtr("events"), Partitions: c21Partitions(2)},
	}}
	merged := mergeSnapshots(fromResources, inEtcd)
	got := map[string]int{}
	for _, topic := range merged.Topics {
		got[*topic.Topic] = len(topic.Partitions)
	}
	if got["orders"] < 6 {
		t.Errorf("topic orders had 6 partitions in etcd, the merged snapshot has %d", got["orders"])
	}
	if got["events"] < 2 {
		t.Errorf("topic events had 2 partitions in etcd, the merged snapshot has %d", got["events"])
	}
}
