package operator

// Witness for property C21: a partition increase acknowledged by a broker (CreatePartitions persisted in the etcd
// snapshot) must not be undone by the operator's next reconciliation, which merges the snapshot rendered from the
// topic resources with the snapshot found in etcd.

import (
	"testing"

	"github.com/twmb/franz-go/pkg/kmsg"

	"github.com/KafScale/platform/pkg/metadata"
	"github.com/KafScale/platform/pkg/protocol"
)

func TestVerifWitnessC21MergeNeverShrinksPartitions(t *testing.T) {
	parts := func(n int) []protocol.MetadataPartition {
		out := make([]protocol.MetadataPartition, n)
		for i := range out {
			out[i].Partition = int32(i)
		}
		return out
	}
	// rendered from the KafscaleTopic resource: orders has 3 partitions
	next := metadata.ClusterMetadata{Topics: []protocol.MetadataTopic{{Topic: kmsg.StringPtr("orders"), Partitions: parts(3)}}}
	// found in etcd: a broker has since grown orders to 6 partitions (acknowledged CreatePartitions)
	existing := metadata.ClusterMetadata{Topics: []protocol.MetadataTopic{{Topic: kmsg.StringPtr("orders"), Partitions: parts(6)}}}
	merged := mergeSnapshots(next, existing)
	for _, topic := range merged.Topics {
		if *topic.Topic == "orders" {
			if len(topic.Partitions) < 6 {
				t.Fatalf("operator merge shrank orders from 6 to %d partitions", len(topic.Partitions))
			}
			for i, p := range topic.Partitions {
				if p.Partition != int32(i) {
					t.Fatalf("partition ids not contiguous after merge: index %d has id %d", i, p.Partition)
				}
			}
			return
		}
	}
	t.Fatalf("orders disappeared")
}
