package main

// Witness for C32 (cmd/proxy.lfsModule.handleHTTPProduce#assert@WriteHeader#1:C32.produce_success_needs_broker_ack and
// the same clause in handleHTTPUploadComplete):
// "When the LFS HTTP API returns success for an upload ..., the broker has acknowledged the envelope record without
// error. Otherwise the client gets an error status."
// The broker's produce response was read and thrown away: a reply carrying NOT_LEADER_OR_FOLLOWER for the partition
// still produced HTTP 200 with the envelope.
// Copy next to cmd/proxy/*_test.go and run: go test ./cmd/proxy -run TestWitnessC32

import (
	"net"
	"net/http"
	"net/http/httptest"
	"strings"
	"testing"
	"time"

	"github.com/KafScale/platform/pkg/protocol"
	"github.com/twmb/franz-go/pkg/kmsg"
)

// c32FakeBroker answers every produce request with the given per-partition error code.
func c32FakeBroker(t *testing.T, errorCode int16) string {
	t.Helper()
	ln, err := net.Listen("tcp", "127.0.0.1:0")
	if err != nil {
		t.Fatalf("listen: %v", err)
	}
	t.Cleanup(func() { _ = ln.Close() })
	go func() {
		for {
			conn, err := ln.Accept()
			if err != nil {
				return
			}
			go func(c net.Conn) {
				defer c.Close()
				frame, err := protocol.ReadFrame(c)
				if err != nil {
					return
				}
				header, req, err := protocol.ParseRequest(frame.Payload)
				if err != nil {
					return
				}
				preq, ok := req.(*kmsg.ProduceRequest)
				if !ok {
					return
				}
				resp := kmsg.NewPtrProduceResponse()
				for _, tp := range preq.Topics {
					rt := kmsg.NewProduceResponseTopic()
					rt.Topic = tp.Topic
					for _, p := range tp.Partitions {
						rp := kmsg.NewProduceResponseTopicPartition()
						rp.Partition = p.Partition
						rp.ErrorCode = errorCode
						rp.BaseOffset = -1
						rt.Partitions = append(rt.Partitions, rp)
					}
					resp.Topics = append(resp.Topics, rt)
				}
				_ = protocol.WriteFrame(c, protocol.EncodeResponse(header.CorrelationID, header.APIVersion, resp))
			}(conn)
		}
	}()
	return ln.Addr().String()
}

func TestWitnessC32BrokerErrorIsNotReportedAsSuccess(t *testing.T) {
	m := testHTTPModule(t)
	m.httpAPIKey = ""
	m.backends = []string{c32FakeBroker(t, protocol.NOT_LEADER_OR_FOLLOWER)}
	m.backendRetries = 1
	m.dialTimeout = 2 * time.Second

	req := httptest.NewRequest(http.MethodPost, "/lfs/produce", strings.NewReader("payload bytes"))
	req.Header.Set(lfsHeaderTopic, "orders")
	rr := httptest.NewRecorder()
	m.handleHTTPProduce(rr, req)

	if rr.Code == http.StatusOK {
		t.Fatalf("HTTP 200 although the broker answered the envelope record with NOT_LEADER_OR_FOLLOWER; body: %s", rr.Body.String())
	}
}

func TestWitnessC32BrokerSuccessIsReportedAsSuccess(t *testing.T) {
	m := testHTTPModule(t)
	m.httpAPIKey = ""
	m.backends = []string{c32FakeBroker(t, 0)}
	m.backendRetries = 1
	m.dialTimeout = 2 * time.Second

	req := httptest.NewRequest(http.MethodPost, "/lfs/produce", strings.NewReader("payload bytes"))
	req.Header.Set(lfsHeaderTopic, "orders")
	rr := httptest.NewRecorder()
	m.handleHTTPProduce(rr, req)

	if rr.Code != http.StatusOK {
		t.Fatalf("expected 200 when the broker acknowledges, got %d; body: %s", rr.Code, rr.Body.String())
	}
}
