package storage

// Witness for property C02 (offsets are unique, contiguous and increasing): NewRecordBatchFromBytes reads the header of
// the FIRST record batch of a produce blob and accepts whatever follows it. A blob holding two well-formed batches is
// stored whole, but offsets are assigned from the first header only: the records of the second batch keep the offsets
// the client wrote and overlap the ones the log hands out next.

import (
	"context"
	"encoding/binary"
	"testing"
)

func TestVerifWitnessC02ConcatenatedBatchesKeepOffsetsUnique(t *testing.T) {
	ctx := context.Background()
	framed := func(delta, count int32, marker byte) []byte {
		b := makeBatchBytes(0, delta, count, marker)
		binary.BigEndian.PutUint32(b[8:12], uint32(len(b)-12)) // a well-formed batch length
		return b
	}
	blob := append(framed(0, 1, 0xA1), framed(1, 2, 0xA2)...) // batch of 1 record followed by a batch of 2 records
	log := NewPartitionLog("default", "orders", 0, 0, NewMemoryS3Client(), nil, PartitionLogConfig{
		Buffer: WriteBufferConfig{MaxBytes: 1 << 20}, Segment: SegmentWriterConfig{IndexIntervalMessages: 1},
	}, nil, nil, nil)
	first, err := NewRecordBatchFromBytes(blob)
	if err != nil {
		return // rejecting the blob is fine
	}
	if _, err := log.AppendBatch(ctx, first); err != nil {
		t.Fatalf("append: %v", err)
	}
	next, err := NewRecordBatchFromBytes(framed(0, 1, 0xB1))
	if err != nil {
		t.Fatal(err)
	}
	res, err := log.AppendBatch(ctx, next)
	if err != nil {
		t.Fatalf("append: %v", err)
	}
	if err := log.Flush(ctx); err != nil {
		t.Fatalf("flush: %v", err)
	}
	data, err := log.Read(ctx, 0, 1<<20)
	if err != nil {
		t.Fatalf("read: %v", err)
	}
	// walk the stored batches by their length fields
	seen := map[int64]bool{}
	for len(data) >= 61 {
		base := int64(binary.BigEndian.Uint64(data[0:8]))
		size := int(binary.BigEndian.Uint32(data[8:12])) + 12
		delta := int64(int32(binary.BigEndian.Uint32(data[23:27])))
		for o := base; o <= base+delta; o++ {
			if seen[o] {
				t.Fatalf("offset %d is carried by two stored records (the batch appended next was assigned base offset %d)", o, res.BaseOffset)
			}
			seen[o] = true
		}
		if size <= 12 || size > len(data) {
			break
		}
		data = data[size:]
	}
}
