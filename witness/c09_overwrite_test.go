package cache

import "testing"

// Witness for C09 (immutability): bytes handed to a reader by GetSegment must not change when the
// same key is stored again. Before the fix SetSegment reused the entry's backing array.
func TestVerifWitnessC09HandedOutBytesImmutable(t *testing.T) {
	c := NewSegmentCache(1024)
	c.SetSegment("t", 0, 0, []byte("aaaaaaaa"))
	got, ok := c.GetSegment("t", 0, 0)
	if !ok {
		t.Fatal("miss")
	}
	c.SetSegment("t", 0, 0, []byte("bbbbbbbb"))
	if string(got) != "aaaaaaaa" {
		t.Fatalf("bytes handed to a reader changed to %q", got)
	}
}
