package decoder

// Witness for C07 (SQL processor decoder): the timestamp delta of a Kafka record is a varlong (64-bit), the SQL
// decoder reads it with its 32-bit readVarint. A delta of 2^31 ms (24.9 days between the first and a later record
// of one batch, e.g. a backfill producer with CreateTime timestamps) is mis-decoded; a delta >= 2^34 ms makes the
// whole segment undecodable. Also: zigZagDecode shifts a signed int32 arithmetically, so a varint whose zig-zag
// payload has bit 31 set (|v| >= 2^30) decodes wrongly.
// Copy next to addons/processors/sql-processor/internal/decoder/decoder.go and run
//   go test ./internal/decoder -run TestVerifWitnessC07

import (
	"bytes"
	"encoding/binary"
	"testing"
)

func c07PutVarlong(buf *bytes.Buffer, v int64) {
	u := uint64(v<<1) ^ uint64(v>>63)
	for u >= 0x80 {
		buf.WriteByte(byte(u) | 0x80)
		u >>= 7
	}
	buf.WriteByte(byte(u))
}

func c07Segment(baseOffset, firstTimestamp, tsDelta int64) []byte {
	var body bytes.Buffer
	body.WriteByte(0) // attributes
	c07PutVarlong(&body, tsDelta)
	c07PutVarlong(&body, 0)  // offset delta
	c07PutVarlong(&body, -1) // null key
	c07PutVarlong(&body, 1)  // value length
	body.WriteByte('v')
	c07PutVarlong(&body, 0) // no headers
	var rec bytes.Buffer
	c07PutVarlong(&rec, int64(body.Len()))
	rec.Write(body.Bytes())

	batch := make([]byte, 61)
	binary.BigEndian.PutUint64(batch[0:8], uint64(baseOffset))
	binary.BigEndian.PutUint32(batch[8:12], uint32(61-12+rec.Len()))
	batch[16] = 2
	binary.BigEndian.PutUint64(batch[27:35], uint64(firstTimestamp))
	binary.BigEndian.PutUint64(batch[35:43], uint64(firstTimestamp+tsDelta))
	binary.BigEndian.PutUint32(batch[57:61], 1)
	batch = append(batch, rec.Bytes()...)

	seg := make([]byte, 32)
	copy(seg, "KAFS")
	seg = append(seg, batch...)
	footer := make([]byte, 16)
	copy(footer[12:], "END!")
	return append(seg, footer...)
}

func TestVerifWitnessC07TimestampDeltaIsVarlong(t *testing.T) {
	for _, delta := range []int64{1 << 31, 1 << 34, -(1 << 31) - 1} {
		recs, err := decodeSegment(c07Segment(100, 1_700_000_000_000, delta), "t", 0)
		if err != nil {
			t.Errorf("delta %d: decode failed: %v", delta, err)
			continue
		}
		if len(recs) != 1 {
			t.Errorf("delta %d: got %d records, want 1", delta, len(recs))
			continue
		}
		if want := int64(1_700_000_000_000) + delta; recs[0].Timestamp != want {
			t.Errorf("delta %d: timestamp %d, want %d", delta, recs[0].Timestamp, want)
		}
		if recs[0].Offset != 100 || string(recs[0].Value) != "v" {
			t.Errorf("delta %d: record %+v", delta, recs[0])
		}
	}
}

func TestVerifWitnessC07ZigZagHighBit(t *testing.T) {
	// offset delta is a varint (int32): -2^30 - 1 has zig-zag payload 2^31 + 1 (bit 31 set)
	var b bytes.Buffer
	c07PutVarlong(&b, -(1<<30)-1)
	got, err := readVarint(bytes.NewReader(b.Bytes()))
	if err != nil {
		t.Fatalf("readVarint: %v", err)
	}
	if int64(got) != -(1<<30)-1 {
		t.Errorf("readVarint = %d, want %d", got, -(1<<30)-1)
	}
}
