package main

// Witness for C30 (cmd/proxy.lfsModule.streamDownloadWithVerify#assert@WriteHeader#1:C30.stream_size_matches):
// "The proxy download endpoint sends bytes only if their SHA-256 and size match the envelope the caller supplied."
// An object whose SHA-256 matches but which is SHORTER than the envelope-declared size was served with 200.
// Copy next to cmd/proxy/*_test.go and run: go test ./cmd/proxy -run TestWitnessC30StreamServesShortObject

import (
	"bytes"
	"crypto/sha256"
	"encoding/hex"
	"encoding/json"
	"net/http"
	"net/http/httptest"
	"testing"
)

func TestWitnessC30StreamServesShortObject(t *testing.T) {
	m := testHTTPModule(t)
	m.httpAPIKey = ""

	payload := []byte("hello integrity world") // 21 bytes
	key := "test-ns/topic/lfs/2025/01/01/obj-short"
	m.s3Uploader.api.(*fakeS3).objects[key] = payload
	sum := sha256.Sum256(payload)
	sha := hex.EncodeToString(sum[:])

	body, _ := json.Marshal(lfsDownloadRequest{
		Bucket: "test-bucket", Key: key, Mode: "stream",
		Integrity: &lfsIntegrityRequest{SHA256: sha, ChecksumAlg: "sha256", Size: int64(len(payload)) + 79}, // envelope says 100
	})
	req := httptest.NewRequest(http.MethodPost, "/lfs/download", bytes.NewReader(body))
	rr := httptest.NewRecorder()
	m.handleHTTPDownload(rr, req)

	if rr.Code == http.StatusOK {
		t.Fatalf("object of %d bytes served with 200 although the envelope declares size %d (size does not match)", len(payload), len(payload)+79)
	}
}
