package metadata

// Witness for property C21 (known finding): EtcdStore.CreateTopic persists the broker's WHOLE local snapshot with an
// unconditional Put. Two brokers sharing etcd each acknowledge a topic creation; the one whose local snapshot has not
// yet been refreshed by its watcher overwrites the other's topic. The window is the watch-delivery latency, so the
// test repeats the pair of creations and fails as soon as one acknowledged topic is missing from etcd's snapshot.

import (
	"context"
	"encoding/json"
	"fmt"
	"testing"
	"time"

	"github.com/KafScale/platform/internal/testutil"
	"github.com/KafScale/platform/pkg/protocol"
)

func TestVerifWitnessC21AcknowledgedTopicSurvivesOtherBrokersCreate(t *testing.T) {
	endpoints := testutil.StartEmbeddedEtcd(t)
	ctx := context.Background()
	initial := ClusterMetadata{Brokers: []protocol.MetadataBroker{{NodeID: 1, Host: "broker-0", Port: 9092}}, ControllerID: 1}
	a, err := NewEtcdStore(ctx, initial, EtcdStoreConfig{Endpoints: endpoints})
	if err != nil {
		t.Fatalf("store a: %v", err)
	}
	defer a.Close()
	b, err := NewEtcdStore(ctx, initial, EtcdStoreConfig{Endpoints: endpoints})
	if err != nil {
		t.Fatalf("store b: %v", err)
	}
	defer b.Close()
	for round := 0; round < 40; round++ {
		x, y := fmt.Sprintf("x-%d", round), fmt.Sprintf("y-%d", round)
		if _, err := a.CreateTopic(ctx, TopicSpec{Name: x, NumPartitions: 1, ReplicationFactor: 1}); err != nil {
			t.Fatalf("a create %s: %v", x, err)
		}
		// broker b has not necessarily seen a's snapshot yet
		if _, err := b.CreateTopic(ctx, TopicSpec{Name: y, NumPartitions: 1, ReplicationFactor: 1}); err != nil {
			t.Fatalf("b create %s: %v", y, err)
		}
		// both creations were acknowledged: etcd's snapshot must contain both
		resp, err := a.EtcdClient().Get(ctx, snapshotKey())
		if err != nil || len(resp.Kvs) == 0 {
			t.Fatalf("snapshot missing: %v", err)
		}
		var snap ClusterMetadata
		if err := json.Unmarshal(resp.Kvs[0].Value, &snap); err != nil {
			t.Fatalf("decode: %v", err)
		}
		have := map[string]bool{}
		for _, tp := range snap.Topics {
			if tp.Topic != nil {
				have[*tp.Topic] = true
			}
		}
		if !have[x] || !have[y] {
			t.Fatalf("round %d: acknowledged topic lost from the shared snapshot: %s present=%v, %s present=%v", round, x, have[x], y, have[y])
		}
		time.Sleep(20 * time.Millisecond) // let the watchers catch up before the next round
	}
	t.Skip("the lost-update window (watch delivery latency) did not occur in 40 rounds")
}
