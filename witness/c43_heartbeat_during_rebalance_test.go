package broker

// Witness for C43 (clause C43.heartbeat_refreshes_in_every_phase on Heartbeat): while a group is rebalancing,
// Heartbeat answers REBALANCE_IN_PROGRESS WITHOUT recording the heartbeat, so a member that keeps heartbeating
// well inside its session timeout is expired by the cleanup pass as soon as the rebalance has lasted longer than
// that timeout. Copy next to pkg/broker/coordinator.go and run
//   go test ./pkg/broker -run TestC43HeartbeatDuringRebalance
// Fails on the code before the fix, passes after.

import (
	"context"
	"testing"
	"time"

	"github.com/twmb/franz-go/pkg/kmsg"

	"github.com/KafScale/platform/pkg/metadata"
	"github.com/KafScale/platform/pkg/protocol"
)

func TestC43HeartbeatDuringRebalance(t *testing.T) {
	store := metadata.NewInMemoryStore(metadata.ClusterMetadata{})
	c := NewGroupCoordinator(store, protocol.MetadataBroker{NodeID: 1}, &CoordinatorConfig{CleanupInterval: time.Hour})
	defer c.Stop()

	join := func(member string) *kmsg.JoinGroupResponse {
		req := kmsg.NewPtrJoinGroupRequest()
		req.Group = "g"
		req.MemberID = member
		req.ProtocolType = "consumer"
		req.SessionTimeoutMillis = 10000
		req.RebalanceTimeoutMillis = 600000
		p := kmsg.NewJoinGroupRequestProtocol()
		p.Name = "range"
		p.Metadata = c.encodeSubscription([]string{"a"})
		req.Protocols = append(req.Protocols, p)
		resp, err := c.JoinGroup(context.Background(), req)
		if err != nil {
			t.Fatalf("join: %v", err)
		}
		return resp
	}
	j1 := join("")
	sreq := kmsg.NewPtrSyncGroupRequest()
	sreq.Group, sreq.MemberID, sreq.Generation = "g", j1.MemberID, j1.Generation
	if s, err := c.SyncGroup(context.Background(), sreq); err != nil || s.ErrorCode != protocol.NONE {
		t.Fatalf("sync: %v %v", s, err)
	}
	// a second member arrives: the group starts a (long) rebalance; the first member re-joins it at once
	join("")
	r1 := join(j1.MemberID)

	// the first member was last heard of 9 s ago (session timeout 10 s) and now heartbeats in the new generation
	c.mu.Lock()
	st := c.groups["g"]
	st.members[j1.MemberID].lastHeartbeat = time.Now().Add(-9 * time.Second)
	phase := st.state
	c.mu.Unlock()
	hb := kmsg.NewPtrHeartbeatRequest()
	hb.Group, hb.MemberID, hb.Generation = "g", j1.MemberID, r1.Generation
	resp := c.Heartbeat(context.Background(), hb)
	if resp.ErrorCode != protocol.NONE && resp.ErrorCode != protocol.REBALANCE_IN_PROGRESS {
		t.Fatalf("heartbeat of a current member rejected with %d (phase %d)", resp.ErrorCode, phase)
	}
	// two seconds later the cleanup pass runs: 2 s after a heartbeat, 11 s after the one before
	c.mu.Lock()
	st.members[j1.MemberID].lastHeartbeat = st.members[j1.MemberID].lastHeartbeat.Add(-2 * time.Second)
	c.mu.Unlock()
	c.cleanupGroups()
	c.mu.Lock()
	defer c.mu.Unlock()
	if g := c.groups["g"]; g == nil || g.members[j1.MemberID] == nil {
		t.Fatalf("member %s heartbeated 2 s ago (session timeout 10 s, group phase %d) and was expired", j1.MemberID, phase)
	}
}
