package storage

import "testing"

// Witness for C04 (floor): entries at offsets 0,10,20,30,40 and a lookup of 15 must
// return the entry for 10 (greatest entry <= offset). Before the fix it returned the entry for 0.
func TestVerifWitnessC04Floor(t *testing.T) {
	var entries []*IndexEntry
	for i := 0; i < 5; i++ {
		entries = append(entries, &IndexEntry{Offset: int64(10 * i), Position: int32(100 * i)})
	}
	got := findIndexEntry(entries, 15)
	if got.Offset != 10 {
		t.Fatalf("findIndexEntry(15) = entry %d, want 10", got.Offset)
	}
}
