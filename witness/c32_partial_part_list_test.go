package main

// Witness for C32 (cmd/proxy.lfsModule.handleHTTPUploadComplete#assert@CompleteMultipartUpload#1:C32.complete_names_every_stored_part):
// "the object named in the returned envelope exists. Its size and SHA-256 match the envelope".
// The list of parts to assemble was taken from the client's completion request: listing only some of the uploaded
// parts (each with its correct ETag) assembled a shorter object while the returned envelope carried the size and
// SHA-256 of ALL uploaded bytes.
// Needs c32FakeBroker from c32_broker_error_ignored_test.go. Run: go test ./cmd/proxy -run TestWitnessC32

import (
	"bytes"
	"context"
	"crypto/sha256"
	"encoding/json"
	"net/http"
	"net/http/httptest"
	"testing"
	"time"

	"github.com/KafScale/platform/pkg/lfs"
	"github.com/aws/aws-sdk-go-v2/service/s3"
)

type c32RecordingS3 struct {
	*fakeS3
	completedParts []int32
}

func (f *c32RecordingS3) CompleteMultipartUpload(ctx context.Context, params *s3.CompleteMultipartUploadInput, optFns ...func(*s3.Options)) (*s3.CompleteMultipartUploadOutput, error) {
	for _, p := range params.MultipartUpload.Parts {
		f.completedParts = append(f.completedParts, *p.PartNumber)
	}
	return &s3.CompleteMultipartUploadOutput{}, nil
}

func TestWitnessC32CompletionAssemblesEveryUploadedPart(t *testing.T) {
	m := testHTTPModule(t)
	m.httpAPIKey = ""
	rec := &c32RecordingS3{fakeS3: newFakeS3()}
	m.s3Uploader.api = rec
	m.backends = []string{c32FakeBroker(t, 0)}
	m.backendRetries = 1
	m.dialTimeout = 2 * time.Second

	h := sha256.New()
	h.Write([]byte("part-one-bytes"))
	h.Write([]byte("part-two-bytes"))
	session := &uploadSession{
		ID: "sess-1", Topic: "orders", S3Key: "test-ns/orders/lfs/2026/01/01/obj-1", UploadID: "mp-1",
		ContentType: "application/octet-stream", SizeBytes: 28, ChecksumAlg: lfs.ChecksumSHA256,
		CreatedAt: time.Now().UTC(), ExpiresAt: time.Now().UTC().Add(time.Hour),
		PartSize: 14, NextPart: 3, TotalUploaded: 28,
		Parts:     map[int32]string{1: "etag-1", 2: "etag-2"},
		PartSizes: map[int32]int64{1: 14, 2: 14},
		sha256Hasher: h, checksumHasher: h,
	}
	m.lfsStoreUploadSession(session)

	body, _ := json.Marshal(map[string]any{"parts": []map[string]any{{"part_number": 1, "etag": "etag-1"}}}) // part 2 left out
	req := httptest.NewRequest(http.MethodPost, "/lfs/uploads/sess-1/complete", bytes.NewReader(body))
	rr := httptest.NewRecorder()
	m.handleHTTPUploadSession(rr, req)

	if rr.Code == http.StatusOK && len(rec.completedParts) != 2 {
		t.Fatalf("HTTP 200 with an envelope for all 28 uploaded bytes, but the object was assembled from parts %v only", rec.completedParts)
	}
}
