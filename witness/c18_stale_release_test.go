package metadata

// Witness for property C18 (third sentence): "A broker releasing a lease never removes a lease that another
// broker has since acquired." Broker A's etcd lease is lost (revoked at etcd, as after a partition / expiry) while
// A has not yet noticed; broker B acquires the partition; A then releases it. With an unconditional Delete in
// LeaseManager.Release, B's lease key disappears although B still believes it owns the partition.

import (
	"context"
	"testing"
	"time"

	clientv3 "go.etcd.io/etcd/client/v3"

	"github.com/KafScale/platform/internal/testutil"
)

func TestVerifWitnessC18StaleReleaseKeepsNewOwnersLease(t *testing.T) {
	endpoints := testutil.StartEmbeddedEtcd(t)
	brokerA := newLeaseManager(t, endpoints, "broker-a", 10)
	brokerB := newLeaseManager(t, endpoints, "broker-b", 10)
	admin := newEtcdClientForTest(t, endpoints)
	ctx := context.Background()

	if err := brokerA.Acquire(ctx, "orders", 0); err != nil {
		t.Fatalf("broker-a acquire: %v", err)
	}
	key := partitionLeaseKey("orders", 0)
	resp, err := admin.Get(ctx, key)
	if err != nil || len(resp.Kvs) != 1 {
		t.Fatalf("lease key missing: %v", err)
	}
	// A's lease is lost at etcd; A's keep-alive loop has not reported it yet (owned still lists orders/0)
	if _, err := admin.Revoke(ctx, clientv3.LeaseID(resp.Kvs[0].Lease)); err != nil {
		t.Fatalf("revoke: %v", err)
	}
	if err := brokerB.Acquire(ctx, "orders", 0); err != nil {
		t.Fatalf("broker-b acquire after A's lease was lost: %v", err)
	}
	if !brokerA.Owns("orders", 0) {
		t.Skip("broker-a already noticed the lost session; the window did not occur in this run")
	}
	brokerA.Release("orders", 0) // stale release

	time.Sleep(50 * time.Millisecond)
	after, err := admin.Get(ctx, key)
	if err != nil {
		t.Fatalf("get: %v", err)
	}
	if len(after.Kvs) == 0 || string(after.Kvs[0].Value) != "broker-b" {
		t.Fatalf("broker-a's stale Release removed broker-b's lease: key %s now holds %v while broker-b.Owns = %v", key, after.Kvs, brokerB.Owns("orders", 0))
	}
}
