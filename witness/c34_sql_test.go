package decoder

import (
	"encoding/binary"
	"testing"
)

// Witness for C34 (sql decoder): a record whose header count varint decodes to -1.
// Before the fix decodeSegment panicked in make([]Header, 0, headerCount).
func TestVerifWitnessC34NegativeHeaderCount(t *testing.T) {
	rec := []byte{0x0c, 0x00, 0x00, 0x00, 0x01, 0x01, 0x01}
	batch := make([]byte, 61+len(rec))
	binary.BigEndian.PutUint32(batch[8:12], uint32(len(batch)-12))
	binary.BigEndian.PutUint32(batch[57:61], 1)
	copy(batch[61:], rec)
	seg := append(append([]byte("KAFS"), make([]byte, 28)...), batch...)
	seg = append(seg, make([]byte, 16)...)
	defer func() {
		if r := recover(); r != nil {
			t.Fatalf("decodeSegment panicked: %v", r)
		}
	}()
	if _, err := decodeSegment(seg, "t", 0); err == nil {
		t.Fatalf("expected an error for a negative header count")
	}
}
