package main

// Witnesses for C31 (cmd/proxy.lfsDecodeBatchRecords: safety:make / C31.decode_returns_all_records).
// "Every other record, key, header, timestamp, order and count stays the same."
//  1. a batch whose record count field is negative crashed the rewrite (make with a negative length);
//  2. a batch that carries more records than its count field says was re-encoded WITHOUT the surplus records as soon
//     as one of the counted records was flagged: unflagged records silently disappeared from the produce request.
// Copy next to cmd/proxy/*_test.go and run: go test ./cmd/proxy -run TestWitnessC31

import (
	"context"
	"encoding/binary"
	"testing"

	"github.com/KafScale/platform/pkg/protocol"
	"github.com/twmb/franz-go/pkg/kmsg"
)

func c31Request(batch []byte) *kmsg.ProduceRequest {
	return &kmsg.ProduceRequest{
		Acks: 1, TimeoutMillis: 5000,
		Topics: []kmsg.ProduceRequestTopic{{
			Topic:      "test-topic",
			Partitions: []kmsg.ProduceRequestTopicPartition{{Partition: 0, Records: batch}},
		}},
	}
}

func TestWitnessC31NegativeRecordCountDoesNotCrash(t *testing.T) {
	m, _ := testLFSModule(t)
	batch := lfsBuildRecordBatch([]kmsg.Record{{Key: []byte("k"), Value: []byte("v")}})
	binary.BigEndian.PutUint32(batch[57:61], 0xFFFFFFFF) // NumRecords = -1 (offset 57 of the v2 batch header)
	header := &protocol.RequestHeader{APIKey: protocol.APIKeyProduce, APIVersion: 9, CorrelationID: 1}
	defer func() {
		if r := recover(); r != nil {
			t.Fatalf("rewriteProduceRecords panicked on a negative record count: %v", r)
		}
	}()
	_, _ = m.rewriteProduceRecords(context.Background(), header, c31Request(batch))
}

func TestWitnessC31SurplusRecordsAreNotDropped(t *testing.T) {
	m, _ := testLFSModule(t)
	records := []kmsg.Record{
		{Key: []byte("flagged"), Value: []byte("blob payload"), Headers: []kmsg.Header{{Key: "LFS_BLOB", Value: nil}}},
		{Key: []byte("plain"), Value: []byte("must survive"), OffsetDelta: 1},
	}
	batch := lfsBuildRecordBatch(records)
	binary.BigEndian.PutUint32(batch[57:61], 1) // count field says 1, the batch carries 2 records
	req := c31Request(batch)
	header := &protocol.RequestHeader{APIKey: protocol.APIKeyProduce, APIVersion: 9, CorrelationID: 1}
	res, err := m.rewriteProduceRecords(context.Background(), header, req)
	if err != nil {
		return // refusing the inconsistent batch is fine
	}
	if !res.modified {
		return // leaving it untouched is fine too
	}
	batches, err := lfsDecodeRecordBatches(req.Topics[0].Partitions[0].Records)
	if err != nil || len(batches) != 1 {
		t.Fatalf("rewritten request does not decode: %v", err)
	}
	raw := batches[0].Records
	n := 0
	for len(raw) > 0 {
		l, used := lfsVarint(raw)
		if used == 0 || l < 0 || len(raw) < used+int(l) {
			break
		}
		raw = raw[used+int(l):]
		n++
	}
	if n != 2 {
		t.Fatalf("the rewritten batch carries %d record(s); the original carried 2 - an unflagged record was dropped", n)
	}
}
