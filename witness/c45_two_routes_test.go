package idoc

import "testing"

// Witness for C45: a segment name configured for two routes ("Each routed list holds exactly the
// segments whose names are configured for that route"). Before the fix the first-match switch put
// the segment only into Items and left Partners empty.
func TestVerifWitnessC45NameInTwoRoutes(t *testing.T) {
	raw := []byte(`<IDOC><E1EDP01><POSEX>10</POSEX></E1EDP01></IDOC>`)
	res, err := ExplodeXML(raw, ExplodeConfig{ItemSegments: []string{"E1EDP01"}, PartnerSegments: []string{"E1EDP01"}})
	if err != nil {
		t.Fatal(err)
	}
	if len(res.Items) != 1 || res.Items[0].Name != "E1EDP01" {
		t.Fatalf("items: %+v", res.Items)
	}
	if len(res.Partners) != 1 || res.Partners[0].Name != "E1EDP01" {
		t.Fatalf("segment configured for the partner route is missing from Partners: %+v", res.Partners)
	}
}
