package metadata

// Witness for C15 (clauses C15.clone_copies_group_fields / C15.clone_copies_member_fields on cloneConsumerGroup):
// the in-memory metadata store copies a consumer group on Put and on Fetch with cloneConsumerGroup, which drops
// ConsumerGroup.RebalanceTimeoutMs and GroupMember.SessionTimeoutMs. A coordinator that restores the group from the
// store (failover) therefore gives every member the 30 s defaults instead of its own timeouts.
// Copy next to pkg/metadata/store.go and run  go test ./pkg/metadata -run TestC15CloneDropsTimeouts
// Fails on the code before the fix, passes after.

import (
	"context"
	"testing"

	metadatapb "github.com/KafScale/platform/pkg/gen/metadata"
)

func TestC15CloneDropsTimeouts(t *testing.T) {
	store := NewInMemoryStore(ClusterMetadata{})
	in := &metadatapb.ConsumerGroup{
		GroupId:            "g",
		State:              "stable",
		GenerationId:       3,
		Leader:             "m1",
		RebalanceTimeoutMs: 120000,
		Members: map[string]*metadatapb.GroupMember{
			"m1": {SessionTimeoutMs: 10000, Subscriptions: []string{"orders"}},
		},
	}
	if err := store.PutConsumerGroup(context.Background(), in); err != nil {
		t.Fatal(err)
	}
	out, err := store.FetchConsumerGroup(context.Background(), "g")
	if err != nil || out == nil {
		t.Fatalf("fetch: %v %v", out, err)
	}
	if out.RebalanceTimeoutMs != in.RebalanceTimeoutMs {
		t.Errorf("RebalanceTimeoutMs: stored %d, read back %d", in.RebalanceTimeoutMs, out.RebalanceTimeoutMs)
	}
	if got := out.Members["m1"].GetSessionTimeoutMs(); got != 10000 {
		t.Errorf("member SessionTimeoutMs: stored 10000, read back %d", got)
	}
}
