package processor

// Witnesses for C33 (SQL processor; the iceberg and skeleton processors have the same two defects):
//  1. a transient failure on one segment is followed by `continue`: the next segment of the same partition is
//     written and committed in the same cycle, the checkpoint moves past the failed segment's records, and the
//     next cycle filters them out — they are never delivered;
//  2. the placeholder checkpoint store reports offset 0 when nothing was ever committed, so the record at offset 0
//     is filtered out (filterRecords keeps Offset > committed) and never delivered.
// Copy next to addons/processors/sql-processor/internal/processor/processor.go and run
//   go test ./internal/processor -run TestVerifWitnessC33
// (virtual time: testing/synctest, the poll ticker is 5 s).

import (
	"context"
	"errors"
	"sync"
	"testing"
	"testing/synctest"
	"time"

	"github.com/kafscale/platform/addons/processors/sql-processor/internal/checkpoint"
	"github.com/kafscale/platform/addons/processors/sql-processor/internal/decoder"
	"github.com/kafscale/platform/addons/processors/sql-processor/internal/discovery"
	"github.com/kafscale/platform/addons/processors/sql-processor/internal/sink"
)

type c33Lister struct{ segs []discovery.SegmentRef }

func (l *c33Lister) ListCompleted(ctx context.Context) ([]discovery.SegmentRef, error) {
	return l.segs, nil
}

type c33Decoder struct {
	mu       sync.Mutex
	records  map[string][]decoder.Record
	failOnce map[string]bool
}

func (d *c33Decoder) Decode(ctx context.Context, segmentKey, indexKey string, topic string, partition int32) ([]decoder.Record, error) {
	d.mu.Lock()
	defer d.mu.Unlock()
	if d.failOnce[segmentKey] {
		d.failOnce[segmentKey] = false
		return nil, errors.New("transient S3 error")
	}
	return append([]decoder.Record(nil), d.records[segmentKey]...), nil
}

// a checkpoint store that really stores: -1 until something is committed
type c33Store struct {
	mu        sync.Mutex
	committed map[int32]int64
}

func (s *c33Store) ClaimLease(ctx context.Context, topic string, partition int32, ownerID string) (checkpoint.Lease, error) {
	return checkpoint.Lease{Topic: topic, Partition: partition, OwnerID: ownerID}, nil
}
func (s *c33Store) RenewLease(ctx context.Context, lease checkpoint.Lease) error   { return nil }
func (s *c33Store) ReleaseLease(ctx context.Context, lease checkpoint.Lease) error { return nil }
func (s *c33Store) LoadOffset(ctx context.Context, topic string, partition int32) (checkpoint.OffsetState, error) {
	s.mu.Lock()
	defer s.mu.Unlock()
	off, ok := s.committed[partition]
	if !ok {
		off = -1
	}
	return checkpoint.OffsetState{Topic: topic, Partition: partition, Offset: off}, nil
}
func (s *c33Store) CommitOffset(ctx context.Context, state checkpoint.OffsetState) error {
	s.mu.Lock()
	defer s.mu.Unlock()
	if s.committed == nil {
		s.committed = map[int32]int64{}
	}
	s.committed[state.Partition] = state.Offset
	return nil
}

type c33Sink struct {
	mu      sync.Mutex
	offsets map[int64]int
}

func (s *c33Sink) Write(ctx context.Context, records []sink.Record) error {
	s.mu.Lock()
	defer s.mu.Unlock()
	if s.offsets == nil {
		s.offsets = map[int64]int{}
	}
	for _, r := range records {
		s.offsets[r.Offset]++
	}
	return nil
}
func (s *c33Sink) Close(ctx context.Context) error { return nil }
func (s *c33Sink) seen(off int64) bool {
	s.mu.Lock()
	defer s.mu.Unlock()
	return s.offsets[off] > 0
}

func c33Run(t *testing.T, p *Processor, cycles int) {
	ctx, cancel := context.WithCancel(context.Background())
	done := make(chan struct{})
	go func() { _ = p.Run(ctx); close(done) }()
	time.Sleep(time.Duration(cycles)*5*time.Second + time.Second)
	cancel()
	<-done
}

func TestVerifWitnessC33FailedSegmentIsSkippedForever(t *testing.T) {
	synctest.Test(t, func(t *testing.T) {
		segs := []discovery.SegmentRef{
			{Topic: "orders", Partition: 0, BaseOffset: 0, SegmentKey: "seg-0", IndexKey: "idx-0"},
			{Topic: "orders", Partition: 0, BaseOffset: 2, SegmentKey: "seg-2", IndexKey: "idx-2"},
		}
		dec := &c33Decoder{records: map[string][]decoder.Record{
			"seg-0": {{Topic: "orders", Partition: 0, Offset: 0, Value: []byte("a")}, {Topic: "orders", Partition: 0, Offset: 1, Value: []byte("b")}},
			"seg-2": {{Topic: "orders", Partition: 0, Offset: 2, Value: []byte("c")}, {Topic: "orders", Partition: 0, Offset: 3, Value: []byte("d")}},
		}, failOnce: map[string]bool{"seg-0": true}}
		out := &c33Sink{}
		p := &Processor{discover: &c33Lister{segs}, decode: dec, store: &c33Store{}, sink: out, locks: newTopicLocker()}
		c33Run(t, p, 4)
		for off := int64(0); off <= 3; off++ {
			if !out.seen(off) {
				t.Errorf("record at offset %d was never written to the sink (one transient decode failure in the first cycle)", off)
			}
		}
	})
}

func TestVerifWitnessC33FirstRecordWithPlaceholderStore(t *testing.T) {
	synctest.Test(t, func(t *testing.T) {
		segs := []discovery.SegmentRef{{Topic: "orders", Partition: 0, BaseOffset: 0, SegmentKey: "seg-0", IndexKey: "idx-0"}}
		dec := &c33Decoder{records: map[string][]decoder.Record{
			"seg-0": {{Topic: "orders", Partition: 0, Offset: 0, Value: []byte("a")}, {Topic: "orders", Partition: 0, Offset: 1, Value: []byte("b")}},
		}, failOnce: map[string]bool{}}
		out := &c33Sink{}
		p := &Processor{discover: &c33Lister{segs}, decode: dec, store: checkpoint.New(), sink: out, locks: newTopicLocker()}
		c33Run(t, p, 2)
		if !out.seen(0) {
			t.Errorf("the partition's first record (offset 0) was never written to the sink with the placeholder checkpoint store")
		}
		if !out.seen(1) {
			t.Errorf("offset 1 was not written")
		}
	})
}
