package sql

// Witness for C35: Parse computes keyword positions on strings.ToLower(text) and uses them to slice the original
// text. strings.ToLower changes the byte length of some strings (U+023A 'Ⱥ', 2 bytes, lower-cases to U+2C65, 3 bytes;
// every invalid UTF-8 byte becomes the 3-byte U+FFFD), so the positions lie beyond the original text: slice bounds
// out of range -> panic. The SQL server and the SQL proxy call Parse on client text without recover: one client
// query takes the process down.
// Copy next to addons/processors/sql-processor/internal/sql/parser.go and run
//   go test ./internal/sql -run TestVerifWitnessC35

import (
	"strings"
	"testing"
)

func TestVerifWitnessC35ParseNeverPanics(t *testing.T) {
	for _, q := range []string{
		"select " + strings.Repeat("Ⱥ", 12) + " from t",
		"select * from t group by " + strings.Repeat("Ⱥ", 40),
		"select * from t" + strings.Repeat("Ⱥ", 10) + " last 1h order by _ts",
		"select * from t join u" + strings.Repeat("Ⱥ", 30) + " on t._key = u._key within 10m last 1h",
		"select \xff\xff\xff\xff\xff\xff\xff\xff\xff\xff\xff\xff from t",
		"explain select " + strings.Repeat("Ⱥ", 12) + " from t",
	} {
		func() {
			defer func() {
				if r := recover(); r != nil {
					t.Errorf("Parse(%q) panicked: %v", q, r)
				}
			}()
			_, _ = Parse(q)
		}()
	}
}

func TestVerifWitnessC35KeywordCase(t *testing.T) {
	a, errA := Parse("select _value from Orders where _partition = 1 limit 5 last 1h")
	b, errB := Parse("SELECT _value FROM Orders WHERE _partition = 1 LIMIT 5 LAST 1h")
	if errA != nil || errB != nil {
		t.Fatalf("parse errors: %v / %v", errA, errB)
	}
	if a.Topic != b.Topic || a.OrderBy != b.OrderBy || a.OrderDesc != b.OrderDesc || a.Limit != b.Limit || a.Last != b.Last ||
		(a.Partition == nil) != (b.Partition == nil) || (a.Partition != nil && *a.Partition != *b.Partition) || len(a.Select) != len(b.Select) {
		t.Errorf("keyword case changed the parsed query: %+v vs %+v", a, b)
	}
}
