package broker

// Witness for C12 (clause C12.join_keeps_assignment_consistent on JoinGroup): a known member that re-joins a
// Stable group with a DIFFERENT subscription is answered with success in the old generation, no rebalance is
// started, and its next SyncGroup hands out the assignment computed for the old subscription - partitions of a
// topic it no longer subscribes to. Copy next to pkg/broker/coordinator.go and run
//   go test ./pkg/broker -run TestC12RejoinKeepsStaleAssignment
// Fails on the code before the fix, passes after.

import (
	"context"
	"testing"

	"github.com/twmb/franz-go/pkg/kmsg"

	"github.com/KafScale/platform/pkg/metadata"
	"github.com/KafScale/platform/pkg/protocol"
)

func c12Join(t *testing.T, c *GroupCoordinator, member string, topics ...string) *kmsg.JoinGroupResponse {
	t.Helper()
	req := kmsg.NewPtrJoinGroupRequest()
	req.Group = "g"
	req.MemberID = member
	req.ProtocolType = "consumer"
	req.SessionTimeoutMillis = 30000
	req.RebalanceTimeoutMillis = 30000
	p := kmsg.NewJoinGroupRequestProtocol()
	p.Name = "range"
	p.Metadata = c.encodeSubscription(topics)
	req.Protocols = append(req.Protocols, p)
	resp, err := c.JoinGroup(context.Background(), req)
	if err != nil {
		t.Fatalf("join: %v", err)
	}
	return resp
}

func c12Sync(t *testing.T, c *GroupCoordinator, member string, gen int32) *kmsg.SyncGroupResponse {
	t.Helper()
	req := kmsg.NewPtrSyncGroupRequest()
	req.Group = "g"
	req.MemberID = member
	req.Generation = gen
	resp, err := c.SyncGroup(context.Background(), req)
	if err != nil {
		t.Fatalf("sync: %v", err)
	}
	return resp
}

func TestC12RejoinKeepsStaleAssignment(t *testing.T) {
	store := metadata.NewInMemoryStore(metadata.ClusterMetadata{Topics: []protocol.MetadataTopic{
		{Topic: kmsg.StringPtr("a"), Partitions: []protocol.MetadataPartition{{Partition: 0}}},
		{Topic: kmsg.StringPtr("b"), Partitions: []protocol.MetadataPartition{{Partition: 0}}},
	}})
	c := NewGroupCoordinator(store, protocol.MetadataBroker{NodeID: 1}, nil)
	defer c.Stop()

	j1 := c12Join(t, c, "", "a")
	if j1.ErrorCode != protocol.NONE {
		t.Fatalf("first join: code %d", j1.ErrorCode)
	}
	member := j1.MemberID
	if s := c12Sync(t, c, member, j1.Generation); s.ErrorCode != protocol.NONE {
		t.Fatalf("first sync: code %d", s.ErrorCode)
	}

	// the same member re-joins while the group is Stable, now subscribing to "b" only
	j2 := c12Join(t, c, member, "b")
	s2 := c12Sync(t, c, member, j2.Generation)
	if j2.ErrorCode != protocol.NONE || s2.ErrorCode != protocol.NONE {
		// a rebalance was started (join/sync say REBALANCE_IN_PROGRESS or a new generation is being built): fine
		return
	}
	c.mu.Lock()
	defer c.mu.Unlock()
	st := c.groups["g"]
	for _, at := range st.assignments[member] {
		if !memberSubscribes(st.members[member], at.Name) {
			t.Fatalf("generation %d: member subscribes to %v but was handed partitions %v of topic %q",
				st.generationID, st.members[member].topics, at.Partitions, at.Name)
		}
	}
}
