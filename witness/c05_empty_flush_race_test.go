package storage

// Witness for property C05: Flush on an empty buffer reads nextOffset in a SECOND critical section and publishes
// nextOffset-1 as durable. A producer that appends between the two critical sections has its merely buffered offset
// published as durable (the published high watermark runs ahead of S3). Racy by nature: many short rounds.

import (
	"context"
	"sync"
	"sync/atomic"
	"testing"
)

func TestVerifWitnessC05EmptyFlushPublishesOnlyDurableOffsets(t *testing.T) {
	ctx := context.Background()
	for round := 0; round < 20000; round++ {
		var log *PartitionLog
		var bad atomic.Int64
		bad.Store(-1)
		log = NewPartitionLog("default", "orders", 0, 0, NewMemoryS3Client(), nil, PartitionLogConfig{
			Buffer:  WriteBufferConfig{MaxBytes: 1 << 20},
			Segment: SegmentWriterConfig{IndexIntervalMessages: 1},
		}, func(_ context.Context, a *SegmentArtifact) {
			log.mu.Lock()
			last := int64(-1)
			if n := len(log.segments); n > 0 {
				last = log.segments[n-1].lastOffset
			}
			log.mu.Unlock()
			if a.LastOffset > last {
				bad.Store(a.LastOffset)
			}
		}, nil, nil)
		batch, err := NewRecordBatchFromBytes(makeBatchBytes(0, 0, 1, 0xC5))
		if err != nil {
			t.Fatal(err)
		}
		start := make(chan struct{})
		var wg sync.WaitGroup
		for g := 0; g < 6; g++ {
			wg.Add(2)
			go func() { defer wg.Done(); <-start; _ = log.Flush(ctx) }()
			go func() { defer wg.Done(); <-start; _, _ = log.AppendBatch(ctx, batch); _ = log.Flush(ctx) }()
		}
		close(start)
		wg.Wait()
		if v := bad.Load(); v >= 0 {
			t.Fatalf("round %d: Flush on an empty buffer published offset %d as durable while no committed segment holds it", round, v)
		}
	}
}
