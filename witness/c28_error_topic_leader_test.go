package main

// Witness for C28 (cmd/proxy.buildProxyMetadataResponse, clause C28.partition_points_at_proxy on the error-topic branch):
// "A metadata ... reply from the proxy names only the proxy as broker, partition leader and coordinator."
// A topic that carries an error code was copied into the reply unchanged, including its partitions' leader /
// replica / ISR node ids, which are ids of brokers that the reply does not list.
// Copy next to cmd/proxy/*_test.go and run: go test ./cmd/proxy -run TestWitnessC28ErrorTopicLeader

import (
	"testing"

	"github.com/KafScale/platform/pkg/metadata"
	"github.com/KafScale/platform/pkg/protocol"
	"github.com/twmb/franz-go/pkg/kmsg"
)

func TestWitnessC28ErrorTopicLeader(t *testing.T) {
	meta := &metadata.ClusterMetadata{
		Brokers: []protocol.MetadataBroker{{NodeID: 7, Host: "broker-7", Port: 9092}},
		Topics: []protocol.MetadataTopic{{
			Topic:     kmsg.StringPtr("orders"),
			ErrorCode: protocol.REQUEST_TIMED_OUT,
			Partitions: []protocol.MetadataPartition{
				{Partition: 0, Leader: 7, LeaderEpoch: 3, Replicas: []int32{7, 8}, ISR: []int32{7}},
			},
		}},
	}
	resp := buildProxyMetadataResponse(meta, 1, 12, "proxy", 9092)
	listed := map[int32]bool{}
	for _, b := range resp.Brokers {
		listed[b.NodeID] = true
	}
	if len(resp.Topics) != 1 || resp.Topics[0].ErrorCode != protocol.REQUEST_TIMED_OUT {
		t.Fatalf("topic / error code not preserved: %+v", resp.Topics)
	}
	for _, p := range resp.Topics[0].Partitions {
		if !listed[p.Leader] {
			t.Fatalf("partition %d names leader %d, which is not a broker listed in the reply (%v)", p.Partition, p.Leader, resp.Brokers)
		}
		for _, r := range append(append([]int32{}, p.Replicas...), p.ISR...) {
			if !listed[r] {
				t.Fatalf("partition %d names replica %d, which is not a broker listed in the reply", p.Partition, r)
			}
		}
		if p.LeaderEpoch != 3 {
			t.Fatalf("leader epoch not preserved")
		}
	}
}
