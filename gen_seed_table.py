#!/usr/bin/env python3
"""Prints a markdown table of the seeded changes under /verif/seeded (meta.json + caught_by_*.txt)."""
import json,glob,os,re
rows=[]
for d in sorted(glob.glob('/verif/seeded/C*-*')):
    sid=os.path.basename(d)
    try: m=json.load(open(d+'/meta.json'))
    except Exception: continue
    summ=(m.get('summary') or '').replace('\n',' ').replace('|','/')
    summ=re.sub(r'\s+',' ',summ)[:170]
    caught=[]
    for f in sorted(glob.glob(d+'/caught_by_*.txt')):
        c=os.path.basename(f)[10:-4]
        lines=[l.strip() for l in open(f) if l.strip()]
        if lines:
            first=lines[0].replace(' no-failing-input-found','')
            caught.append(f"{c}: `{first[-110:]}`"+(f" (+{len(lines)-1})" if len(lines)>1 else ""))
    res=m.get('check_results') or []
    if not caught:
        old=[r for r in res if r.endswith(':1')]
        caught=[r.split(':')[0]+' (exit 1)' for r in old] or ['**missed**']
    conf=m.get('confirmed',{})
    okc='yes' if conf.get('demo_passes_on_unchanged_tree') and conf.get('demo_fails_with_change') and conf.get('existing_tests_pass_with_change') else 'see meta'
    rows.append(f"| {sid} | {summ} | {'; '.join(caught)} | {okc} |")
print("| seed | change | caught by | confirmed (demo passes unchanged / fails changed / existing tests pass) |\n|---|---|---|---|")
print('\n'.join(rows))
