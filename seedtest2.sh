#!/bin/bash
# seedtest2.sh <Cnn> <n> [check-ids...]: confirm a seeded change and run checks against it WITHOUT touching /repo:
# everything happens in the scratch worktree /tmp/wt/<Cnn> (reset to /repo HEAD, contract files included); the checks read that
# worktree through GOVC_REPO (same engine, same contracts, same commands otherwise). Several seeds of different properties can run
# at the same time. Results are stored under /verif/seeded/<Cnn>-<n>/.
set -u
ID=$1; N=$2; shift 2
CHECKS=${@:-$ID}
WT=/tmp/wt/$ID
SRC=$WT/SEED/$N
DST=/verif/seeded/$ID-$N
export PATH=/opt/veriftools/go1.26.8/bin:$PATH GOTOOLCHAIN=local GOFLAGS=-mod=mod GOPROXY=off GOSUMDB=off
[ -f $SRC/patch.diff ] || { echo "no patch in $SRC"; exit 2; }
mkdir -p $DST
cp $SRC/patch.diff $SRC/demo_test.go $DST/ 2>/dev/null
cp $SRC/meta.json $DST/agent_meta.json 2>/dev/null
HEAD=$(git -C /repo rev-parse HEAD)
(cd $WT && git ls-files -v | grep '^h' | awk '{print $2}' | xargs -r git update-index --no-assume-unchanged)
git -C $WT checkout -q -- . ; git -C $WT checkout -q --detach $HEAD || { echo "cannot move worktree"; exit 2; }
DEMODIR=$(python3 -c "import json;print(json.load(open('$SRC/meta.json')).get('demo_dir','').strip('/'))")
[ -d $WT/$DEMODIR ] || { echo "bad demo_dir $DEMODIR"; exit 2; }
RACE=$(python3 -c "import json;print('-race' if '-race' in json.load(open('$SRC/meta.json')).get('demo_run','') else '')")
MOD=$WT
case $DEMODIR in addons/processors/*) MOD=$WT/$(echo $DEMODIR | cut -d/ -f1-3);; esac
REL=${DEMODIR#$(realpath --relative-to=$WT $MOD)/}; [ "$MOD" = "$WT" ] && REL=$DEMODIR
RUNPAT=$(grep -o 'func Test[A-Za-z0-9_]*' $SRC/demo_test.go | sed 's/func //' | paste -sd'|')
cp $SRC/demo_test.go $WT/$DEMODIR/zz_seed_demo_test.go
echo "== demo on unchanged tree (must pass)"
(cd $MOD && go test $RACE -vet=off -count=1 -timeout 900s -run "^($RUNPAT)\$" ./$REL/ > /tmp/wt/$ID.demo.out 2>&1); BASE=$?; tail -3 /tmp/wt/$ID.demo.out
git -C $WT apply $SRC/patch.diff || { echo "PATCH DOES NOT APPLY"; rm -f $WT/$DEMODIR/zz_seed_demo_test.go; exit 3; }
echo "== build + demo with change (must fail)"
(cd $MOD && go build ./... 2>&1 | tail -3)
(cd $MOD && go test $RACE -vet=off -count=1 -timeout 900s -run "^($RUNPAT)\$" ./$REL/ > /tmp/wt/$ID.demo.out 2>&1); WITH=$?; grep -E "^(--- FAIL|FAIL|ok|panic)" /tmp/wt/$ID.demo.out | head -5
rm -f $WT/$DEMODIR/zz_seed_demo_test.go
echo "== existing tests of the touched packages with change (must pass)"
EXIST=0
for F in $(git -C $WT diff --name-only | xargs -n1 dirname | sort -u); do
  M=$WT; R=$F
  case $F in addons/processors/*) M=$WT/$(echo $F | cut -d/ -f1-3); R=${F#$(echo $F | cut -d/ -f1-3)/};; esac
  (cd $M && go test -vet=off -count=1 -timeout 1500s ./$R/ > /tmp/wt/$ID.exist.out 2>&1) || EXIST=1; tail -2 /tmp/wt/$ID.exist.out
done
echo "base=$BASE with=$WITH existing=$EXIST"
RES=""
for C in $CHECKS; do
  OUT=$(GOVC_REPO=$WT GOVC_EVIDENCE_DIR=/verif/work/seed-evidence GOVC_REPLAY_DIR=/verif/work/seed-replays /verif/bin/govc check $C 2>&1); RC=$?
  echo "== check $C exit=$RC"; echo "$OUT" | grep -E "^(VIOLATION|ENGINE-ERROR|C[0-9]+:)" | cut -c1-300 | head -6
  RES="$RES $C:$RC"
  echo "$OUT" | grep -E "^VIOLATION" | sed 's/.*obligation=//' | head -8 > $DST/caught_by_$C.txt
done
git -C $WT checkout -q -- .
python3 - <<PY
import json
m=json.load(open('$SRC/meta.json'))
out={"property":"$ID","seed":"$ID-$N","summary":m.get('summary'),"needs_to_manifest":m.get('needs_to_manifest'),"demo_dir":"$DEMODIR",
 "confirmed":{"demo_passes_on_unchanged_tree":$BASE==0,"demo_fails_with_change":$WITH!=0,"existing_tests_pass_with_change":$EXIST==0,"repo_head":"$HEAD",
  "ran":"seedtest2.sh: scratch worktree at repo HEAD; go test demo (unchanged / changed); go test of touched packages with change; govc check against the worktree with the change applied (GOVC_REPO), /repo untouched"},
 "check_results":"$RES".split()}
json.dump(out,open('$DST/meta.json','w'),indent=1)
print(json.dumps(out["confirmed"]), out["check_results"])
PY
