#!/bin/bash
# seedtest.sh <Cnn> <n> [check-ids...]: confirm a seeded change in a scratch worktree, store it under /verif/seeded, run checks against /repo with it applied.
set -u
ID=$1; N=$2; shift 2
CHECKS=${@:-$ID}
WT=/tmp/wt/$ID
SRC=$WT/SEED/$N
DST=/verif/seeded/$ID-$N
export PATH=/opt/veriftools/go1.26.8/bin:$PATH GOTOOLCHAIN=local GOFLAGS=-mod=mod GOPROXY=off GOSUMDB=off
[ -f $SRC/patch.diff ] || { echo "no patch in $SRC"; exit 2; }
mkdir -p $DST
cp $SRC/patch.diff $SRC/demo_test.go $DST/ 2>/dev/null
cp $SRC/meta.json $DST/agent_meta.json 2>/dev/null
HEAD=$(git -C /repo rev-parse HEAD)
git -C $WT checkout -q -- . ; git -C $WT checkout -q --detach $HEAD || { echo "cannot move worktree"; exit 2; }
DEMODIR=$(python3 -c "import json;print(json.load(open('$SRC/meta.json')).get('demo_dir','').strip('/'))")
[ -d $WT/$DEMODIR ] || { echo "bad demo_dir $DEMODIR"; exit 2; }
RACE=$(python3 -c "import json;print('-race' if '-race' in json.load(open('$SRC/meta.json')).get('demo_run','') else '')")
MOD=$WT
case $DEMODIR in addons/processors/*) MOD=$WT/$(echo $DEMODIR | cut -d/ -f1-3);; esac
REL=${DEMODIR#$(realpath --relative-to=$WT $MOD)/}; [ "$MOD" = "$WT" ] && REL=$DEMODIR
cp $SRC/demo_test.go $WT/$DEMODIR/zz_seed_demo_test.go
echo "== demo on unchanged tree (must pass)"
(cd $MOD && go test $RACE -vet=off -count=1 -timeout 300s ./$REL/ 2>&1 | tail -3); BASE=${PIPESTATUS[0]}
(cd $MOD && go test $RACE -vet=off -count=1 -timeout 300s ./$REL/ >/dev/null 2>&1); BASE=$?
git -C $WT apply $SRC/patch.diff || { echo "PATCH DOES NOT APPLY"; rm -f $WT/$DEMODIR/zz_seed_demo_test.go; exit 3; }
echo "== build + demo with change (must fail)"
(cd $MOD && go build ./... 2>&1 | tail -3)
(cd $MOD && go test $RACE -vet=off -count=1 -timeout 300s ./$REL/ 2>&1 | grep -E "^(--- FAIL|FAIL|ok|panic)" | head -5); 
(cd $MOD && go test $RACE -vet=off -count=1 -timeout 300s ./$REL/ >/dev/null 2>&1); WITH=$?
rm -f $WT/$DEMODIR/zz_seed_demo_test.go
echo "== existing tests of the touched packages with change (must pass)"
PKGS=$(git -C $WT diff --name-only | xargs -n1 dirname | sort -u | sed "s#^#./#" | tr '\n' ' ')
(cd $WT && go test -vet=off -count=1 -timeout 600s $PKGS 2>&1 | tail -4); 
(cd $WT && go test -vet=off -count=1 -timeout 600s $PKGS >/dev/null 2>&1); EXIST=$?
git -C $WT checkout -q -- .
echo "base=$BASE with=$WITH existing=$EXIST"
RES=""
for C in $CHECKS; do
  git -C /repo apply $SRC/patch.diff || { echo "patch does not apply to /repo"; continue; }
  OUT=$(GOVC_EVIDENCE_DIR=/verif/work/seed-evidence /verif/bin/govc check $C 2>&1); RC=$?
  git -C /repo apply -R $SRC/patch.diff
  echo "== check $C exit=$RC"; echo "$OUT" | grep -E "^(VIOLATION|ENGINE-ERROR|C[0-9]+:)" | cut -c1-300 | head -6
  RES="$RES $C:$RC"
done
python3 - <<PY
import json
m=json.load(open('$SRC/meta.json'))
out={"property":"$ID","seed":"$ID-$N","summary":m.get('summary'),"needs_to_manifest":m.get('needs_to_manifest'),"demo_dir":"$DEMODIR",
 "confirmed":{"demo_passes_on_unchanged_tree":$BASE==0,"demo_fails_with_change":$WITH!=0,"existing_tests_pass_with_change":$EXIST==0,"repo_head":"$HEAD",
  "ran":"seedtest.sh: worktree at repo HEAD; go test demo (unchanged / changed); go test of touched packages with change; govc check with change applied to /repo then reverted"},
 "check_results":"$RES".split()}
json.dump(out,open('$DST/meta.json','w'),indent=1)
print(json.dumps(out["confirmed"]), out["check_results"])
PY
