#!/usr/bin/env python3
"""Regenerates MANIFEST.json from props/*.json and na.json (reasons for unclaimed properties)."""
import json, glob, os, subprocess
props = {}
for f in sorted(glob.glob('/verif/props/C*.json')):
    p = json.load(open(f)); props[p['id']] = p
na = json.load(open('/verif/na.json'))
ids = [json.loads(l)['id'] for l in open('/verif/properties.jsonl')]
hooks = subprocess.run(['git','-C','/repo','log','--format=%h %s'],capture_output=True,text=True).stdout.strip().split('\n')
hook_commits = [l.split()[0] for l in hooks if l.split(' ',1)[1].startswith('verif:')]
base = json.load(open('/root/.vp/BASELINE.json'))
checks = []
for i in ids:
    if i not in props: continue
    p = props[i]
    level = p.get('level','proof')
    checks.append({
        "property_id": i,
        "quick_cmd": f"/verif/bin/govc check {i} --tier quick",
        "thorough_cmd": f"/verif/bin/govc check {i} --tier thorough",
        "evidence_file": f"/verif/evidence/{i}.json",
        "replay_cmd_template": "cat {path}",
        "engine": "govc",
        "level_claimed": {"category": level, "text": p['explanation'], "design_ref": f"DESIGN.md §3 {i}, §7"},
        "level_note": "; ".join(p.get('assumptions', [])) or "see evidence assumptions",
        "technique": p.get('technique', 'contract-based deductive verification (govc: go/ssa symbolic execution -> SMT, z3/cvc5)'),
    })
not_app = []
for i in ids:
    if i in props: continue
    not_app.append({"property_id": i, "reason": na.get(i, "no check built within the time available; contracts of this family not yet written for its functions (see DESIGN.md §7)")})
m = {
 "version": 1,
 "setup_cmd": "/verif/build.sh",
 "hooks": {"guard": "verif", "enable": "go build -tags verif (contract files zz_verif_contracts*.go are comment-only; govc reads them with -tags=verif)",
           "baseline_off_cmd": base['cmd'], "source_commits": hook_commits, "add_only": True},
 "engines": [{"name": "govc", "path": "/verif/govc", "serves_properties": sorted(props), "kind_free_text": "verification-condition generator for Go: go/ssa (NaiveForm) symbolic execution with contracts (requires/ensures/loop invariants/ghost asserts) read from comment-only files in /repo, obligations discharged by z3 4.8.12 / z3 5.1.0 / cvc5 1.0, counterexamples replayed with go test -overlay"}],
 "checks": checks,
 "not_applicable": not_app,
 "notes": "All checks are run by /verif/bin/govc (built by setup_cmd). Exit 0 = all obligations discharged (known findings printed as KNOWN-FINDING), exit 1 = VIOLATION lines, exit 2 = engine could not decide (no VIOLATION line)."
}
json.dump(m, open('/verif/MANIFEST.json','w'), indent=1)
print(len(checks), 'checks,', len(not_app), 'not applicable')
