#!/bin/bash
# Builds the verification engine offline from files on disk only.
set -e
export PATH=/opt/veriftools/go1.26.8/bin:$PATH GOTOOLCHAIN=local GOFLAGS=-mod=mod GOPROXY=off GOSUMDB=off
HERE=$(cd "$(dirname "$0")" && pwd)
cd "$HERE/govc"
mkdir -p "$HERE/bin"
go build -o "$HERE/bin/govc" .
echo "govc built"
