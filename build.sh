#!/bin/bash
# Builds the verification engine offline from files on disk only.
set -e
export PATH=/opt/veriftools/go1.26.8/bin:$PATH GOTOOLCHAIN=local GOFLAGS=-mod=mod GOPROXY=off GOSUMDB=off
cd /verif/govc
mkdir -p /verif/bin
go build -o /verif/bin/govc .
echo "govc built"
