#!/bin/bash
# lemmas.sh <file.smt2> <expected answers, space separated>: checks a hand-stated glue lemma file with z3 5.1 and z3 4.8
# (every query must give the expected answer: "unsat" = lemma holds, "sat" = control query that must be satisfiable).
# Prints "EXTRA-OK <n>" (n = number of unsat lemmas) on success; any deviation is an engine error (exit 2), not a violation.
F=$1; shift
EXP="$*"
for S in z3-new z3; do
  GOT=$($S -T:60 "$F" 2>&1 | tr '\n' ' ' | sed 's/ *$//')
  if [ "$GOT" != "$EXP" ]; then echo "lemma file $F: $S answered '$GOT', expected '$EXP'"; exit 2; fi
done
N=$(echo "$EXP" | tr ' ' '\n' | grep -c '^unsat$')
echo "EXTRA-OK $N"
