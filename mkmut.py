#!/usr/bin/env python3
"""mkmut.py <Cnn> <name> <file> : reads OLD and NEW text blocks from stdin separated by a line '=====' and writes
/verif/selftest/<Cnn>/<name>.patch (a git diff against /repo HEAD produced in a scratch worktree)."""
import sys, subprocess, os, tempfile
cid, name, path = sys.argv[1:4]
old, new = sys.stdin.read().split('\n=====\n')
new = new.rstrip('\n')
old = old.rstrip('\n')
wt = '/tmp/wt/mut'
if not os.path.isdir(wt):
    subprocess.run(['git','-C','/repo','worktree','add','-q','--detach',wt,'HEAD'],check=True)
subprocess.run(['git','-C',wt,'checkout','-q','--detach',subprocess.run(['git','-C','/repo','rev-parse','HEAD'],capture_output=True,text=True).stdout.strip()],check=True)
subprocess.run(['git','-C',wt,'checkout','-q','--','.'],check=True)
p = os.path.join(wt, path)
s = open(p).read()
nth = int(os.environ.get('NTH', '0'))
if nth == 0 and s.count(old) != 1:
    sys.exit(f"OLD text occurs {s.count(old)} times in {path} (set NTH=k to pick the k-th)")
if nth == 0:
    s2 = s.replace(old, new)
else:
    pos = -1
    for _ in range(nth):
        pos = s.find(old, pos + 1)
        if pos < 0:
            sys.exit(f"OLD text occurs fewer than {nth} times")
    s2 = s[:pos] + new + s[pos+len(old):]
open(p,'w').write(s2)
d = subprocess.run(['git','-C',wt,'diff'],capture_output=True,text=True).stdout
os.makedirs(f'/verif/selftest/{cid}',exist_ok=True)
open(f'/verif/selftest/{cid}/{name}.patch','w').write(d)
subprocess.run(['git','-C',wt,'checkout','-q','--','.'],check=True)
print('wrote', f'/verif/selftest/{cid}/{name}.patch')
