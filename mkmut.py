#!/usr/bin/env python3
"""mkmut.py <Cnn> <name> <file> : reads OLD and NEW text blocks from stdin separated by a line '=====' and writes
/verif/selftest/<Cnn>/<name>.patch (a git diff against /repo HEAD produced in a scratch worktree)."""
import sys, subprocess, os, tempfile
cid, name, path = sys.argv[1:4]
old, new = sys.stdin.read().split('\n=====\n')
new = new.rstrip('\n')
old = old.rstrip('\n')
wt = '/tmp/wt/mut'
if not os.path.isdir(wt):
    subprocess.run(['git','-C','/repo','worktree','add','-q','--detach',wt,'HEAD'],check=True)
subprocess.run(['git','-C',wt,'checkout','-q','--detach',subprocess.run(['git','-C','/repo','rev-parse','HEAD'],capture_output=True,text=True).stdout.strip()],check=True)
subprocess.run(['git','-C',wt,'checkout','-q','--','.'],check=True)
p = os.path.join(wt, path)
s = open(p).read()
if s.count(old) != 1:
    sys.exit(f"OLD text occurs {s.count(old)} times in {path}")
open(p,'w').write(s.replace(old,new))
d = subprocess.run(['git','-C',wt,'diff'],capture_output=True,text=True).stdout
os.makedirs(f'/verif/selftest/{cid}',exist_ok=True)
open(f'/verif/selftest/{cid}/{name}.patch','w').write(d)
subprocess.run(['git','-C',wt,'checkout','-q','--','.'],check=True)
print('wrote', f'/verif/selftest/{cid}/{name}.patch')
