#!/bin/bash
# selftest.sh <Cnn> [patch...]: must-fail corpus. Applies each /verif/selftest/<Cnn>/*.patch to a scratch worktree of /repo
# (outside /repo and /verif, removed afterwards), checks that it still builds, runs the property check against the scratch
# tree (GOVC_REPO) and requires exit 1 with a VIOLATION line. Evidence of these runs goes to a scratch dir.
ID=$1; shift
export PATH=/opt/veriftools/go1.26.8/bin:$PATH GOTOOLCHAIN=local GOFLAGS=-mod=mod GOPROXY=off GOSUMDB=off
WT=/tmp/wt/selftest-$ID-$$
git -C /repo worktree add -q --detach $WT HEAD || exit 2
# uncommitted contract files of /repo (development) are carried over
(cd /repo && git ls-files -o --exclude-standard | grep zz_verif_contracts | while read f; do cp $f $WT/$f; done)
PATCHES=${@:-$(ls /verif/selftest/$ID/*.patch)}
FAIL=0
for P in $PATCHES; do
  git -C $WT apply $P || { echo "SELFTEST $ID $(basename $P): PATCH DOES NOT APPLY"; FAIL=1; continue; }
  MODS=$(git -C $WT diff --name-only | sed -E 's#^(addons/processors/[^/]+)/.*#\1#; t; s#.*#.#' | sort -u)
  BUILD=ok
  for M in $MODS; do (cd $WT/$M && go build ./... >/dev/null 2>&1) || BUILD=broken; done
  OUT=$(GOVC_REPO=$WT GOVC_EVIDENCE_DIR=/tmp/wt/selftest-ev-$ID GOVC_REPLAY_DIR=/tmp/wt/selftest-replays-$ID /verif/bin/govc check $ID 2>&1); RC=$?
  N=$(echo "$OUT" | grep -c '^VIOLATION')
  FIRST=$(echo "$OUT" | grep '^VIOLATION' | head -2 | sed 's/.*obligation=//' | tr '\n' ' ')
  if [ $RC -eq 1 ] && [ $N -gt 0 ] && [ $BUILD = ok ]; then echo "SELFTEST $ID $(basename $P): caught ($N) $FIRST"; else echo "SELFTEST $ID $(basename $P): MISSED rc=$RC build=$BUILD"; echo "$OUT" | tail -3; FAIL=1; fi
  git -C $WT checkout -q -- . ; git -C $WT clean -fdq -e 'zz_verif_contracts*'
done
git -C /repo worktree remove --force $WT
rm -rf /tmp/wt/selftest-ev-$ID /tmp/wt/selftest-replays-$ID
exit $FAIL
