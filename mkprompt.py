#!/usr/bin/env python3
import json,sys
pid=sys.argv[1]
for l in open('/verif/properties.jsonl'):
    p=json.loads(l)
    if p['id']==pid: break
wt=f"/tmp/wt/{pid}"
print(f"""You are working in a scratch git worktree of the KafScale/platform repository (Go) at {wt}. The sandbox is offline. Work ONLY inside {wt} (and /tmp for scratch files); never read or modify /repo, /verif or any other checkout.

KafScale is a Kafka-wire-compatible streaming broker with stateless brokers, S3-backed immutable log segments, etcd metadata/offsets, a consumer-group coordinator, a K8s operator and SQL/Iceberg addons.

Here is a semantic property of the system that should always hold:

  Title: {p['title']}
  Statement: {p['statement']}
  It must hold for: {p['quantifier']['text']}
  Relevant source files: {', '.join(p['anchors']['files'])}

YOUR TASK: produce TWO independent, different changes to the repository's non-test source code, each of which BREAKS this property while the repository still compiles and the existing test suite still passes. For each change also produce a demonstration (a Go test file) that FAILS with the change and PASSES without it.

Requirements for each change:
- It must be realistic: the kind of regression a developer could plausibly introduce (a refactor, an optimisation, an off-by-one, a dropped or weakened check, a changed comparison, a reordered pair of statements, two cooperating edits that each look fine alone). Small (a few lines).
- It must need something specific to manifest - a particular interleaving, a crash or fault at a particular point, a multi-step sequence of operations, an unusual input, or two cooperating sites - NOT something ordinary use (or the existing tests) would expose at once.
- It must only touch non-test .go source files of the repository (no test files, no go.mod, no build config).
- The two changes should use different mechanisms / different functions where possible.

How to work:
- Go toolchain: first run `export PATH=/root/go/pkg/mod/golang.org/toolchain@v0.0.1-go1.25.2.linux-amd64/bin:$PATH GOTOOLCHAIN=local GOFLAGS=-mod=mod GOPROXY=off GOSUMDB=off` in every shell call (environment does not persist between calls), then plain `go ...` works offline (from inside {wt}, or inside {wt}/addons/processors/<name> for the addon modules, which are separate Go modules).
- Read the relevant source files first. Then make change 1, and check: `go build ./...` succeeds and the existing tests of every package you touched or that depends closely on it pass, e.g. `go test -vet=off -count=1 ./pkg/... ./cmd/... ./internal/...` (the full suite takes ~5 minutes; run at least the packages affected, and preferably everything once at the end).
- Write the demonstration test, confirm it FAILS with the change applied and PASSES on the unchanged tree (use `git diff > /tmp/p_{pid}.diff; git checkout -- .; ...; git apply /tmp/p_{pid}.diff`; NEVER use `git stash` - the stash is shared with other checkouts).
- Save, for change N in (1,2), under {wt}/SEED/N/ :
    patch.diff   - output of `git diff` containing ONLY the non-test source change (apply-able with `git apply` on the unchanged tree)
    demo_test.go - the demonstration test file (state in meta.json the directory it must be copied to, e.g. pkg/storage/)
    meta.json    - {{"property": "{pid}", "summary": "...what the change does...", "needs_to_manifest": "...", "demo_dir": "<dir relative to repo root where demo_test.go goes>", "demo_run": "<go test command that runs the demo>", "existing_tests_run": "<commands you ran and that passed with the change>"}}
- Leave the worktree clean of source changes at the end (git checkout -- . ; the SEED directory is untracked and stays).

Finish with a short summary of the two changes, how each manifests, and confirmation of what you ran. Do not describe or guess at any verification tooling; just produce the changes and demonstrations.""")
