#!/bin/bash
# seedprep.sh <Cnn>: scratch worktree of /repo HEAD at /tmp/wt/<Cnn> with the verification contract files hidden, plus the prompt file.
ID=$1
git -C /repo worktree add -q --detach /tmp/wt/$ID HEAD || exit 2
cd /tmp/wt/$ID && git ls-files | grep zz_verif_contracts | xargs git update-index --assume-unchanged && git ls-files | grep zz_verif_contracts | xargs rm -f
python3 /verif/mkprompt.py $ID > /tmp/wt/$ID.prompt
echo "prepared /tmp/wt/$ID"
