#!/bin/bash
# Self-test of the static guard analysis: expected verdict is in the clause name (ok_* holds, bad_* refuted).
# usage: run.sh <govc binary> <scratch copy of the repo tree>
export PATH=/opt/veriftools/go1.26.8/bin:$PATH GOTOOLCHAIN=local GOFLAGS=-mod=mod GOPROXY=off GOSUMDB=off
HERE=$(cd "$(dirname "$0")" && pwd); GOVC=$1; R=$2
mkdir -p $R/internal/guardtest
cp $HERE/guardtest.go.txt $R/internal/guardtest/guardtest.go
cp $HERE/contracts.go.txt $R/internal/guardtest/zz_verif_contracts.go
roots=$(grep -o 'func (s \*srv) \(ok\|bad\)_[a-z_]*' $HERE/guardtest.go.txt | awk '{print "internal/guardtest.srv."$4}' | tr '\n' ' ')
out=$(GOVC_VERIF=$HERE/../.. GOVC_REPO=$R $GOVC debug $R ./internal/guardtest $roots -v 2>&1)
rm -r $R/internal/guardtest
fail=0
while read -r line; do
  name=$(echo "$line" | grep -o 'guard:G\.[a-z_]*' | sed 's/guard:G\.//'); [ -z "$name" ] && continue
  verdict=$(echo "$line" | awk '{print $1}')
  case "$name" in
    ok_*)  [ "$verdict" = ok ]   || { echo "SELFTEST-FAIL $name should hold: $line"; fail=1; } ;;
    bad_*) [ "$verdict" = FAIL ] || { echo "SELFTEST-FAIL $name should be refuted: $line"; fail=1; } ;;
  esac
done <<< "$(echo "$out" | grep ' guard ')"
n=$(echo "$out" | grep -c ' guard ')
echo "guard selftest: $n clauses, fail=$fail"
echo "$out" | grep -E "ENGINE|not found" | head
exit $fail
